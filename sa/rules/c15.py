"""C15 - deriving a model never changes another model; field order is
deterministic."""
import ast

from ..core import (AnalysisError, dotted, unparse, calls_in, call_name,
                    walk_no_defs, parent, ancestors, ClassInfo, FuncInfo)
from ..flow import guards_at, flatten_guards, SeqFlow, RETURN
from .. import guardspec
from ..report import Result
from ..ownership import Ownership, mutation_sites, chain, FRESH_CALLS
from ..setflow import (set_typed_names, unordered_iterations,
                       class_set_attributes)
from ..callgraph import CallGraph
from ..mutate import Mutant, in_func

ID = 'C15'
EXPLANATION = (
    'R1 copy-on-write ownership: in every derivation function (_s_customize, '
    'customize, __new__ of the primitives, Array, XmlModifier/XmlAttribute, '
    'Mandatory, _process_child_attrs) each attribute store, item store/delete '
    'and in-place container mutation goes through a root that is fresh - the '
    'class returned by type(...)/customize(...), a class statement of the '
    'function, a literal/copy container, the function\'s own kwargs - and a '
    'container reached through a fresh class (X._type_info, '
    'X.Attributes.<f>) is mutated only after it was rebound to a fresh '
    'container on that class; helper functions are checked at their call '
    'sites; a value taken out of kwargs (the caller\'s dict) is copied before '
    'it is mutated. R2 evolution reaches variants: append/insert/replace '
    'field call both the implementation and the propagation to the variants '
    'on every path, and customize registers the variant. R3 order sources '
    'are ordered: no iteration over a set reaches an order-sensitive '
    'operation in the model layer; class namespaces are ordered mappings; '
    'TypeInfo is an ordered dict. Not decided: observational equality of '
    'every pooled model after every step.')
ASSUMPTIONS = ['type(), copy(), dict(), TypeInfo(...) and customize() return '
               'objects no other model refers to',
               'ModelBase._s_customize returns a fresh class dict with fresh '
               'Attributes/Annotations classes (checked by R1 on that '
               'function itself)']
LEVEL_TEXT = (
    'Static ownership (freshness) analysis of every write in the derivation '
    'functions, must-call analysis of the evolution API, and unordered-'
    'iteration analysis of the model layer. Decides that no derivation path '
    'writes through the source model or a shared container; does not replay '
    'histories.')
LEVEL_NOTE = ('Trusted: constructors/copies listed as fresh; whitelisted '
              'registries (_variants, _subclasses, memo clears, lazy '
              '__orig__) are intended shared state.')
TECHNIQUE = 'ownership/freshness effect analysis + must-call + set-iteration analysis (ast)'

DERIVATION = [
    ('spyne.model._base', 'ModelBase._s_customize'),
    ('spyne.model._base', 'ModelBaseMeta.customize'),
    ('spyne.model._base', 'SimpleModel.__new__'),
    ('spyne.model._base', 'SimpleModel.customize'),
    ('spyne.model.primitive.number', 'Decimal.__new__'),
    ('spyne.model.primitive.number', 'Decimal._s_customize'),
    ('spyne.model.primitive.string', 'Unicode.__new__'),
    ('spyne.model.binary', 'ByteArray.__new__'),
    ('spyne.model.complex', 'XmlModifier.__new__'),
    ('spyne.model.complex', 'XmlAttribute.__new__'),
    ('spyne.model.complex', 'ComplexModelBase.customize'),
    ('spyne.model.complex', 'Array.__new__'),
    ('spyne.model.complex', 'Array.customize'),
    ('spyne.model.complex', 'Mandatory'),
    ('spyne.model.complex', 'SelfReference.customize'),
]
# helpers that write through a parameter: checked at their call sites
HELPERS = {
    '_process_child_attrs': ('retval', [['Attributes',
                                         '_delayed_child_attrs'],
                                        ['_type_info']]),
    '_set_serializer': ('cls', []),
}
WHITELIST = {
    # (function, base text prefix): reason
    ('ComplexModelBase.customize', 'ComplexModelBase.get_'):
        'memo tables are cleared, not filled',
    ('SelfReference.customize', 'cls'):
        'lazy, idempotent __orig__ = cls on the marker class',
}
# postconditions of customize(): containers that are fresh on its result
CUSTOMIZE_FRESH_PATHS = [['_type_info'], ['Attributes'],
                         ['Attributes', '_delayed_child_attrs']]


def _path_text(path):
    return '.'.join(p for p in path if p != '[]')


def check_function(prog, res, f, label, is_helper=False):
    o = Ownership(f)
    n = 0
    for s in mutation_sites(f.node):
        n += 1
        where = '%s:%d' % (f.module.relpath, s.node.lineno)
        # refine loop variables: use the innermost enclosing for that binds
        kind, path = kind_at(o, s)
        base_txt = unparse(s.base)
        wl = None
        for (fn, pref), why in WHITELIST.items():
            if f.qualname == fn and base_txt.startswith(pref):
                wl = why
        inst = '%s: %s via %s [%s%s]' % (label, s.what[:50], base_txt[:40],
                                         kind, ('.' + _path_text(path))
                                         if path else '')
        if wl:
            res.ob('R1', where, inst + ' (whitelisted: %s)' % wl, 'ok',
                   nontrivial=False)
            continue
        if kind == 'fresh':
            store_attr = s.kind.startswith('store-attr') or \
                s.kind == 'setattr'
            eff_path = [p for p in path if p != '[]']
            if not eff_path:
                res.ob('R1', where, inst, 'ok')
                continue
            # writing an attribute ON a fresh class / its fresh Attributes
            if store_attr and eff_path in ([], ['Attributes']):
                res.ob('R1', where, inst + ' (attribute of the fresh class)',
                       'ok')
                continue
            root, _ = chain(s.base)
            alias_root, alias_path = resolve_alias(o, s.base)
            if o.rebound_before(s.node, alias_root, alias_path) or \
                    from_customize(o, alias_root) and \
                    [p for p in alias_path if p != '[]'] in \
                    CUSTOMIZE_FRESH_PATHS or \
                    any(rebound_prefix(o, s.node, alias_root, alias_path, i)
                        for i in range(1, len(alias_path) + 1)):
                res.ob('R1', where, inst + ' (container rebound fresh '
                       'before)', 'ok')
                continue
            res.ob('R1', where, inst, 'VIOLATED')
            res.finding('R1', '%s|%s|%s' % (f.qualname, s.kind.split(':')[0],
                                            _path_text(alias_path) or
                                            base_txt), where,
                        '%s modifies %s in place: it is reached through the '
                        'fresh class but was not rebound to a fresh container '
                        'on it first, so the container is still the one the '
                        'source model (and its other derivatives) use' % (
                            s.what[:60], base_txt))
            continue
        if kind.startswith('param:'):
            pname = kind.split(':', 1)[1]
            if is_helper and pname == HELPERS.get(f.name, (None,))[0]:
                res.ob('R1', where, inst + ' (checked at call sites)', 'ok',
                       nontrivial=False)
                continue
            res.ob('R1', where, inst, 'VIOLATED')
            res.finding('R1', '%s|%s|%s' % (f.qualname, pname,
                                            _path_text(path) or
                                            s.kind), where,
                        '%s writes through the parameter %s (%s): a '
                        'derivation function must not modify the model (or '
                        'object) it was given' % (f.qualname, pname,
                                                  s.what[:60]))
            continue
        if kind.startswith('arg:'):
            res.ob('R1', where, inst, 'VIOLATED')
            res.finding('R1', '%s|caller-arg|%s' % (f.qualname, base_txt),
                        where, '%s mutates %s, an object taken out of the '
                        'caller\'s keyword arguments without copying it: a '
                        'dict reused for a second derivation arrives '
                        'modified' % (f.qualname, base_txt))
            continue
        if kind == 'global':
            res.ob('R1', where, inst, 'VIOLATED')
            res.finding('R1', '%s|global|%s' % (f.qualname, base_txt), where,
                        '%s modifies module-level/shared object %s' % (
                            f.qualname, base_txt))
            continue
        res.ob('R1', where, inst, 'unclassified', nontrivial=False)
        res.unclass('R1', where, inst)
    return n


def kind_at(o, s):
    """Classification of the base of a site, choosing for loop variables the
    innermost enclosing loop that binds them."""
    root, path = chain(s.base)
    if root is None:
        return 'unknown', path
    for a in ancestors(s.node):
        if isinstance(a, ast.For):
            names = [e.id for e in ast.walk(a.target)
                     if isinstance(e, ast.Name)]
            if root in names:
                k, p = o.value_kind(a.iter)
                return k, p + ['[]'] + path
        if a is o.f.node:
            break
    # the nearest assignment that dominates the site: an earlier statement
    # of the same block or of an enclosing block
    from ..flow import stmt_of
    st = stmt_of(s.node)
    cur = st
    dom = None
    while cur is not None and cur is not o.f.node and dom is None:
        p_ = parent(cur)
        for fld in ('body', 'orelse', 'finalbody'):
            lst = getattr(p_, fld, None)
            if isinstance(lst, list) and cur in lst:
                for prev in reversed(lst[:lst.index(cur)]):
                    if isinstance(prev, ast.Assign) and any(
                            isinstance(t, ast.Name) and t.id == root
                            for t in prev.targets):
                        dom = prev
                        break
        cur = p_
    if dom is not None:
        k, p = o.value_kind(dom.value)
        # x = dict(x): a copy of itself is fresh
        return k, p + path
    # nearest preceding plain assignment
    defs = [d for d in o.assigns.get(root, []) if isinstance(d, ast.Assign)
            and d.lineno <= s.node.lineno]
    if defs and root not in o.params:
        kinds = [o.value_kind(d.value) for d in defs]
        bad = [k for k in kinds if k[0] != 'fresh']
        k, p = bad[0] if bad else max(kinds, key=lambda x: len(x[1]))
        return k, p + path
    k, p = o.name_kind(root)
    return k, p + path


def resolve_alias(o, base):
    """Follow local aliases (ti = retval._type_info) to root.path."""
    root, path = chain(base)
    hops = 0
    while root is not None and hops < 4:
        defs = [d for d in o.assigns.get(root, [])
                if isinstance(d, ast.Assign)]
        if len(defs) != 1 or root in o.params:
            break
        v = defs[0].value
        if isinstance(v, (ast.Attribute, ast.Name, ast.Subscript)):
            r2, p2 = chain(v)
            if r2 is None:
                break
            root, path = r2, p2 + path
            hops += 1
        else:
            break
    return root, path


def rebound_prefix(o, node, root, path, i):
    if root is None:
        return False
    return o.rebound_before(node, root, path[:i])


def from_customize(o, root):
    if root is None:
        return False
    for d in o.assigns.get(root, []):
        if isinstance(d, ast.Assign) and isinstance(d.value, ast.Call) and \
                call_name(d.value) == 'customize':
            return True
    return False


def rule_r1(prog, res):
    res.rule('R1', 'derivation functions write only through fresh objects')
    total = 0
    for mn, qn in DERIVATION:
        m = prog.module(mn)
        f = m.functions.get(qn)
        if f is None:
            raise AnalysisError('%s:%s' % (mn, qn), 'not found')
        total += check_function(prog, res, f, qn)
    # helpers: body + call sites
    cm = prog.module('spyne.model.complex')
    for hname, (pname, need_paths) in sorted(HELPERS.items()):
        hf = None
        for q, x in cm.functions.items():
            if q.split('.')[-1] == hname:
                hf = x
        if hf is None:
            raise AnalysisError('helper ' + hname, 'not found')
        total += check_function(prog, res, hf, hf.qualname, is_helper=True)
        # call sites
        ncs = 0
        for g in cm.functions.values():
            for c in calls_in(g.node):
                if call_name(c) != hname:
                    continue
                ncs += 1
                if isinstance(c.func, ast.Attribute):
                    arg = c.func.value           # receiver is the param
                else:
                    idx = hf.params().index(pname)
                    arg = c.args[idx] if idx < len(c.args) else None
                if arg is None:
                    continue
                og = Ownership(g)
                k, p = og.expr_kind(arg)
                where = '%s:%d' % (g.module.relpath, c.lineno)
                inst = '%s calls %s with %s=%s [%s]' % (
                    g.qualname, hname, pname, unparse(arg)[:30], k)
                fresh_ok = k == 'fresh' and not [x for x in p if x != '[]']
                if not fresh_ok and g.qualname.endswith('.__init__') and \
                        'Meta' in g.qualname:
                    # class construction of the very class being defined
                    res.ob('R1', where, inst + ' (metaclass finishing the '
                           'class under construction)', 'ok',
                           nontrivial=False)
                    continue
                if not fresh_ok:
                    res.ob('R1', where, inst, 'VIOLATED')
                    res.finding('R1', '%s|%s|not-fresh' % (g.qualname, hname),
                                where, '%s hands %s a class that is not the '
                                'fresh derivative (%s): the helper writes '
                                'through it' % (g.qualname, hname,
                                                unparse(arg)[:40]))
                    continue
                root, _ = chain(arg)
                missing = []
                for path in need_paths:
                    if not og.rebound_before(c, root, path):
                        missing.append(_path_text(path))
                if missing:
                    res.ob('R1', where, inst, 'VIOLATED')
                    res.finding('R1', '%s|%s|%s' % (g.qualname, hname,
                                                    missing[0]), where,
                                '%s calls %s before rebinding %s.%s to a '
                                'fresh container: the helper then mutates '
                                'the container inherited from the source '
                                'model' % (g.qualname, hname, root,
                                           missing[0]))
                else:
                    res.ob('R1', where, inst + ' after rebinding %s' % [
                        _path_text(x) for x in need_paths], 'ok')
        res.floor('R1', 'call sites of ' + hname, ncs, 1)
    res.floor('R1', 'write sites in derivation functions', total, 60)
    # _s_customize builds fresh Attributes/Annotations and a fresh dict
    sc = prog.module('spyne.model._base').functions['ModelBase._s_customize']
    classes = [n for n in ast.walk(sc.node) if isinstance(n, ast.ClassDef)]
    names = {c.name: [unparse(b) for b in c.bases] for c in classes}
    ok = names.get('Attributes') == ['cls.Attributes'] and \
        names.get('Annotations') == ['cls.Annotations']
    stored = {unparse(n.targets[0]) for n in walk_no_defs(sc.node)
              if isinstance(n, ast.Assign)}
    ok = ok and "cls_dict['Attributes']" in stored and \
        "cls_dict['Annotations']" in stored
    res.ob('R1', sc.where, '_s_customize creates fresh Attributes/Annotations '
           'subclasses and installs them in a fresh class dict', 'ok' if ok
           else 'VIOLATED')
    if not ok:
        res.finding('R1', 'ModelBase._s_customize|fresh-attributes', sc.where,
                    '_s_customize no longer creates and installs fresh '
                    'Attributes/Annotations subclasses: customisations would '
                    'be written onto the source model\'s own record')
    # ComplexModelBase.customize copies the field table
    cc = prog.module('spyne.model.complex').functions[
        'ComplexModelBase.customize']
    copies = [n for n in walk_no_defs(cc.node) if isinstance(n, ast.Assign)
              and unparse(n.targets[0]) == 'retval._type_info']
    ok = len(copies) == 1 and isinstance(copies[0].value, ast.Call) and \
        call_name(copies[0].value) in ('TypeInfo', 'copy', 'deepcopy') and \
        parent(copies[0]) is cc.node
    res.ob('R1', cc.where, 'customize: retval._type_info = %s' % (
        unparse(copies[0].value) if copies else '<missing>'),
        'ok' if ok else 'VIOLATED')
    if not ok:
        res.finding('R1', 'ComplexModelBase.customize|type-info-copy',
                    cc.where, 'customize() must give the derivative its own '
                    'copy of the field table (TypeInfo(cls._type_info)), '
                    'unconditionally')


def rule_r2(prog, res):
    res.rule('R2', 'field evolution reaches the customized variants')
    cm = prog.cls('spyne.model.complex:ComplexModelBase')
    pairs = [('append_field', '_append_field_impl', '_append_to_variants'),
             ('insert_field', '_insert_field_impl', '_insert_to_variants'),
             ('_replace_field', '_replace_field_impl',
              '_replace_in_variants')]
    for api, impl, prop in pairs:
        f = cm.methods.get(api)
        if f is None:
            raise AnalysisError('ComplexModelBase.' + api, 'not found')

        def classify(call, impl=impl, prop=prop):
            nm = call_name(call)
            if nm == impl:
                return ('IMPL',), False
            if nm == prop:
                return ('PROP',), False
            return (), False
        seqs = SeqFlow(classify).run(f.node).get(RETURN, set())
        ok = bool(seqs) and all(q.count('IMPL') == 1 and q.count('PROP') == 1
                                for q in seqs)
        res.ob('R2', f.where, '%s: every path calls %s and %s once (%s)' % (
            api, impl, prop, sorted(seqs)), 'ok' if ok else 'VIOLATED')
        if not ok:
            res.finding('R2', 'ComplexModelBase.%s|must-call' % api, f.where,
                        '%s does not call both %s and %s exactly once on '
                        'every path: a field added afterwards would be '
                        'missing from the class or from its customized '
                        'variants (%s)' % (api, impl, prop, sorted(seqs)))
        pf = cm.methods.get(prop)
        if pf is not None:
            loops = [n for n in walk_no_defs(pf.node) if isinstance(n,
                                                                    ast.For)]
            ok = any('_variants' in unparse(l.iter) for l in loops) and any(
                call_name(c) in (api,) for c in calls_in(pf.node))
            res.ob('R2', pf.where, '%s iterates Attributes._variants and '
                   'calls %s on each' % (prop, api), 'ok' if ok else
                   'VIOLATED')
            if not ok:
                res.finding('R2', 'ComplexModelBase.%s|propagation' % prop,
                            pf.where, '%s no longer applies %s to every '
                            'registered variant' % (prop, api))
    # overrides in table models
    for k in prog.subclasses(cm, strict=True):
        for api, impl, prop in pairs:
            f = k.methods.get(api)
            if f is None:
                continue
            names = {call_name(c) for c in calls_in(f.node)}
            ok = (impl in names and prop in names) or api in names or \
                'super' in names
            res.ob('R2', f.where, '%s.%s override keeps propagation' % (
                k.name, api), 'ok' if ok else 'VIOLATED')
            if not ok:
                res.finding('R2', '%s.%s|override' % (k.name, api), f.where,
                            'override of %s calls neither the base '
                            'implementation nor %s+%s' % (api, impl, prop))
    # customize registers the variant
    cc = cm.methods['customize']
    ok = any(call_name(c) == '_process_variants' for c in calls_in(cc.node))
    if not ok:
        # the registration may be written out in customize() itself
        ok = any(isinstance(a_, ast.Assign) and any(
            isinstance(t, ast.Subscript) and unparse(t.value).endswith(
                'Attributes._variants') for t in a_.targets)
            for a_ in walk_no_defs(cc.node))
    res.ob('R2', cc.where, 'customize registers the derivative through '
           '_process_variants', 'ok' if ok else 'VIOLATED')
    if not ok:
        res.finding('R2', 'ComplexModelBase.customize|no-variant-registration',
                    cc.where, 'customize() does not register the new class as '
                    'a variant, so fields appended later never reach it')
    pv = cm.methods.get('_process_variants')
    if pv is not None:
        t = unparse(pv.node)
        ok = '_variants[retval] = True' in t and 'WeakKeyDictionary' in t
        res.ob('R2', pv.where, '_process_variants records retval in '
               'orig.Attributes._variants', 'ok' if ok else 'VIOLATED')
        if not ok:
            res.finding('R2', 'ComplexModelBase._process_variants|record',
                        pv.where, 'the variant is not recorded in the root '
                        'class\'s _variants registry')
    # _append_field_impl applies delayed child attrs from the class's OWN
    # dicts and clears the memo of flattened type info completely
    for nm in ('_append_field_impl', '_insert_field_impl',
               '_replace_field_impl'):
        f = cm.methods.get(nm)
        clears = [c for c in calls_in(f.node) if call_name(c) == 'clear' and
                  'get_flat_type_info.memo' in unparse(c.func)]
        ok = len(clears) == 1
        res.ob('R2', f.where, '%s clears the whole get_flat_type_info memo' %
               nm, 'ok' if ok else 'VIOLATED')
        if not ok:
            res.finding('R2', 'ComplexModelBase.%s|memo' % nm, f.where,
                        '%s must clear the whole get_flat_type_info memo: '
                        'subclasses whose flattened fields were cached '
                        'earlier keep a stale view otherwise' % nm)


def rule_r3(prog, res, tier):
    res.rule('R3', 'nothing unordered feeds field order')
    mods = ['spyne.model.complex', 'spyne.model._base', 'spyne.util.odict',
            'spyne.util.meta']
    n_funcs = 0
    n_iter = 0
    for mn in mods:
        m = prog.module(mn, required=False)
        if m is None:
            continue
        for f in m.functions.values():
            n_funcs += 1
            cattrs = set()
            if f.cls is not None:
                cattrs = class_set_attributes(f.cls.node)
            names = set_typed_names(f.node, cattrs)
            for node, it, sinks in unordered_iterations(f.node, names,
                                                        cattrs):
                n_iter += 1
                where = '%s:%d' % (m.relpath, getattr(node, 'lineno', it.lineno))
                res.ob('R3', where, '%s iterates the set %s into %s' % (
                    f.qualname, unparse(it)[:40], sinks), 'VIOLATED')
                res.finding('R3', '%s|set-iteration|%s' % (f.qualname,
                                                           unparse(it)[:40]),
                            where, '%s iterates over the set %s and the '
                            'iteration order reaches %s: field order becomes '
                            'hash-seed dependent' % (f.qualname,
                                                     unparse(it)[:50],
                                                     ', '.join(sinks)))
    res.ob('R3', 'spyne/model/**', '%d functions scanned for set iteration '
           'into order-sensitive sinks (%d found)' % (n_funcs, n_iter),
           'ok' if not n_iter else 'VIOLATED')
    res.floor('R3', 'functions scanned', n_funcs, 150)
    # ordered namespace and containers
    cm = prog.module('spyne.model.complex')
    ti = cm.classes.get('TypeInfo')
    if ti is None:
        raise AnalysisError('spyne.model.complex:TypeInfo', 'not found')
    bases = [unparse(b) for b in ti.node.bases]
    ok = bases == ['odict']
    res.ob('R3', ti.where, 'TypeInfo derives from %s' % bases,
           'ok' if ok else 'VIOLATED')
    if not ok:
        res.finding('R3', 'TypeInfo|bases|%s' % bases, ti.where,
                    'TypeInfo must be an ordered dict (odict); found %s' %
                    bases)
    prep = [f for f in prog.all_functions() if f.name == '__prepare__' and
            f.module.name.startswith('spyne.')]
    res.floor('R3', '__prepare__ implementations', len(prep), 1)
    for f in prep:
        rets = [r for r in walk_no_defs(f.node) if isinstance(r, ast.Return)]
        ok = bool(rets) and all(isinstance(r.value, ast.Call) and call_name(
            r.value) in ('odict', 'OrderedDict') for r in rets)
        res.ob('R3', f.where, '%s returns %s' % (f.qualname, [
            unparse(r.value) for r in rets]), 'ok' if ok else 'VIOLATED')
        if not ok:
            res.finding('R3', '%s|ordered' % f.qualname, f.where,
                        'the class namespace is no longer an ordered mapping: '
                        '%s' % [unparse(r.value) for r in rets])
    # the order block of ComplexModelMeta.__init__: declaration-order lists
    init = cm.functions.get('ComplexModelMeta.__init__')
    if init is not None:
        ins = [c for c in calls_in(init.node) if call_name(c) == 'insert' and
               'new_type_info' in unparse(c.func)]
        for c in ins:
            lp = None
            for a in ancestors(c):
                if isinstance(a, ast.For):
                    lp = a
                    break
            it = unparse(lp.iter) if lp is not None else '?'
            ok = it in ('self._type_info.items()', 'type_info.items()')
            res.ob('R3', '%s:%d' % (cm.relpath, c.lineno),
                   'ComplexModelMeta.__init__: order= fields are inserted '
                   'while iterating %s' % it, 'ok' if ok else 'VIOLATED')
            if not ok:
                res.finding('R3', 'ComplexModelMeta.__init__|order-source|%s'
                            % it, '%s:%d' % (cm.relpath, c.lineno),
                            'fields with order= are inserted while iterating '
                            '%s, not the declaration-ordered _type_info' % it)


# ------------------------------------------------------------------- R4
def _nested_literal(v):
    if isinstance(v, (ast.Tuple, ast.List)):
        return any(isinstance(e, (ast.Tuple, ast.List, ast.Dict, ast.Set))
                   for e in v.elts)
    if isinstance(v, ast.Dict):
        return any(isinstance(e, (ast.Tuple, ast.List, ast.Dict, ast.Set))
                   for e in v.values)
    return False


def rule_r4(prog, res):
    res.rule('R4', 'container attributes inherited by a derived class are '
             'copied to the depth of their nesting')
    c = prog.cls('spyne.model._base:ModelBase')
    f = c.methods.get('_s_customize')
    if f is None:
        raise AnalysisError('ModelBase._s_customize', 'not found')
    lits = {}
    inherits = []
    for a in walk_no_defs(f.node):
        if not (isinstance(a, ast.Assign) and len(a.targets) == 1 and
                isinstance(a.targets[0], ast.Attribute) and
                unparse(a.targets[0].value) == 'Attributes'):
            continue
        attr = a.targets[0].attr
        if isinstance(a.value, (ast.Tuple, ast.List, ast.Dict, ast.Set)):
            lits[attr] = a.value
        elif ('cls.Attributes.%s' % attr) in unparse(a.value):
            inherits.append((attr, a))
    n = 0
    for attr, a in inherits:
        n += 1
        nested = attr in lits and _nested_literal(lits[attr])
        v = a.value
        how = call_name(v) if isinstance(v, ast.Call) else 'alias'
        ok = how == 'deepcopy' or (not nested and how in (
            'copy', 'dict', 'list', 'set', 'odict', 'tuple'))
        where = '%s:%d' % (f.module.relpath, a.lineno)
        res.ob('R4', where, '_s_customize: Attributes.%s = %s (%s '
               'container per its literal default %s)' % (
                   attr, unparse(v)[:50], 'nested' if nested else 'flat',
                   unparse(lits[attr]) if attr in lits else '?'),
               'ok' if ok else 'VIOLATED', nontrivial=True)
        if not ok:
            res.finding('R4', 'ModelBase._s_customize|%s|%s' % (attr, how),
                        where, 'the derived class takes Attributes.%s from '
                        'its parent through %s, but the value is a nested '
                        'container (%s): the inner containers stay shared, '
                        'so customising one variant (e.g. adding a column '
                        'argument) changes the type it was derived from and '
                        'every sibling' % (attr, how, unparse(lits[attr])
                                           if attr in lits else '?'))
    res.floor('R4', 'inherited container attributes in _s_customize', n, 1)


# ------------------------------------------------------------------- R5
def rule_r5(prog, res):
    res.rule('R5', 'child attribute policies are pushed to the parent '
             'whenever there is a parent')
    m = prog.module('spyne.model.complex')
    f = m.functions.get('_process_child_attrs')
    if f is None:
        raise AnalysisError('_process_child_attrs', 'not found')
    n = 0
    for a in walk_no_defs(f.node):
        if isinstance(a, ast.Assign) and len(a.targets) == 1 and \
                unparse(a.targets[0]).endswith('.__extends__') and \
                isinstance(a.value, ast.Call) and \
                call_name(a.value) == 'customize':
            n += 1
            guardspec.check(res, 'R5', f, a, 're-customisation of the parent '
                            '(%s)' % unparse(a.value.keywords[0])[:30]
                            if a.value.keywords else 'parent customisation',
                            allowed=[('child_attrs is None', False),
                                     ('child_attrs_all is None', False),
                                     ('retval.__extends__ is None', False)],
                            key='_process_child_attrs|parent|%s' % (
                                a.value.keywords[0].arg
                                if a.value.keywords else '?'))
    res.floor('R5', 'parent re-customisation sites', n, 2)


# ------------------------------------------------------------------- R6
def rule_r6(prog, res):
    res.rule('R6', 'derivation helpers always derive: they never hand back '
             'the class they were given')
    m = prog.module('spyne.model.complex')
    n = 0
    for nm in ('Mandatory',):
        f = m.functions.get(nm)
        if f is None:
            raise AnalysisError('spyne.model.complex.' + nm, 'not found')
        src = f.params()[0]
        for r in walk_no_defs(f.node):
            if not isinstance(r, ast.Return):
                continue
            n += 1
            same = isinstance(r.value, ast.Name) and r.value.id == src
            where = '%s:%d' % (m.relpath, r.lineno)
            res.ob('R6', where, '%s returns %s' % (nm, unparse(
                r.value)[:50] if r.value is not None else 'None'),
                'VIOLATED' if same else 'ok')
            if same:
                g = [unparse(e)[:40] for e, _ in flatten_guards(
                    guards_at(r, stop=f.node))]
                res.finding('R6', '%s|returns-argument|%s' % (nm, g), where,
                            '%s returns its argument unchanged under %s: the '
                            'result is the very class that was passed in, so '
                            'the special cases of the derivation (min_len '
                            'for text, mandatory array members, the '
                            'Mandatory* type name) are skipped and later '
                            'customisation of the result changes the '
                            'source' % (nm, g))
    res.floor('R6', 'returns of the derivation helpers', n, 1)


def rule_r7(prog, res):
    from . import c05, c16
    res.share('R7', 'a facet removed by derivation is gone (C05-R11); '
              'derivation does not touch the parent\'s subclass registry '
              '(C16-R9)', 'C05', c05.rule_r11, prog, Result)
    res.share('R7', 'a facet removed by derivation is gone (C05-R11); '
              'derivation does not touch the parent\'s subclass registry '
              '(C16-R9)', 'C16', c16.rule_r9, prog, Result)
    res.share('R7', 'a facet removed by derivation is gone (C05-R11); '
              'derivation does not touch the parent\'s subclass registry '
              '(C16-R9)', 'C16', c16.rule_r1, prog, Result)


# ------------------------------------------------------------------- R8
def rule_r8(prog, res):
    res.rule('R8', 'field evolution applies the blanket policy before the '
             'per-field policy in every sibling; a non-wrapped Array keeps '
             'the bound its member type declares')
    cm = prog.cls('spyne.model.complex:ComplexModelBase')
    n = 0
    for nm in ('_append_field_impl', '_insert_field_impl'):
        f = cm.methods.get(nm)
        if f is None:
            continue
        blanket = [c.lineno for c in calls_in(f.node) if call_name(c) ==
                   'customize' and any(k.arg is None and 'dcaa' in unparse(
                       k.value) or k.arg is None and 'child_attrs_all' in
                       unparse(k.value) for k in c.keywords)]
        single = [c.lineno for c in calls_in(f.node) if call_name(c) ==
                  'customize' and any(k.arg is None and (
                      'd_cust' in unparse(k.value) or "dca" == unparse(
                          k.value)) for k in c.keywords)]
        if not blanket or not single:
            continue
        n += 1
        ok = max(blanket) < min(single)
        res.ob('R8', f.where, '%s: child_attrs_all applied at line %s, '
               'child_attrs at line %s' % (nm, blanket, single),
               'ok' if ok else 'VIOLATED')
        if not ok:
            res.finding('R8', 'ComplexModelBase.%s|policy-order' % nm,
                        f.where, '%s applies the per-field child_attrs '
                        'before child_attrs_all, so the blanket policy wins: '
                        'customize() and the sibling implementation let the '
                        'per-field entry win, hence a variant carries '
                        'different constraints depending on how the field '
                        'was added' % nm)
    res.floor('R8', 'field implementations applying both policies', n, 2)
    arr = prog.cls('spyne.model.complex:Array')
    f = arr.methods.get('__new__')
    k = 0
    for a in walk_no_defs(f.node):
        st = a if isinstance(a, ast.Assign) else (
            a if isinstance(a, ast.Expr) else None)
        if st is None:
            continue
        txt = unparse(st)
        if "'max_occurs'" in txt and 'unbounded' in txt:
            k += 1
            guardspec.check(res, 'R8', f, st, 'the default bound of a '
                            'non-wrapped array (%s)' % txt[:40],
                            allowed=[('wrapped', False)],
                            required=[('serializer.Attributes.max_occurs == 1',
                                       True)],
                            key='Array.__new__|unbounded-default')
    res.floor('R8', 'default bound of non-wrapped arrays', k, 1)


# ------------------------------------------------------------------- R9
def rule_r9(prog, res):
    res.rule('R9', 'fields prepended one by one are taken in reverse; a '
             'derived binary type gets the type name of the encoding it was '
             'asked for; per-class caches are keyed by the class they were '
             'computed for')
    # (a) insert(0, x) in a loop reverses unless the source is reversed
    n = 0
    for mod in prog.modules.values():
        if not mod.relpath.startswith('spyne/model/'):
            continue
        for f in mod.functions.values():
            for loop in walk_no_defs(f.node):
                if not isinstance(loop, ast.For):
                    continue
                ins = [c for st in loop.body for c in ast.walk(st)
                       if isinstance(c, ast.Call) and call_name(c) == 'insert'
                       and len(c.args) == 2 and isinstance(
                           c.args[0], ast.Constant) and c.args[0].value == 0
                       and any(isinstance(x, ast.Name) and x.id in {
                           y.id for y in ast.walk(loop.target)
                           if isinstance(y, ast.Name)}
                           for x in ast.walk(c.args[1]))]
                if not ins:
                    continue
                n += 1
                it = loop.iter
                rev = isinstance(it, ast.Call) and call_name(it) == 'reversed'
                where = '%s:%d' % (mod.relpath, loop.lineno)
                res.ob('R9', where, '%s prepends the items of %s one by one' %
                       (f.qualname, unparse(it)[:40]),
                       'ok' if rev else 'VIOLATED')
                if not rev:
                    res.finding('R9', '%s|prepend-reverses' % f.qualname,
                                where, '%s inserts every item of %s at index '
                                '0 without reversing the source: the fields '
                                'end up in reverse declaration order, in the '
                                'class, its flat type info, every variant '
                                'and the schema' % (f.qualname,
                                                    unparse(it)[:40]))
    res.floor('R9', 'prepend loops in the model layer', n, 1)
    # (b) ByteArray.__new__: encoding and type name go together
    b = prog.cls('spyne.model.binary:ByteArray')
    f = b.methods.get('__new__')
    k = 0
    for a in walk_no_defs(f.node):
        if isinstance(a, ast.Assign) and any(
                isinstance(t, ast.Attribute) and t.attr == '__type_name__'
                for t in a.targets):
            k += 1
            guardspec.check(res, 'R9', f, a, 'the type name of the derived '
                            'binary type', allowed=[],
                            required=[('%s is None' % unparse(a.value),
                                       False)],
                            key='ByteArray.__new__|type-name')
    res.floor('R9', 'type name stores in ByteArray.__new__', k, 1)
    # (c) cache keys
    pm = prog.cls('spyne.protocol._base:ProtocolMixin')
    m = 0
    for nm, cache in (('sort_fields', '_sortcache'),
                      ('get_cls_attrs', '_attrcache')):
        g = pm.methods.get(nm)
        if g is None:
            continue
        clsparam = [p_ for p_ in g.params() if p_ != 'self'][0]
        keys = []
        for x in walk_no_defs(g.node):
            if isinstance(x, ast.Subscript) and unparse(x.value) == \
                    'self.' + cache:
                keys.append((x, x.slice))
            if isinstance(x, ast.Call) and isinstance(
                    x.func, ast.Attribute) and unparse(x.func.value) == \
                    'self.' + cache and x.func.attr in ('get', 'setdefault',
                                                        'pop') and x.args:
                keys.append((x, x.args[0]))
        for x, kexpr in keys:
            m += 1
            ok = unparse(kexpr) == clsparam
            where = '%s:%d' % (g.module.relpath, x.lineno)
            res.ob('R9', where, '%s: self.%s keyed by %s' % (
                nm, cache, unparse(kexpr)), 'ok' if ok else 'VIOLATED')
            if not ok:
                res.finding('R9', 'ProtocolMixin.%s|cache-key|%s' % (
                    nm, unparse(kexpr)[:30]), where, 'self.%s is keyed by %s '
                    'instead of the class itself: a class and its customized '
                    'variants (different child_attrs: exc, order, sub_name) '
                    'share one entry, so whichever is serialised first '
                    'decides the fields of the others' % (
                        cache, unparse(kexpr)))
    res.floor('R9', 'cache accesses', m, 4)


# ------------------------------------------------------------------ R10
def rule_r10(prog, res):
    res.rule('R10', 'every class owns its variant registry; propagation walks '
             'a snapshot of it; Mandatory() only tightens; a customization '
             'that does not ask for digits keeps the parent\'s length cap')
    meta = prog.cls('spyne.model.complex:ComplexModelMeta')
    f = meta.methods.get('__init__')
    st = [a for a in walk_no_defs(f.node) if isinstance(a, ast.Assign) and any(
        unparse(t).endswith('Attributes._variants') for t in a.targets) and
        isinstance(a.value, ast.Constant) and a.value.value is None]
    ok = False
    for a in st:
        atoms = guardspec.atoms_at(a, f.node)
        if all('__orig__' in t for t, _ in atoms):
            ok = True
    res.ob('R10', f.where, 'ComplexModelMeta.__init__ %s' % (
        'gives every non-variant class its own _variants slot' if ok else
        'leaves _variants to attribute lookup (shared with the parent)'),
        'ok' if ok else 'VIOLATED')
    if not ok:
        res.finding('R10', 'ComplexModelMeta.__init__|shared-variant-registry',
                    f.where, 'a subclass finds its parent\'s _variants through '
                    'attribute lookup (Sub.Attributes extends Base.Attributes) '
                    'and the metaclass does not reset it: Sub.append_field() '
                    'reaches the variants of Base, and Base.append_field() '
                    'writes into the own field table of the variants of Sub')
    cm = prog.cls('spyne.model.complex:ComplexModelBase')
    n = 0
    for nm, g in sorted(cm.methods.items()):
        for loop in walk_no_defs(g.node):
            if not isinstance(loop, ast.For):
                continue

            def is_snap(e):
                return (isinstance(e, ast.Call) and call_name(e) in (
                    'list', 'tuple', 'copy')) or (isinstance(
                        e, (ast.Tuple, ast.List)) and not e.elts)

            def reads_registry(node):
                return any(isinstance(x, ast.Attribute) and
                           x.attr == '_variants' for x in ast.walk(node))
            it = loop.iter
            walk = reads_registry(it)
            snap = is_snap(it)
            if not walk and isinstance(it, ast.Call) and isinstance(
                    it.func, ast.Attribute) and isinstance(
                    it.func.value, ast.Name) and it.func.value.id in (
                    'cls', 'self') and not it.args and not it.keywords:
                # a helper of the class that hands the registry out
                h = prog.find_method(cm, it.func.attr)
                if h is not None and reads_registry(h.node):
                    walk = True
                    rets = [r for r in walk_no_defs(h.node)
                            if isinstance(r, ast.Return)]
                    snap = bool(rets) and all(
                        r.value is not None and is_snap(r.value)
                        for r in rets)
            if walk:
                n += 1
                where = '%s:%d' % (g.module.relpath, loop.lineno)
                res.ob('R10', where, '%s iterates %s' % (nm, unparse(it)[:50]),
                       'ok' if snap else 'VIOLATED')
                if not snap:
                    res.finding('R10', 'ComplexModelBase.%s|live-registry' % nm,
                                where, '%s iterates the live variant '
                                'registry; customizing the field type for a '
                                'variant (child_attrs_all) registers a new '
                                'variant meanwhile: RuntimeError after some '
                                'variants got the field and others did not' %
                                nm)
    res.floor('R10', 'walks over the variant registry', n, 3)
    m = prog.module('spyne.model.complex')
    mf = m.functions.get('Mandatory')
    ups = [c for c in calls_in(mf.node) if call_name(c) == 'update' and
           'min_len' in unparse(c)] + [
        a for a in walk_no_defs(mf.node) if isinstance(a, ast.Assign) and
        "'min_len'" in unparse(a.targets[0])]
    res.floor('R10', 'min_len updates in Mandatory', len(ups), 1)
    for u in ups:
        stm = u
        while not isinstance(stm, ast.stmt):
            stm = stm._parent
        atoms = guardspec.atoms_at(stm, mf.node)
        explicit = any("'min_len'" in t and 'kwargs' in t for t, _ in atoms)
        stricter = any('Attributes.min_len' in t for t, _ in atoms)
        ok = explicit and stricter
        where = '%s:%d' % (m.relpath, stm.lineno)
        res.ob('R10', where, 'Mandatory sets min_len=1 under %s' % [
            t for t, _ in atoms], 'ok' if ok else 'VIOLATED')
        if not ok:
            res.finding('R10', 'Mandatory|min-len-loosened', where,
                        'Mandatory() sets min_len=1 without looking at an '
                        'explicit min_len argument or at the bound the type '
                        'already has: Mandatory(Unicode(min_len=3)) accepts '
                        '"ab", which its parent refuses')
    d = prog.cls('spyne.model.primitive.number:Decimal')
    sc = d.methods.get('_s_customize')
    n2 = 0
    for a in walk_no_defs(sc.node):
        if isinstance(a, ast.Assign) and any(
                "'max_str_len'" in unparse(t) for t in a.targets) and \
                isinstance(a.value, ast.BinOp):
            n2 += 1
            src = unparse(a.value)
            ok = 'cls.Attributes.total_digits' not in src
            where = '%s:%d' % (sc.module.relpath, a.lineno)
            res.ob('R10', where, 'Decimal._s_customize derives max_str_len '
                   'from %s' % src, 'ok' if ok else 'VIOLATED')
            if not ok:
                res.finding('R10', 'Decimal._s_customize|cap-from-parent-'
                            'digits', where, 'max_str_len is recomputed from '
                            'the parent\'s total_digits on every '
                            'customization: Integer32(min_occurs=1) and '
                            'Decimal(max_str_len=10)(nillable=False) lose '
                            'their cap (infinite), and Decimal(5, 2) gets its '
                            'cap one customization late')
    res.floor('R10', 'derived length caps', n2, 1)


def rule_r11(prog, res):
    res.rule('R11', 'every customised variant is recorded with its original, '
             'whichever class it was customised from (a variant of a '
             'variant included)')
    c = prog.cls('spyne.model.complex:ComplexModelBase')
    n = 0
    for f in c.methods.values():
        if f.cls is not c:
            continue
        regs = [a for a in walk_no_defs(f.node) if isinstance(a, ast.Assign)
                and any(isinstance(t, ast.Subscript) and '_variants' in
                        unparse(t.value) for t in a.targets) and
                isinstance(a.value, ast.Constant) and a.value.value is True]
        for a in regs:
            n += 1
            # the original of the registered class, by whatever local name
            import re as _re
            got = []
            for t, pol in guardspec.atoms_at(a, f.node):
                t = _re.sub(r"getattr\(\w+, '__orig__', None\)", 'orig', t)
                t = _re.sub(r"\b\w+\.__orig__\b", 'orig', t)
                got.append((t, pol))
            allowed = {('orig is None', False), ('cls is ComplexModel', False)}
            extra = [g_ for g_ in got if g_ not in allowed]
            missing = ('orig is None', False) not in got
            where = '%s:%d' % (f.module.relpath, a.lineno)
            res.ob('R11', where, '%s registers a variant with its original '
                   'under %s' % (f.qualname, got),
                   'VIOLATED' if extra or missing else 'ok')
            for t, pol in extra:
                res.finding('R11', '_process_variants|registration|extra-'
                            'guard|%s%s' % ('' if pol else 'not ', t), where,
                            'the registration of a variant with its original '
                            'in %s is now conditional on "%s%s": a variant '
                            'customised from another variant (Array(X.'
                            'customize(...)), Mandatory(X)) is not recorded, '
                            'so fields added to the original later never '
                            'reach it' % (f.qualname, '' if pol else 'not ',
                                          t))
            if missing:
                res.finding('R11', '_process_variants|registration|missing-'
                            'guard', where, 'the registration in %s is no '
                            'longer protected by the test that the class has '
                            'an original' % f.qualname)
    res.floor('R11', 'registrations of variants with their original', n, 1)


def rule_r12(prog, res):
    from . import c12
    from ..report import Result
    res.share('R12', 'the memoizer behind get_flat_type_info keeps what it '
              'caches in self.memo, the dict append_field/insert_field/'
              'customize clear (C12-R10)', 'C12', c12.rule_r10, prog, Result)
    res.rule('R12', 'Mandatory() decides about the items of an array from '
             'the item type\'s own occurrence bound')
    m = prog.module('spyne.model.complex')
    f = m.functions.get('Mandatory')
    if f is None:
        raise AnalysisError('Mandatory', 'not found')
    n = 0
    for a in walk_no_defs(f.node):
        if not (isinstance(a, ast.Assign) and isinstance(
                a.targets[0], ast.Subscript) and '_type_info' in unparse(
                    a.targets[0].value) and isinstance(a.value, ast.Call) and
                call_name(a.value) == 'Mandatory' and a.value.args):
            continue
        n += 1
        item = unparse(a.value.args[0])
        atoms = guardspec.atoms_at(a, f.node)
        occ = [t for t, pol in atoms if 'min_occurs' in t]
        ok = bool(occ) and all(t.startswith(item + '.') for t in occ)
        where = '%s:%d' % (m.relpath, a.lineno)
        res.ob('R12', where, 'Mandatory() re-derives the item type %s under '
               '%s' % (item, occ), 'ok' if ok else 'VIOLATED')
        if not ok:
            res.finding('R12', 'Mandatory|item-bound-read-from-wrapper',
                        where, 'the item type %s is made mandatory under %s, '
                        'which is not its own bound: Mandatory(Array(T, '
                        'min_occurs=1)) leaves the items optional, and '
                        'Array(T.customize(min_occurs=2)) gets its items '
                        're-derived with min_occurs=1' % (item, occ))
    res.floor('R12', 'item re-derivations in Mandatory', n, 1)



class _LenToName(ast.NodeTransformer):
    """len(<expr containing key>) -> Name(var)"""
    def __init__(self, table):
        self.table = table

    def visit_Call(self, node):
        if isinstance(node.func, ast.Name) and node.func.id == 'len' and \
                node.args:
            t = unparse(node.args[0])
            for key, var in self.table:
                if key in t:
                    return ast.copy_location(ast.Name(id=var, ctx=ast.Load()),
                                             node)
        return self.generic_visit(node)


def rule_r13(prog, res):
    res.rule('R13', 'a customized SelfReference is replaced by the class '
             'customized the same way as soon as one argument or one keyword '
             'was recorded; the list of descendants is transitive')
    import copy
    from ..constfold import try_fold
    m = prog.module('spyne.model.complex')
    f = m.functions.get('recust_selfref')
    if f is None:
        raise AnalysisError('recust_selfref', 'not found')
    n = 0
    for i in walk_no_defs(f.node):
        if not (isinstance(i, ast.If) and 'customize_kwargs' in unparse(
                i.test) and any(call_name(c) == 'customize'
                                for st in i.body for c in calls_in(st))):
            continue
        n += 1
        e2 = _LenToName([('customize_args', '__a'),
                         ('customize_kwargs', '__k')]).visit(
            copy.deepcopy(i.test))
        verdicts = {}
        for a_, k_ in ((0, 0), (1, 0), (0, 1), (2, 3)):
            known, v = try_fold(prog, m, e2, {'__a': a_, '__k': k_})
            verdicts[(a_, k_)] = bool(v) if known else None
        where = '%s:%d' % (m.relpath, i.lineno)
        if None in verdicts.values():
            res.ob('R13', where, 'recust_selfref test %s' % unparse(i.test),
                   'unclassified')
            res.unclass('R13', where, 'customization test ' + unparse(i.test))
            continue
        ok = verdicts == {(0, 0): False, (1, 0): True, (0, 1): True,
                          (2, 3): True}
        res.ob('R13', where, 'recust_selfref customizes for (args, kwargs) '
               'counts %s' % sorted(k_ for k_, v in verdicts.items() if v),
               'ok' if ok else 'VIOLATED')
        if not ok:
            res.finding('R13', 'recust_selfref|single-customization-dropped',
                        where, 'the placeholder is replaced by the bare class '
                        'for some recorded customization (test "%s"): '
                        'SelfReference.customize(min_occurs=1) yields a field '
                        'type without the requested constraint' %
                        unparse(i.test))
    res.floor('R13', 'customization tests in recust_selfref', n, 1)
    cm = prog.cls('spyne.model.complex:ComplexModelBase')
    g = cm.methods.get('get_subclasses')
    if g is None:
        raise AnalysisError('ComplexModelBase.get_subclasses', 'not found')
    k = 0
    for lp in walk_no_defs(g.node):
        if not isinstance(lp, ast.For):
            continue
        for c in calls_in(lp):
            if call_name(c) != 'get_subclasses':
                continue
            k += 1
            st = c
            while not isinstance(st, ast.stmt):
                st = parent(st)
            gs = flatten_guards(guards_at(st, stop=lp))
            where = '%s:%d' % (g.module.relpath, c.lineno)
            res.ob('R13', where, 'get_subclasses recurses into every child' if
                   not gs else 'get_subclasses recurses only when %s' % [
                       unparse(e) for e, _ in gs], 'VIOLATED' if gs else 'ok')
            if gs:
                res.finding('R13', 'ComplexModelBase.get_subclasses|recursion-'
                            'conditional', where, 'the descendants of a child '
                            'are collected only when "%s%s": grandchildren '
                            'are missing from the registry the polymorphic '
                            'readers look a wrapper key up in' % (
                                '' if gs[0][1] else 'not ',
                                unparse(gs[0][0])))
    res.floor('R13', 'recursive collection in get_subclasses', k, 1)


def run(prog, res, tier):
    res.run_rule(rule_r1, prog, res)
    res.run_rule(rule_r2, prog, res)
    res.run_rule(rule_r3, prog, res, tier)
    res.run_rule(rule_r4, prog, res)
    res.run_rule(rule_r5, prog, res)
    res.run_rule(rule_r6, prog, res)
    res.run_rule(rule_r7, prog, res)
    res.run_rule(rule_r8, prog, res)
    res.run_rule(rule_r9, prog, res)
    res.run_rule(rule_r10, prog, res)
    res.run_rule(rule_r11, prog, res)
    res.run_rule(rule_r12, prog, res)
    res.run_rule(rule_r13, prog, res)


_C = 'spyne/model/complex.py'
_B = 'spyne/model/_base.py'

MUTANTS = [
    Mutant('selfref-single-keyword-dropped', 'R13', 'fire',
           'spyne/model/complex.py',
           in_func('recust_selfref', "len(selfref.customize_kwargs) > 0:",
                   "len(selfref.customize_kwargs) > 1:"),
           'single-customization-dropped'),
    Mutant('subclasses-recursion-behind-dedupe', 'R13', 'fire',
           'spyne/model/complex.py',
           in_func('ComplexModelBase.get_subclasses',
                   "            for subc in subca:\n",
                   "            for subc in subca:\n"
                   "                if subc in retval:\n"
                   "                    continue\n"),
           'recursion-conditional'),
    Mutant('mandatory-reads-wrapper-bound', 'R12', 'fire', _C,
           in_func('Mandatory', "if v.Attributes.min_occurs == 0:",
                   "if cls.Attributes.min_occurs == 0:"),
           'item-bound-read-from-wrapper'),
    Mutant('variants-of-variants-unregistered', 'R11', 'fire', _C,
           in_func('ComplexModelBase._process_variants',
                   "        if orig is not None:\n",
                   "        if orig is cls:\n"), 'registration'),
    Mutant('variant-registry-shared-with-parent', 'R10', 'fire', _C,
           in_func('ComplexModelMeta.__init__',
                   "        if self.__orig__ is None:\n            "
                   "self.Attributes._variants = None\n", ""),
           'shared-variant-registry'),
    Mutant('variants-walked-live', 'R10', 'fire', _C,
           in_func('ComplexModelBase._append_to_variants',
                   "for c in list(cls.Attributes._variants):",
                   "for c in cls.Attributes._variants:"), 'live-registry'),
    Mutant('mandatory-forces-min-len', 'R10', 'fire', _C,
           in_func('Mandatory',
                   "    if issubclass(cls, Unicode) and 'min_len' not in "
                   "kwargs \\\n                                             "
                   "and cls.Attributes.min_len < 1:",
                   "    if issubclass(cls, Unicode):"), 'min-len-loosened'),
    Mutant('cap-from-parent-digits', 'R10', 'fire',
           'spyne/model/primitive/number.py',
           in_func('Decimal._s_customize',
                   "kwargs['max_str_len'] = td + 3",
                   "kwargs['max_str_len'] = cls.Attributes.total_digits + 3"),
           'cap-from-parent-digits'),
    Mutant('mixin-fields-prepended-unreversed', 'R9', 'fire', _C,
           in_func('_get_type_info',
                   "for k, v in reversed(mixin.items()):",
                   "for k, v in mixin.items():"), 'prepend-reverses'),
    Mutant('binary-type-name-only-when-new', 'R9', 'fire',
           'spyne/model/binary.py',
           in_func('ByteArray.__new__', "        if tn is not None:\n",
                   "        if tn is not None and tn != ByteArray."
                   "__type_name__:\n"), 'extra-guard'),
    Mutant('sort-cache-keyed-by-original', 'R9', 'fire',
           'spyne/protocol/_base.py',
           in_func('ProtocolMixin.sort_fields',
                   "retval = self._sortcache.get(cls, None)",
                   "retval = self._sortcache.get(cls.__orig__ or cls, None)"),
           'cache-key'),
    Mutant('insert-field-policy-order', 'R8', 'fire', _C,
           in_func('ComplexModelBase._insert_field_impl',
                   r"(        dcaa = cls\.Attributes\._delayed_child_attrs_all"
                   r"\n        if dcaa is not None:\n            field_type = "
                   r"field_type\.customize\(\*\*dcaa\)\n\n)(.*?)"
                   r"(        cls\._type_info\.insert)",
                   lambda m_: m_.group(2) + m_.group(1) + m_.group(3),
                   regex=True), 'policy-order'),
    Mutant('array-bound-overridden', 'R8', 'fire', _C,
           in_func('Array.__new__',
                   "            if serializer.Attributes.max_occurs == 1:\n"
                   "                kwargs['max_occurs'] = 'unbounded'\n",
                   "            kwargs.setdefault('max_occurs', 'unbounded')"
                   "\n"), 'missing-guard'),
    Mutant('mandatory-fast-path', 'R6', 'fire', _C,
           in_func('Mandatory', "    kwargs = dict(min_occurs=1, "
                   "nillable=False)\n",
                   "    if cls.Attributes.min_occurs >= 1 and not "
                   "cls.Attributes.nillable:\n        return cls\n"
                   "    kwargs = dict(min_occurs=1, nillable=False)\n"),
           'returns-argument'),
    Mutant('column-args-shallow-copy', 'R4', 'fire', _B,
           in_func('ModelBase._s_customize',
                   r"deepcopy\(\s*cls\.Attributes\.sqla_column_args\)",
                   "tuple(cls.Attributes.sqla_column_args)", regex=True),
           'sqla_column_args'),
    Mutant('parent-recustomized-only-for-known-keys', 'R5', 'fire', _C,
           in_func('_process_child_attrs',
                   r"(            retval\.__extends__ = retval\.__extends__\."
                   r"customize\(\s*child_attrs=child_attrs\))",
                   lambda m_: "            if len(child_attrs) > 0:\n    " +
                   m_.group(1).replace("\n", "\n    "), regex=True),
           'extra-guard'),
    Mutant('mandatory-mutates-source', 'R1', 'fire', _C,
           in_func('Mandatory',
                   r"    retval = cls\.customize\(\*\*kwargs\)\n\n"
                   r"    if issubclass\(cls, Array\) and not issubclass\(cls, "
                   r"Unicode\):\n        \(k,v\), = retval\._type_info\.items"
                   r"\(\)\n        if v\.Attributes\.min_occurs == 0:\n"
                   r"            retval\._type_info\[k\] = Mandatory\(v\)\n\n"
                   r"    return retval",
                   "    if issubclass(cls, Array) and not issubclass(cls, "
                   "Unicode):\n        (k,v), = cls._type_info.items()\n"
                   "        if v.Attributes.min_occurs == 0:\n"
                   "            cls._type_info[k] = Mandatory(v)\n\n"
                   "    return cls.customize(**kwargs)", regex=True),
           'Mandatory'),
    Mutant('type-info-not-copied', 'R1', 'fire', _C,
           in_func('ComplexModelBase.customize',
                   "retval._type_info = TypeInfo(cls._type_info)",
                   "retval._type_info = cls._type_info"), ''),
    Mutant('delayed-child-attrs-shared', 'R1', 'fire', _C,
           in_func('ComplexModelBase.customize',
                   "        else:\n            retval.Attributes._delayed_"
                   "child_attrs = dict(dca.items())\n", ""),
           '_delayed_child_attrs'),
    Mutant('attribute-on-source', 'R1', 'fire', _C,
           in_func('ComplexModelBase.customize',
                   "retval.Attributes.parent_variant = cls",
                   "retval.Attributes.parent_variant = cls\n"
                   "        cls.Attributes.last_variant = retval"), 'cls'),
    Mutant('noexc-dict-not-copied', 'R1', 'fire', _C,
           in_func('_process_child_attrs',
                   "child_attrs_noexc = copy(kwargs.get('child_attrs_noexc', "
                   "None))",
                   "child_attrs_noexc = kwargs.get('child_attrs_noexc', None)"
                   ), 'caller-arg'),
    Mutant('child-attrs-dict-not-copied', 'R1', 'fire', _C,
           in_func('_process_child_attrs',
                   "child_attrs = copy(kwargs.get('child_attrs', None))",
                   "child_attrs = kwargs.get('child_attrs', None)"),
           'caller-arg'),
    Mutant('policy-dict-mutated', 'R1', 'fire', _C,
           in_func('_process_child_attrs',
                   "            child_attrs_all = dict(child_attrs_all)\n",
                   ""), ''),
    Mutant('s-customize-writes-source-attributes', 'R1', 'fire', _B,
           in_func('ModelBase._s_customize',
                   "        if cls.Attributes.translations is None:\n"
                   "            Attributes.translations = {}",
                   "        if cls.Attributes.translations is None:\n"
                   "            cls.Attributes.translations = {}"), 'cls'),
    Mutant('twin-rename-retval', 'R1', 'benign', _C,
           in_func('Mandatory', "retval", "derived", count=0), ''),
    Mutant('append-without-variants', 'R2', 'fire', _C,
           in_func('ComplexModelBase.append_field',
                   "        cls._append_to_variants(field_name, field_type)",
                   "        pass"), 'append_field'),
    Mutant('customize-no-variant', 'R2', 'fire', _C,
           in_func('ComplexModelBase.customize',
                   "        if cls is not ComplexModel:\n"
                   "            cls._process_variants(retval)\n", ""),
           'no-variant-registration'),
    Mutant('memo-partial-clear', 'R2', 'fire', _C,
           in_func('ComplexModelBase._append_field_impl',
                   "ComplexModelBase.get_flat_type_info.memo.clear()",
                   "ComplexModelBase.get_flat_type_info.memo.pop((cls,), "
                   "None)"), 'memo'),
    Mutant('order-from-set', 'R3', 'fire', _C,
           in_func('ComplexModelMeta.__init__',
                   r"        for k, v in self\._type_info\.items\(\):\n"
                   r"            if v\.Attributes\.order is not None:\n"
                   r"                new_type_info\.insert\(v\.Attributes\."
                   r"order, k\)\n",
                   "        ordered = set(k for k, v in self._type_info."
                   "items() if v.Attributes.order is not None)\n"
                   "        for k in ordered:\n"
                   "            new_type_info.insert(self._type_info[k]."
                   "Attributes.order, k)\n", regex=True), ''),
    Mutant('typeinfo-plain-dict', 'R3', 'fire', _C,
           in_func('TypeInfo', "class TypeInfo(odict):",
                   "class TypeInfo(dict):"), 'TypeInfo'),
]
