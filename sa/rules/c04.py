"""C04 - user code only ever receives values of the declared types."""
import ast

from ..core import (AnalysisError, dotted, unparse, calls_in, call_name,
                    walk_no_defs, parent, ancestors, ClassInfo, FuncInfo)
from ..flow import guards_at, flatten_guards, always_exits
from ..tables import tables_of
from ..mutate import Mutant, in_func
from .. import guardspec

ID = 'C04'
EXPLANATION = (
    'R1 guarded class substitution: in the readers that may replace the '
    'declared class by one named in the request (XmlDocument.from_element, '
    'HierDictDocument._doc_to_object) every class value that does not derive '
    'from the declared class - a registry or cache lookup, a member of '
    'get_subclasses() selected by request data - may be bound to the class '
    'variable, used as a handler-table key or passed as the class argument '
    'only where a subclass test against the declared class dominates and its '
    'failing branch raises a Fault. R2 kind-checking pass-throughs: every '
    'function installed on the input side of a dict protocol that can return '
    'its argument unchanged first tests its kind with isinstance (equality '
    'with True/False is not a kind test) and raises ValidationError otherwise; '
    'the identity handler is never installed on the input side. R3 instances '
    'come from the declared class: get_deserialization_instance returns cls() '
    'or cls.__orig__(). R4 the soft-validation kind check of the dict reader '
    'exempts only None. Not decided: that every leaf handler returns the '
    'native type for every input (value level).')
ASSUMPTIONS = ['issubclass / ProtocolMixin.issubclass relate a class to the '
               'declared one as their names say']
LEVEL_TEXT = (
    'Static dominance check: request-selected classes reach the class '
    'variable / handler dispatch only through a subclass guard; input-side '
    'pass-through handlers are kind-checked. Decides the substitution clause '
    'for every path of the two readers and every input-side table entry.')
LEVEL_NOTE = ('Trusted: issubclass semantics; leaf handlers other than the '
              'pass-throughs return native types (C08/C10).')
TECHNIQUE = ('foreign-value taint + dominating-guard analysis with '
             'propositional entailment; handler-table reading (ast)')

READERS = [('spyne.protocol.xml:XmlDocument', 'from_element'),
           ('spyne.protocol.dictdoc.hier:HierDictDocument', '_doc_to_object')]


def foreign_sources(f, declared='cls'):
    """{name: node} class-valued locals that do not derive from the declared
    class: registry/cache lookups and request-selected subclasses."""
    out = {}
    for n in walk_no_defs(f.node):
        if isinstance(n, ast.Assign):
            v = n.value
            src = None
            if isinstance(v, ast.Call) and call_name(v) == 'get' and \
                    isinstance(v.func, ast.Attribute):
                base = unparse(v.func.value)
                if 'classes' in base or 'cache' in base.lower() or \
                        'registry' in base.lower():
                    src = 'lookup ' + base
            if isinstance(v, ast.Subscript):
                base = unparse(v.value)
                if 'classes' in base or 'cache' in base.lower():
                    src = 'lookup ' + base
            if isinstance(v, ast.Call) and call_name(v) in ('get_class',
                                                            'get_class_by_name'):
                src = 'lookup ' + call_name(v)
            # x = next((c for c in subclasses if ...), default)
            if isinstance(v, ast.Call) and call_name(v) == 'next' and v.args \
                    and isinstance(v.args[0], (ast.GeneratorExp,
                                               ast.ListComp)):
                its = [unparse(g_.iter) for g_ in v.args[0].generators]
                if any('get_subclasses' in i_ or i_ == 'subclasses'
                       for i_ in its):
                    src = 'member of get_subclasses() selected by the request'
            if src:
                for t in n.targets:
                    for tt in (t.elts if isinstance(t, ast.Tuple) else [t]):
                        if isinstance(tt, ast.Name):
                            out.setdefault(tt.id, []).append((n, src))
                        # chained: a = b = lookup
        if isinstance(n, ast.For) and isinstance(n.target, ast.Name):
            it = unparse(n.iter)
            if 'get_subclasses' in it or it in ('subclasses',):
                out.setdefault(n.target.id, []).append(
                    (n, 'member of get_subclasses() selected by the request'))
    # a foreign class copied into another local (``found = candidate``)
    for _ in range(3):
        for n in walk_no_defs(f.node):
            if isinstance(n, ast.Assign) and isinstance(n.value, ast.Name) \
                    and n.value.id in out:
                for t in n.targets:
                    if isinstance(t, ast.Name) and t.id not in out and \
                            t.id != declared:
                        out[t.id] = [(n, out[n.value.id][0][1])]
    return out


def is_subclass_guard(e, name, declared):
    if not isinstance(e, ast.Call) or call_name(e) not in GUARD_HELPERS:
        return False
    if len(e.args) != 2:
        return False
    return unparse(e.args[0]) == name and unparse(e.args[1]) == declared


def guarded(f, node, name, declared):
    g = flatten_guards(guards_at(node, stop=f.node))
    for e, pol in g:
        if pol and is_subclass_guard(e, name, declared):
            return True
    return False


def rule_r1(prog, res):
    res.rule('R1', 'request-selected classes replace the declared class only '
             'behind a subclass guard')
    n_sites = 0
    for cfq, mname in READERS:
        c = prog.cls(cfq)
        f = c.methods.get(mname)
        if f is None:
            raise AnalysisError('%s.%s' % (cfq, mname), 'not found')
        declared = 'cls'
        if declared not in f.params():
            raise AnalysisError('%s.%s' % (c.name, mname), 'no cls parameter')
        foreign = foreign_sources(f, declared)
        res.count('foreign_class_sources', sum(len(v) for v in
                                               foreign.values()))
        if not foreign:
            res.floor('R1', 'foreign class sources in %s' % mname, 0, 1)
        for name, srcs in sorted(foreign.items()):
            # uses of the foreign value as a class
            for n in walk_no_defs(f.node):
                use = None
                # (a) cls = X  /  a = cls = X  (incl. chained with a store)
                if isinstance(n, ast.Assign):
                    tnames = [unparse(t) for t in n.targets]
                    if declared in tnames and (
                            (isinstance(n.value, ast.Name) and
                             n.value.id == name) or name in tnames):
                        use = ('bound to the class variable', n)
                # (b) handler table key
                if isinstance(n, ast.Subscript) and isinstance(
                        n.slice, ast.Name) and n.slice.id == name and \
                        'handlers' in unparse(n.value):
                    use = ('used as handler-table key', n)
                # (c) class argument of a reader/handler call
                if isinstance(n, ast.Call):
                    nm = call_name(n) or ''
                    if nm in ('handler', '_doc_to_object', 'from_element',
                              '_from_dict_value',
                              'get_deserialization_instance') or \
                            nm.endswith('_from_element'):
                        args = [unparse(a) for a in n.args[:3]]
                        recv = unparse(n.func.value) if isinstance(
                            n.func, ast.Attribute) else ''
                        if name in args or recv == name:
                            use = ('passed as the class of %s(...)' % nm, n)
                if use is None:
                    continue
                n_sites += 1
                what, node = use
                where = '%s:%d' % (f.module.relpath, node.lineno)
                ok = guarded(f, node, name, declared)
                inst = '%s.%s: %s (%s) %s' % (c.name, mname, name,
                                              srcs[0][1], what)
                if ok:
                    res.ob('R1', where, inst + ' under issubclass(%s, %s)' % (
                        name, declared), 'ok')
                else:
                    res.ob('R1', where, inst, 'VIOLATED')
                    res.finding('R1', '%s.%s|%s|%s' % (c.name, mname, name,
                                                       what), where,
                                '%s, a class chosen by the request (%s), is '
                                '%s without a dominating subclass test '
                                'against the declared class: user code can '
                                'receive an instance of an unrelated type' % (
                                    name, srcs[0][1], what))
        # the failing branch of each guard raises a Fault
        for n in walk_no_defs(f.node):
            if isinstance(n, ast.If):
                t = n.test
                inner = t.operand if isinstance(t, ast.UnaryOp) and \
                    isinstance(t.op, ast.Not) else None
                if inner is not None and isinstance(inner, ast.Call) and \
                        call_name(inner) == 'issubclass' and len(
                        inner.args) == 2 and unparse(inner.args[1]) == \
                        declared:
                    raises = [s for s in n.body if isinstance(s, ast.Raise)]
                    ok = bool(raises) and 'ValidationError' in unparse(
                        raises[0]) or (raises and 'Fault' in unparse(
                            raises[0]))
                    where = '%s:%d' % (f.module.relpath, n.lineno)
                    res.ob('R1', where, '%s.%s: failed subclass test raises '
                           '%s' % (c.name, mname, unparse(raises[0].exc)[:40]
                                   if raises else 'nothing'),
                           'ok' if ok else 'VIOLATED')
                    if not ok:
                        res.finding('R1', '%s.%s|guard-no-fault' % (c.name,
                                                                    mname),
                                    where, 'a failed subclass test does not '
                                    'raise a validation fault')
    res.floor('R1', 'substitution sites', n_sites, 2)


def returns_param_unchanged(f, pname):
    return [r for r in walk_no_defs(f.node) if isinstance(r, ast.Return) and
            isinstance(r.value, ast.Name) and r.value.id == pname]


def _handler_params(t):
    """(class parameter, value parameter) of a handler ``(self, cls, value)``;
    a @staticmethod handler has no ``self``."""
    ps = t.params()
    static = any(isinstance(d, ast.Name) and d.id == 'staticmethod'
                 for d in getattr(t.node, 'decorator_list', []))
    if static:
        ps = [None] + list(ps)
    if len(ps) < 3:
        return None, None
    return ps[1], ps[2]


def rule_r2(prog, res):
    res.rule('R2', 'input-side pass-through handlers test the kind of the '
             'value')
    n = 0
    for cfq in ('spyne.protocol.json:JsonDocument',
                'spyne.protocol.yaml:YamlDocument',
                'spyne.protocol.msgpack:MessagePackDocument',
                'spyne.protocol.msgpack:MessagePackRpc',
                'spyne.protocol.dictdoc.hier:HierDictDocument',
                'spyne.protocol.http:HttpRpc'):
        c = prog.cls(cfq, required=False)
        if c is None:
            continue
        tabs = tables_of(prog, c)
        for tname in ('_from_unicode_handlers', '_from_bytes_handlers'):
            for key, e in sorted(tabs.get(tname, {}).items()):
                t = e.target
                if not isinstance(t, FuncInfo):
                    continue
                _cp, vparam = _handler_params(t)
                if vparam is None:
                    continue
                rets = returns_param_unchanged(t, vparam)
                if not rets:
                    continue
                n += 1
                where = t.where
                inst = '%s.%s[%s] = %s' % (c.name, tname, key, t.qualname)
                problems = []
                if key in ('Any',):
                    res.ob('R2', where, inst + ' [Any admits every value]',
                           'ok', nontrivial=False)
                    continue

                def is_kind(ex):
                    if isinstance(ex, ast.Call) and call_name(ex) == \
                            'isinstance' and ex.args and unparse(
                            ex.args[0]) == vparam:
                        return True
                    if isinstance(ex, ast.Compare) and isinstance(
                            ex.ops[0], ast.Is) and unparse(ex.left) == vparam:
                        return True
                    return False

                def is_bool_membership(ex):
                    return isinstance(ex, ast.Compare) and isinstance(
                        ex.ops[0], (ast.In, ast.NotIn)) and unparse(
                        ex.left) == vparam and any(
                        isinstance(x, ast.Constant) and isinstance(
                            x.value, bool)
                        for x in ast.walk(ex.comparators[0]))
                # (b) a preceding `if isinstance(value, T): raise`
                from ..flow import always_raises
                neg_kind = any(
                    isinstance(st, ast.If) and is_kind(st.test) and
                    always_raises(st.body) for st in t.node.body)
                for r in rets:
                    g = flatten_guards(guards_at(r, stop=t.node))
                    kind = neg_kind
                    todo = list(g)
                    while todo:
                        ex, pol = todo.pop()
                        if isinstance(ex, ast.UnaryOp) and isinstance(
                                ex.op, ast.Not):
                            todo.append((ex.operand, not pol))
                            continue
                        if isinstance(ex, ast.BoolOp):
                            conj = (isinstance(ex.op, ast.And) and pol) or (
                                isinstance(ex.op, ast.Or) and not pol)
                            if conj:
                                todo.extend((v_, pol) for v_ in ex.values)
                            elif pol:
                                # disjunction: every alternative must be a
                                # kind test
                                if any(is_bool_membership(v_)
                                       for v_ in ex.values):
                                    problems.append((
                                        'equality-kind-test', 'membership in '
                                        '(True, False) is an equality test: '
                                        '1, 0 and 1.0 pass as booleans'))
                                elif all(is_kind(v_) for v_ in ex.values):
                                    kind = True
                            continue
                        if pol and is_kind(ex):
                            kind = True
                        if pol and is_bool_membership(ex):
                            problems.append((
                                'equality-kind-test', 'membership in (True, '
                                'False) is an equality test: 1, 0 and 1.0 '
                                'pass as booleans'))
                    if not kind and not problems:
                        problems.append(('identity', 'returns its argument '
                                         'without testing its kind'))
                if problems:
                    for k_, msg in problems:
                        res.ob('R2', where, inst, 'VIOLATED')
                        res.finding('R2', '%s|%s|%s' % (t.qualname, key, k_),
                                    where, 'input-side handler %s for %s %s: '
                                    'a JSON/YAML/msgpack value of the wrong '
                                    'kind reaches user code' % (
                                        t.qualname, key, msg))
                else:
                    res.ob('R2', where, inst + ' [kind-checked]', 'ok')
    res.floor('R2', 'input-side pass-through handlers', n, 6)


def rule_r3(prog, res):
    res.rule('R3', 'deserialization instances come from the declared class')
    n = 0
    for c in prog.all_classes():
        if not c.module.name.startswith('spyne.model'):
            continue
        f = c.methods.get('get_deserialization_instance')
        if f is None:
            continue
        n += 1
        rets = [r for r in walk_no_defs(f.node) if isinstance(r, ast.Return)]
        bad = []
        for r in rets:
            v = r.value
            ok = isinstance(v, ast.Call) and unparse(v.func) in (
                'cls', 'cls.__orig__') and not v.args
            if not ok and isinstance(v, ast.List) and not v.elts and \
                    prog.is_subclass(c, 'Array'):
                ok = True      # the native type of an Array is a list
            if not ok:
                bad.append(unparse(v))
        res.ob('R3', f.where, '%s.get_deserialization_instance returns %s' % (
            c.name, [unparse(r.value) for r in rets]),
            'ok' if not bad else 'VIOLATED')
        if bad:
            res.finding('R3', '%s.get_deserialization_instance|%s' % (
                c.name, bad[0][:40]), f.where, 'the instance handed to user '
                'code is built from %s, not from the declared class' % bad[0])
    res.floor('R3', 'get_deserialization_instance implementations', n, 1)


def rule_r4(prog, res):
    res.rule('R4', 'the soft kind check exempts only None')
    c = prog.cls('spyne.protocol.dictdoc.hier:HierDictDocument')
    v = c.methods.get('validate')
    if v is None:
        raise AnalysisError('HierDictDocument.validate', 'not found')
    found = False
    for node in walk_no_defs(v.node):
        if isinstance(node, ast.If) and 'nullable' in unparse(node.test):
            found = True
            tt = unparse(node.test)
            ok = 'inst is None' in tt
            where = '%s:%d' % (v.module.relpath, node.lineno)
            res.ob('R4', where, 'validate: exemption %s' % tt[:60],
                   'ok' if ok else 'VIOLATED')
            if not ok:
                res.finding('R4', 'HierDictDocument.validate|null-exemption',
                            where, 'the nullable exemption is %s, not "inst '
                            'is None": falsy values of the wrong kind ([] {} '
                            '0 False) bypass the kind check and reach user '
                            'code' % tt[:60])
    # the classes whose reader can hand the document value through unchanged
    # (text as it is; bytes under the identity encoding) need a kind test
    for kind, key in (('Unicode', 'unicode-kind'), ('ByteArray',
                                                    'bytearray-kind')):
        hit = None
        for r in walk_no_defs(v.node):
            if not isinstance(r, ast.Raise):
                continue
            atoms = guardspec.atoms_at(r, v.node)
            if any(pol and t.startswith('issubclass(cls, ') and kind in t
                   for t, pol in atoms) and any(
                    (not pol) and t.startswith('isinstance(inst, ')
                    for t, pol in atoms) and not any(
                    pol and t.startswith('isinstance(inst, ')
                    for t, pol in atoms):
                hit = r
        ok = hit is not None
        res.ob('R4', v.where, 'validate rejects values of a foreign kind for '
               '%s members' % kind, 'ok' if ok else 'VIOLATED')
        if not ok:
            res.finding('R4', 'HierDictDocument.validate|%s' % key, v.where,
                        'no path of the soft kind check raises for a %s '
                        'member whose document value fails an isinstance '
                        'test: numbers, maps and lists reach user code in '
                        'that slot (the identity decoder just wraps them)' %
                        kind)
    if not found:
        res.unclass('R4', v.where, 'no nullable exemption found')
    # the kinds the test admits are text/bytes kinds in every protocol
    TEXT_KINDS = {'six.text_type', 'six.binary_type', 'memoryview', 'mmap',
                  'bytearray', 'str', 'bytes', 'unicode', 'six.string_types'}
    nk = 0
    for k in [c] + list(prog.subclasses(c, strict=True)):
        val = None
        for st in k.node.body:
            if isinstance(st, ast.Assign) and any(
                    isinstance(t, ast.Name) and
                    t.id == 'VALID_UNICODE_SOURCES' for t in st.targets):
                val = st.value
        if val is None:
            continue
        nk += 1
        elts, todo, odd = [], [val], []
        while todo:
            e = todo.pop()
            if isinstance(e, ast.Tuple):
                elts.extend(e.elts)
            elif isinstance(e, ast.BinOp) and isinstance(e.op, ast.Add):
                todo.extend([e.left, e.right])
            elif isinstance(e, ast.Attribute) and \
                    e.attr == 'VALID_UNICODE_SOURCES':
                pass
            else:
                odd.append(e)
        bad = [unparse(e) for e in elts if unparse(e) not in TEXT_KINDS]
        where = '%s:%d' % (k.module.relpath, val.lineno)
        res.ob('R4', where, '%s.VALID_UNICODE_SOURCES = %s' % (
            k.name, unparse(val)[:60]), 'VIOLATED' if bad else (
                'unclassified' if odd else 'ok'))
        for e in odd:
            res.unclass('R4', where, 'VALID_UNICODE_SOURCES component %s' %
                        unparse(e)[:40])
        if bad:
            res.finding('R4', '%s|VALID_UNICODE_SOURCES|%s' % (
                k.name, ','.join(bad)), where, '%s admits %s as a source of '
                'a Unicode member: the Unicode branch of the dict reader '
                'returns non-bytes values unconverted, so such a value is '
                'delivered to user code in a string slot' % (k.name, bad))
    res.floor('R4', 'definitions of VALID_UNICODE_SOURCES', nk, 1)
    # it is invoked from _from_dict_value under soft validation
    f = c.methods['_from_dict_value']
    calls = [x for x in calls_in(f.node) if call_name(x) == 'validate' and
             dotted(x.func.value) == 'self']
    ok = False
    for x in calls:
        g = flatten_guards(guards_at(x, stop=f.node))
        if any('SOFT_VALIDATION' in unparse(e) and pol for e, pol in g):
            ok = True
    res.ob('R4', f.where, '_from_dict_value runs the kind check under soft '
           'validation', 'ok' if ok else 'VIOLATED')
    if not ok:
        res.finding('R4', 'HierDictDocument._from_dict_value|no-kind-check',
                    f.where, 'the kind check is no longer called under soft '
                    'validation')


# ------------------------------------------------------------------- R5
def origins(f, roots):
    """name -> set of root parameters its value is derived from (flow
    insensitive closure over assignments and loop targets)."""
    org = {r: {r} for r in roots}
    changed = True
    while changed:
        changed = False
        for n in walk_no_defs(f.node):
            if isinstance(n, ast.Assign):
                tg = [t.id for tt in n.targets for t in ast.walk(tt)
                      if isinstance(t, ast.Name)]
                val = n.value
            elif isinstance(n, ast.For):
                tg = [t.id for t in ast.walk(n.target)
                      if isinstance(t, ast.Name)]
                val = n.iter
            else:
                continue
            src = set()
            for x in ast.walk(val):
                if isinstance(x, ast.Name) and x.id in org:
                    src |= org[x.id]
            for t in tg:
                if not src <= org.get(t, set()):
                    org.setdefault(t, set()).update(src)
                    changed = True
    return org


GUARD_HELPERS = {'issubclass'}     # extended by guard_helpers()


def guard_helpers(prog, res=None):
    """Methods of ProtocolMixin that are sound subclass guards: with the
    candidate class as first and the declared class as second parameter they
    can answer True only after issubclass(<candidate-derived>,
    <declared-derived>) - directly or through another sound helper - held."""
    c = prog.cls('spyne.protocol._base:ProtocolMixin')
    sound = {}
    def _is_static(m):
        return any(isinstance(d, ast.Name) and d.id == 'staticmethod'
                   for d in m.node.decorator_list)
    cands = [m for nm, m in sorted(c.methods.items())
             if len(m.params()) == (2 if _is_static(m) else 3) and (
                 nm == 'issubclass' or nm.startswith('is_'))]
    # a classmethod's first parameter is the class itself
    for _ in range(3):
        for f in cands:
            ps = f.params()
            is_static = any(isinstance(d, ast.Name) and d.id == 'staticmethod'
                            for d in f.node.decorator_list)
            params = ps if is_static else ps[1:]
            if len(params) != 2:
                continue
            cand, decl = params
            org = origins(f, params)
            problems = []
            tests = []
            for call in calls_in(f.node):
                nm = call_name(call)
                if len(call.args) != 2:
                    continue
                builtin = isinstance(call.func, ast.Name) and \
                    call.func.id == 'issubclass'
                helper = isinstance(call.func, ast.Attribute) and (
                    nm in sound and sound[nm])
                if not (builtin or helper):
                    continue
                a = {o for x in ast.walk(call.args[0])
                     if isinstance(x, ast.Name) for o in org.get(x.id, ())}
                b = {o for x in ast.walk(call.args[1])
                     if isinstance(x, ast.Name) for o in org.get(x.id, ())}
                if a == {cand} and b == {decl}:
                    tests.append(call)
                elif a == b and len(a) == 1:
                    pass        # a kind test on one class (issubclass(c, Array))
                elif isinstance(call.args[1], ast.Name) and \
                        call.args[1].id[:1].isupper():
                    pass        # issubclass(x, SomeClass)
                elif a == {decl} and b == {cand} and isinstance(
                        getattr(call, '_parent', None), ast.BoolOp) and \
                        isinstance(call._parent.op, ast.And) and any(
                            isinstance(o, ast.Call) and o is not call and
                            len(o.args) == 2 and
                            unparse(o.args[0]) == unparse(call.args[1]) and
                            unparse(o.args[1]) == unparse(call.args[0])
                            for o in call._parent.values):
                    pass        # both directions in one conjunction: equality
                else:
                    problems.append((call, a, b))
            # every way of answering True is behind such a test
            for r in walk_no_defs(f.node):
                if not isinstance(r, ast.Return) or r.value is None:
                    continue
                v = r.value
                if isinstance(v, ast.Constant) and v.value is False:
                    continue
                if v in tests or (isinstance(v, ast.Call) and v in tests):
                    continue
                if isinstance(v, ast.BoolOp) and isinstance(v.op, ast.And) \
                        and any(x in tests for x in v.values):
                    continue
                g = flatten_guards(guards_at(r, stop=f.node))
                if not any(pol and e in tests for e, pol in g) and not any(
                        pol and isinstance(e, ast.Call) and any(
                            e is t for t in tests) for e, pol in g):
                    # dominated by `if not TEST: return False`?
                    dom = any(pol and unparse(e) in {unparse(t)
                                                     for t in tests}
                              for e, pol in g)
                    if not dom:
                        problems.append((r, None, None))
            sound[f.name] = (not problems) and bool(tests)
            f._c04_problems = problems
            f._c04_tests = tests
            f._c04_params = (cand, decl)
    GUARD_HELPERS.clear()
    GUARD_HELPERS.update({'issubclass'} | {k for k, v in sound.items() if v})
    return cands, sound


def rule_r5(prog, res):
    res.rule('R5', 'the subclass helpers answer True only through '
             'issubclass(<candidate>, <declared>) in that order; __orig__ is '
             'read from the class itself; arrays compare member types')
    cands, sound = guard_helpers(prog)
    n = 0
    for f in cands:
        cand, decl = getattr(f, '_c04_params', ('?', '?'))
        for call in getattr(f, '_c04_tests', []):
            n += 1
            res.ob('R5', '%s:%d' % (f.module.relpath, call.lineno),
                   '%s: %s tests the candidate (%s) against the declared '
                   'class (%s)' % (f.qualname, unparse(call)[:60], cand,
                                   decl), 'ok', nontrivial=True)
        for node, a, b in getattr(f, '_c04_problems', []):
            where = '%s:%d' % (f.module.relpath, node.lineno)
            if a is None:
                res.ob('R5', where, '%s: %s is not behind a subclass test' % (
                    f.qualname, unparse(node)[:50]), 'VIOLATED')
                res.finding('R5', '%s|return-untested|%s' % (
                    f.qualname, unparse(node)[:40]), where,
                    '%s can answer %s without a subclass test of the '
                    'candidate against the declared class on that path' % (
                        f.qualname, unparse(node)[:50]))
            else:
                res.ob('R5', where, '%s: %s compares a value derived from %s '
                       'against one derived from %s' % (
                           f.qualname, unparse(node)[:60], sorted(a),
                           sorted(b)), 'VIOLATED', nontrivial=True)
                res.finding('R5', '%s|%s' % (f.qualname, unparse(node)),
                            where, 'the helper every reader trusts for its '
                            'subclass guard evaluates %s, whose first '
                            'argument derives from %s and second from %s: it '
                            'must test the candidate (%s) against the '
                            'declared class (%s); as written siblings or '
                            'ancestors of the declared class are accepted' % (
                                unparse(node), sorted(a), sorted(b), cand,
                                decl))
    res.floor('R5', 'subclass tests in the guard helpers', n, 1)
    # __orig__ must come from the class's own namespace: a class that merely
    # inherits from a customized one inherits __orig__ too
    c = prog.cls('spyne.protocol._base:ProtocolMixin')
    f = c.methods.get('issubclass')
    if f is None:
        raise AnalysisError('ProtocolMixin.issubclass', 'not found')
    inherited = [x for x in calls_in(f.node) if call_name(x) == 'getattr' and
                 len(x.args) >= 2 and isinstance(x.args[1], ast.Constant) and
                 x.args[1].value == '__orig__'] + [
        x for x in walk_no_defs(f.node) if isinstance(x, ast.Attribute) and
        x.attr == '__orig__' and isinstance(x.ctx, ast.Load)]
    own = [x for x in walk_no_defs(f.node) if isinstance(x, ast.Constant) and
           x.value == '__orig__' and not any(
               x is y.args[1] for y in calls_in(f.node)
               if call_name(y) == 'getattr' and len(y.args) >= 2)]
    ok = not inherited and bool(own)
    res.ob('R5', f.where, 'ProtocolMixin.issubclass reads __orig__ %s' % (
        'from the class\'s own namespace' if ok else 'through attribute '
        'lookup (inherited)'), 'ok' if ok else 'VIOLATED')
    if not ok:
        res.finding('R5', 'ProtocolMixin.issubclass|inherited-orig', f.where,
                    'the helper normalises classes through getattr(cls, '
                    '"__orig__"): a class that extends a customized class '
                    '(Uuid extends Unicode(pattern=...)) inherits that '
                    'attribute, so its parent type is accepted in its place '
                    '(xsi:type="xs:string" in a Uuid slot delivers a str)')
    # ... and the variant factory must record the same notion of "original"
    mb = prog.cls('spyne.model._base:ModelBase')
    sc = mb.methods.get('_s_customize')
    if sc is None:
        raise AnalysisError('ModelBase._s_customize', 'not found')
    st = [a_ for a_ in walk_no_defs(sc.node) if isinstance(a_, ast.Assign)
          and any(isinstance(t, ast.Subscript) and isinstance(
              t.slice, ast.Constant) and t.slice.value == '__orig__'
              for t in a_.targets) and isinstance(a_.value, ast.Name)]
    res.floor('R5', 'stores of the variant\'s own __orig__', len(st), 1)
    for a_ in st:
        atoms = guardspec.atoms_at(a_, sc.node)
        inh = [t for t, _ in atoms if "getattr(%s, '__orig__'" % a_.value.id
               in t or '%s.__orig__' % a_.value.id in t]
        where = '%s:%d' % (sc.module.relpath, a_.lineno)
        res.ob('R5', where, '_s_customize records the class itself as '
               '__orig__ under %s' % [t for t, _ in atoms],
               'VIOLATED' if inh else 'ok')
        if inh:
            res.finding('R5', 'ModelBase._s_customize|inherited-orig', where,
                        '_s_customize decides whether a class is already a '
                        'variant through attribute lookup (%s): a class that '
                        'extends a customized class (Uuid) inherits __orig__, '
                        'so Uuid(min_occurs=1) records Unicode as its '
                        'original and its slot accepts xs:string' % inh[0])
    # the xsi:type guard handles arrays
    x = prog.cls('spyne.protocol.xml:XmlDocument').methods.get('from_element')
    used = [call_name(e) for node in walk_no_defs(x.node)
            if isinstance(node, ast.If) for e in ast.walk(node.test)
            if isinstance(e, ast.Call) and call_name(e) in GUARD_HELPERS and
            len(e.args) == 2 and unparse(e.args[1]) == 'cls']
    res.floor('R5', 'subclass guards in XmlDocument.from_element', len(used),
              1)
    for nm in sorted(set(used)):
        g = c.methods.get(nm)
        arrays = g is not None and any(
            call_name(e) == 'issubclass' and len(e.args) == 2 and
            unparse(e.args[1]).endswith('Array') for e in calls_in(g.node)) \
            and '_type_info' in unparse(g.node)
        res.ob('R5', x.where, 'from_element guards the xsi:type class with '
               '%s, which %s' % (nm, 'compares array member types' if arrays
                                 else 'does not look at array members'),
               'ok' if arrays else 'VIOLATED')
        if not arrays:
            res.finding('R5', 'XmlDocument.from_element|array-members|%s' %
                        nm, x.where, 'the xsi:type guard %s does not compare '
                        'the member types of array classes: every Array(X) '
                        'is a customisation of Array, so xsi:type="CArray" '
                        'is accepted in an Array(D) slot and user code '
                        'receives C instances' % nm)
            continue
        deep = any(call_name(e) == nm for e in calls_in(g.node)) or any(
            isinstance(w_, ast.While) for w_ in walk_no_defs(g.node))
        res.ob('R5', g.where, '%s %s' % (nm, 'descends into member types '
               'recursively' if deep else 'compares members one level deep '
               'only'), 'ok' if deep else 'VIOLATED')
        if not deep:
            res.finding('R5', 'ProtocolMixin.%s|array-members|one-level' % nm,
                        g.where, '%s compares the members of two arrays with '
                        'a plain subclass test: the members of an array of '
                        'arrays are again customisations of Array, so '
                        'Array(Array(Unicode)) is accepted where '
                        'Array(Array(Integer)) is declared' % nm)


def rule_r6(prog, res):
    from . import c02
    from ..report import Result
    res.share('R6', 'only Integer/Double/Boolean values pass a dict '
              'document unconverted (C02-R3)', 'C02', c02.rule_r3, prog,
              Result)


# ------------------------------------------------------------------- R7
def rule_r7(prog, res):
    res.rule('R7', 'enumeration literals are looked up in the declared value '
             'list before they are resolved on the class')
    e = prog.cls('spyne.model.enum:EnumBase')
    vs = e.methods.get('validate_string')
    if vs is None:
        raise AnalysisError('EnumBase.validate_string', 'not found')
    member = [c for c in walk_no_defs(vs.node) if isinstance(c, ast.Compare)
              and isinstance(c.ops[0], ast.In) and unparse(
                  c.comparators[0]).endswith('__values__')]
    lookups = [c for c in calls_in(vs.node) if call_name(c) in (
        'hasattr', 'getattr')]
    ok = bool(member) and not lookups
    res.ob('R7', vs.where, 'EnumBase.validate_string: membership %s' % (
        [unparse(m) for m in member] or [unparse(c)[:40] for c in lookups]),
        'ok' if ok else 'VIOLATED')
    if not ok:
        res.finding('R7', 'EnumBase.validate_string|membership', vs.where,
                    'the enumeration validator does not test the literal '
                    'against cls.__values__ (found %s): names of other class '
                    'attributes (__values__, Attributes, customize ...) pass, '
                    'and the XML reader then resolves them with getattr(), '
                    'handing user code a tuple, a class or a method' % (
                        [unparse(c)[:40] for c in lookups] or 'no test'))
    # every getattr(cls, <request text>) in the readers is dominated by the
    # validator (soft) or a direct membership test
    n = 0
    for cfq, nm in (('spyne.protocol.xml:XmlDocument', 'enum_from_element'),
                    ('spyne.protocol._inbase:InProtocolBase',
                     'enum_base_from_bytes')):
        f = prog.cls(cfq).methods.get(nm)
        if f is None:
            continue
        for c in calls_in(f.node):
            if call_name(c) != 'getattr' or len(c.args) != 2:
                continue
            n += 1
            g = flatten_guards(guards_at(c, stop=f.node))
            txt = [unparse(x) for x, _ in g]
            ok = any('__values__' in t or 'validate_string' in t
                     for t in txt)
            where = '%s:%d' % (f.module.relpath, c.lineno)
            res.ob('R7', where, '%s: %s under %s' % (nm, unparse(c), txt),
                   'ok' if ok else 'VIOLATED')
            if not ok:
                res.finding('R7', '%s|getattr-unguarded' % f.qualname, where,
                            '%s resolves request text on the enum class '
                            'without a dominating membership test' %
                            f.qualname)
    res.floor('R7', 'enum literal resolutions', n, 2)


# ------------------------------------------------------------------- R8
def rule_r8(prog, res):
    res.rule('R8', 'nested reader calls forward the validator they were '
             'given')
    c = prog.cls('spyne.protocol.dictdoc.hier:HierDictDocument')
    n = 0
    for nm in ('_from_dict_value', '_doc_to_object'):
        f = c.methods.get(nm)
        if f is None or 'validator' not in f.params():
            continue
        for call in calls_in(f.node):
            cn = call_name(call)
            if cn not in ('_from_dict_value', '_doc_to_object') or not (
                    isinstance(call.func, ast.Attribute) and
                    dotted(call.func.value) == 'self'):
                continue
            n += 1
            g = c.methods.get(cn)
            ps = [p_ for p_ in g.params() if p_ != 'self']
            idx = ps.index('validator') if 'validator' in ps else None
            passed = None
            for k in call.keywords:
                if k.arg == 'validator':
                    passed = k.value
            if passed is None and idx is not None and idx < len(call.args):
                passed = call.args[idx]
            ok = passed is not None and unparse(passed) == 'validator'
            where = '%s:%d' % (f.module.relpath, call.lineno)
            res.ob('R8', where, '%s -> %s(validator=%s)' % (
                nm, cn, unparse(passed) if passed is not None else
                '<default None>'), 'ok' if ok else 'VIOLATED')
            if not ok:
                res.finding('R8', '%s|%s|validator-dropped' % (f.qualname, cn),
                            where, '%s calls %s without forwarding its '
                            'validator (%s): the nested value is read with '
                            'validation off even under soft validation, so '
                            'wrong-kind values reach user code' % (
                                f.qualname, cn, unparse(passed)
                                if passed is not None else 'defaults to None'))
    res.floor('R8', 'nested reader calls', n, 4)
    # every request entry point hands the configured validator down
    m = 0
    for mod in prog.modules.values():
        if not mod.relpath.startswith('spyne/protocol/'):
            continue        # request paths only; util helpers call no user code
        for f in mod.functions.values():
            if f.name in ('_from_dict_value', '_doc_to_object'):
                continue
            for call in calls_in(f.node):
                if call_name(call) != '_doc_to_object' or \
                        not isinstance(call.func, ast.Attribute):
                    continue
                recv = unparse(call.func.value)
                if len(call.args) >= 2 and unparse(call.args[1]) == 'Fault':
                    continue        # a received fault is not user input
                passed = None
                for k in call.keywords:
                    if k.arg == 'validator':
                        passed = k.value
                if passed is None and len(call.args) >= 4:
                    passed = call.args[3]
                m += 1
                ok = passed is not None and unparse(passed) in (
                    '%s.validator' % recv, 'validator')
                where = '%s:%d' % (mod.relpath, call.lineno)
                res.ob('R8', where, '%s -> %s._doc_to_object(validator=%s)' % (
                    f.qualname, recv, unparse(passed) if passed is not None
                    else '<default None>'), 'ok' if ok else 'VIOLATED')
                if not ok:
                    res.finding('R8', '%s|_doc_to_object|validator-dropped' %
                                f.qualname, where, '%s reads the request with '
                                '_doc_to_object but does not pass the '
                                'protocol\'s validator (%s): the kind checks '
                                'are off even under soft validation, so maps '
                                'and lists reach user code in scalar slots' % (
                                    f.qualname, unparse(passed) if passed
                                    is not None else 'defaults to None'))
    res.floor('R8', 'entry-point reader calls', m, 4)


# ------------------------------------------------------------------- R9
def rule_r9(prog, res):
    res.rule('R9', 'every method context, auxiliary ones included, reads the '
             'request with its own descriptor; no context takes over the '
             'objects another context deserialized')
    a = prog.cls('spyne.auxproc._base:AuxProcBase')
    f = a.methods.get('process')
    if f is None:
        raise AnalysisError('AuxProcBase.process', 'not found')
    calls = [c for c in calls_in(f.node) if call_name(c) == 'get_in_object']
    res.floor('R9', 'get_in_object calls in AuxProcBase.process', len(calls),
              1)
    for c in calls:
        st = c
        while not isinstance(st, ast.stmt):
            st = st._parent
        guardspec.check(res, 'R9', f, st, 'the deserialization of the '
                        'auxiliary context', allowed=[],
                        key='AuxProcBase.process|get_in_object')
    n = 0
    for mod in prog.modules.values():
        if '/test/' in mod.relpath:
            continue
        for fn in mod.functions.values():
            for st in walk_no_defs(fn.node):
                if not isinstance(st, ast.Assign):
                    continue
                for t in st.targets:
                    if not (isinstance(t, ast.Attribute) and t.attr in (
                            'in_object', 'in_header')):
                        continue
                    n += 1
                    base = unparse(t.value)
                    foreign = [unparse(e) for e in ast.walk(st.value)
                               if isinstance(e, ast.Attribute) and e.attr in (
                                   'in_object', 'in_header') and
                               unparse(e.value) != base]
                    where = '%s:%d' % (mod.relpath, st.lineno)
                    res.ob('R9', where, '%s stores %s.%s from %s' % (
                        fn.qualname, base, t.attr, unparse(st.value)[:50]),
                        'VIOLATED' if foreign else 'ok')
                    if foreign:
                        res.finding('R9', '%s|%s|foreign-context' % (
                            fn.qualname, t.attr), where, '%s copies %s into '
                            '%s.%s: the object was built from another '
                            'method\'s declared types, so this method runs '
                            'with values its own signature never validated' %
                            (fn.qualname, foreign[0], base, t.attr))
    res.floor('R9', 'stores of in_object/in_header', n, 15)


NUMBER_TYPE_NAMES = {'int', 'long', 'float', 'decimal.Decimal',
                     'spyne.util.six.integer_types', 'six.integer_types',
                     'numbers.Number', 'numbers.Real', 'numbers.Integral',
                     'numbers.Rational'}


def _type_names(mod, e, depth=0):
    """The set of type names a class-or-tuple expression denotes, resolved
    through module constants and import aliases; None when not resolvable."""
    if depth > 6:
        return None
    if isinstance(e, (ast.Tuple, ast.List, ast.Set)):
        out = set()
        for x in e.elts:
            r = _type_names(mod, x, depth + 1)
            if r is None:
                return None
            out |= r
        return out
    if isinstance(e, ast.BinOp) and isinstance(e.op, ast.Add):
        a = _type_names(mod, e.left, depth + 1)
        b = _type_names(mod, e.right, depth + 1)
        return None if a is None or b is None else a | b
    if isinstance(e, ast.Call) and call_name(e) in ('tuple', 'frozenset',
                                                    'set') and len(
            e.args) == 1:
        return _type_names(mod, e.args[0], depth + 1)
    if isinstance(e, ast.Name):
        if e.id in mod.consts:
            return _type_names(mod, mod.consts[e.id], depth + 1)
        tgt = mod.imports.get(e.id)
        if isinstance(tgt, str):
            return {tgt}
        return {e.id}
    if isinstance(e, ast.Attribute):
        d = dotted(e)
        if d is None:
            return None
        head, _, rest = d.partition('.')
        tgt = mod.imports.get(head)
        if isinstance(tgt, str):
            return {tgt + '.' + rest}
        return {d}
    return None


def _number_handlers(prog):
    """[(class, key, function)] the functions that read Double and Integer
    members of the dict documents, followed through self.<method>(cls, value)
    delegation."""
    out = []
    seen = set()
    for cfq in ('spyne.protocol.json:JsonDocument',
                'spyne.protocol.yaml:YamlDocument',
                'spyne.protocol.msgpack:MessagePackDocument'):
        c = prog.cls(cfq)
        tabs = tables_of(prog, c)
        for tname in ('_from_unicode_handlers', '_from_bytes_handlers'):
            for key in ('Double', 'Integer'):
                e = tabs.get(tname, {}).get(key)
                if e is None or not isinstance(e.target, FuncInfo):
                    continue
                todo = [e.target]
                while todo:
                    t = todo.pop()
                    if (c.name, key, t.qualname) in seen:
                        continue
                    seen.add((c.name, key, t.qualname))
                    out.append((c, key, t))
                    for call in calls_in(t.node):
                        fn = call.func
                        if isinstance(fn, ast.Attribute) and unparse(
                                fn.value) == 'self' and fn.attr in c.methods \
                                and c.methods[fn.attr] is not t:
                            todo.append(c.methods[fn.attr])
    return out


def rule_r10(prog, res):
    res.rule('R10', 'number members of the dict documents admit numbers only '
             '(a white list, not a black list); an Integer member never keeps '
             'a float; an AnyDict member only keeps a dict or None')
    from ..flow import entails
    n = nint = 0
    for c, key, t in _number_handlers(prog):
        cparam, vparam = _handler_params(t)
        if vparam is None:
            continue
        for r in returns_param_unchanged(t, vparam):
            n += 1
            where = '%s:%d' % (t.module.relpath, r.lineno)
            g = flatten_guards(guards_at(r, stop=t.node))
            white = None
            leaves = set()
            for ex, _pol in g:
                for x in ast.walk(ex):
                    if isinstance(x, ast.Call) and call_name(x) == \
                            'isinstance' and len(x.args) == 2 and unparse(
                            x.args[0]) == vparam:
                        leaves.add(unparse(x))
            for txt in sorted(leaves):
                if not entails(g, txt):
                    continue
                call = ast.parse(txt, mode='eval').body
                names = _type_names(t.module, call.args[1])
                if names is not None and names <= NUMBER_TYPE_NAMES:
                    white = (txt, sorted(names))
                elif white is None:
                    white = (txt, None if names is None else sorted(
                        names - NUMBER_TYPE_NAMES))
            ok = white is not None and white[1] is not None and set(
                white[1]) <= NUMBER_TYPE_NAMES
            res.ob('R10', where, '%s[%s] -> %s returns the value unchanged '
                   'under %s' % (c.name, key, t.qualname, white),
                   'ok' if ok else 'VIOLATED')
            if not ok:
                res.finding('R10', '%s|%s|not-a-white-list' % (
                    t.qualname, key), where, '%s hands the document value '
                    'to a %s member unchanged without a dominating '
                    'isinstance test against number types only (%s): a '
                    'date, set, tuple or extension value reaches the member '
                    'and the range check raises a TypeError instead of a '
                    'client fault' % (t.qualname, key, white))
                continue
            if key != 'Integer':
                continue
            nint += 1
            # the unchanged return of an Integer member excludes floats
            fl = 'isinstance(%s, float)' % vparam
            okf = entails(g, 'not (%s and issubclass(%s, Integer))' % (
                fl, cparam)) or entails(g, 'not %s' % fl) or (
                    'float' not in white[1])
            res.ob('R10', where, '%s[Integer] -> %s: the unchanged value is '
                   'not a float' % (c.name, t.qualname),
                   'ok' if okf else 'VIOLATED')
            if not okf:
                res.finding('R10', '%s|Integer|float-kept' % t.qualname,
                            where, '%s returns a float unchanged for an '
                            'Integer member: user code receives 3.0 where '
                            'int is declared' % t.qualname)
    res.floor('R10', 'unchanged returns of number handlers', n, 3)
    res.floor('R10', 'unchanged returns reached for Integer members', nint, 3)

    h = prog.cls('spyne.protocol.dictdoc.hier:HierDictDocument')
    f = h.methods.get('_from_dict_value')
    if f is None:
        raise AnalysisError('HierDictDocument._from_dict_value', 'not found')
    ps = f.params()
    m = 0
    for st in walk_no_defs(f.node):
        if not (isinstance(st, ast.Assign) and isinstance(st.value, ast.Name)
                and st.value.id in ps and len(st.targets) == 1 and
                isinstance(st.targets[0], ast.Name) and
                st.targets[0].id == 'retval'):
            continue
        g = flatten_guards(guards_at(st, stop=f.node))
        v = st.value.id
        mentions = [unparse(ex) for ex, pol in g if 'AnyDict' in unparse(ex)]
        if not mentions:
            continue
        # can the store run for an AnyDict class?
        if entails(g, 'not issubclass(cls, AnyDict)'):
            continue
        m += 1
        where = '%s:%d' % (f.module.relpath, st.lineno)
        ok = entails(g, '%s is None or isinstance(%s, dict)' % (v, v))
        res.ob('R10', where, '_from_dict_value keeps the document value for '
               'an AnyDict member under %s' % [
                   ('' if pol else 'not ') + unparse(ex) for ex, pol in g],
               'ok' if ok else 'VIOLATED')
        if not ok:
            res.finding('R10', '_from_dict_value|AnyDict|kind', where,
                        'HierDictDocument._from_dict_value stores the '
                        'document value for an AnyDict member without a '
                        'dominating test that it is a dict (or None): a '
                        'number, string or list is delivered where a dict '
                        'is declared')
    res.floor('R10', 'AnyDict pass-through stores', m, 1)


def rule_r11(prog, res):
    res.rule('R11', 'xsi:type replaces the declared class by an object class '
             'only: a simple type keeps its declared reader (Date for '
             'DateTime, Uuid for Unicode, Double for Decimal have other '
             'native types) and an Array is not replaced by the Iterable that '
             'shares its type name')
    from ..flow import entails
    x = prog.cls('spyne.protocol.xml:XmlDocument')
    f = x.methods.get('from_element')
    if f is None:
        raise AnalysisError('XmlDocument.from_element', 'not found')
    declared = f.params()[2] if len(f.params()) > 2 else 'cls'
    fs = foreign_sources(f, declared)
    n = 0
    for a in walk_no_defs(f.node):
        if not (isinstance(a, ast.Assign) and len(a.targets) == 1 and
                isinstance(a.targets[0], ast.Name) and
                a.targets[0].id == declared and
                isinstance(a.value, ast.Name) and a.value.id in fs):
            continue
        n += 1
        new = a.value.id
        g = flatten_guards(guards_at(a, stop=f.node))
        where = '%s:%d' % (f.module.relpath, a.lineno)
        ok1 = entails(g, 'issubclass(%s, ComplexModelBase)' % new)
        ok2 = entails(g, 'not issubclass(%s, Iterable) or issubclass(%s, '
                      'Iterable)' % (new, declared))
        res.ob('R11', where, 'from_element: %s = %s %s, %s' % (
            declared, new, 'only for object classes' if ok1 else
            'for any class', 'never an Iterable for a plain Array' if ok2
            else 'also an Iterable for a plain Array'),
            'ok' if ok1 and ok2 else 'VIOLATED')
        if not ok1:
            res.finding('R11', 'XmlDocument.from_element|simple-type-'
                        'retagged', where, 'xsi:type may replace a declared '
                        'simple type by any class that inherits from it: '
                        'xsi:type="xs:date" on a DateTime member delivers a '
                        'date, xs:double on a Decimal a float, a uuid type on '
                        'Unicode a UUID object')
        if not ok2:
            res.finding('R11', 'XmlDocument.from_element|array-retagged-as-'
                        'iterable', where, 'xsi:type naming the array\'s own '
                        'type may resolve to the Iterable customization that '
                        'shares the class key: user code gets a generator '
                        'where a list is declared')
    res.floor('R11', 'class replacements in from_element', n, 1)


def rule_r12(prog, res):
    res.rule('R12', 'every byte string is decoded for a Unicode member (the '
             'empty one included), and a leaf reader that cannot cope with '
             'the kind of a document value answers with a validation fault '
             '(C10-R5)')
    i = prog.cls('spyne.protocol._inbase:InProtocolBase')
    f = i.methods.get('unicode_from_bytes')
    if f is None:
        raise AnalysisError('InProtocolBase.unicode_from_bytes', 'not found')
    decs = [c for c in calls_in(f.node) if call_name(c) == 'decode' or (
        call_name(c) in ('text_type', 'str', 'unicode') and (
            len(c.args) >= 2 or c.keywords))]
    res.floor('R12', 'decode calls in unicode_from_bytes', len(decs), 1)
    for c in decs:
        st = c
        while not isinstance(st, ast.stmt):
            st = st._parent
        guardspec.check(res, 'R12', f, st, 'the decoding of a byte string',
                        allowed=[('isinstance(value, six.binary_type)', True),
                                 ('cls_attrs.encoding is None', None),
                                 ('self.string_encoding is None', None)],
                        required=[('isinstance(value, six.binary_type)',
                                   True)],
                        key='unicode_from_bytes|decode')
    from . import c10
    from ..report import Result
    res.share('R12', 'leaf readers of the dict documents turn a value of '
              'the wrong kind into a validation fault (C10-R5)', 'C10',
              c10.rule_r5, prog, Result)


def rule_r13(prog, res):
    res.rule('R13', 'an array named by xsi:type replaces the declared one '
             'only when its items are of the same simple type (an Integer is '
             'not read where Decimal is declared, a Date not for a DateTime); '
             'the dict reader checks and reads an XmlAttribute/XmlData member '
             'as the type it wraps')
    p_ = prog.cls('spyne.protocol._base:ProtocolMixin')
    f = p_.methods.get('is_substitutable')
    if f is None:
        raise AnalysisError('ProtocolMixin.is_substitutable', 'not found')
    ps = f.params()
    both = []
    for r in walk_no_defs(f.node):
        if not isinstance(r, ast.Return) or r.value is None:
            continue
        calls = [c for c in ast.walk(r.value) if isinstance(c, ast.Call) and
                 call_name(c) == 'issubclass' and len(c.args) == 2]
        orders = {(unparse(c.args[0]), unparse(c.args[1])) for c in calls}
        if any((b, a) in orders for a, b in orders if a != b):
            atoms = guardspec.atoms_at(r, f.node)
            if any('ComplexModelBase' in t and not pol for t, pol in atoms):
                both.append(r)
    ok = bool(both)
    res.ob('R13', f.where, 'is_substitutable demands the same item type for '
           'arrays of simple items: %s' % ok, 'ok' if ok else 'VIOLATED')
    if not ok:
        res.finding('R13', 'ProtocolMixin.is_substitutable|array-of-simple-'
                    'items', f.where, 'arrays are compared through the '
                    'substitutability of their item types only: xsi:type='
                    '"integerArray" on a declared Array(Decimal) delivers '
                    'ints, "dateArray" on Array(DateTime) delivers dates')
    h = prog.cls('spyne.protocol.dictdoc.hier:HierDictDocument')
    g = h.methods.get('_from_dict_value')
    if g is None:
        raise AnalysisError('HierDictDocument._from_dict_value', 'not found')
    cparam = g.params()[3] if len(g.params()) > 3 else 'cls'
    vals = [c.lineno for c in calls_in(g.node) if call_name(c) == 'validate'
            and unparse(c.func).startswith('self.')]
    unwraps = [a for a in walk_no_defs(g.node) if isinstance(a, ast.Assign)
               and unparse(a.targets[0]) == cparam and
               unparse(a.value) == cparam + '.type' and any(
                   'XmlModifier' in t and pol
                   for t, pol in guardspec.atoms_at(a, g.node))]
    ok = bool(unwraps) and bool(vals) and min(
        a.lineno for a in unwraps) < min(vals)
    res.ob('R13', g.where, '_from_dict_value unwraps XmlAttribute/XmlData '
           'members before the kind check: %s' % ok,
           'ok' if ok else 'VIOLATED')
    if not ok:
        res.finding('R13', 'HierDictDocument._from_dict_value|modifier-not-'
                    'unwrapped', g.where, 'the kind check and the leaf '
                    'readers see the XmlAttribute wrapper class, which is no '
                    'Unicode/Integer/...: {"code": [1, 2]} is delivered to a '
                    'member declared XmlAttribute(Unicode) under soft '
                    'validation')


def rule_r14(prog, res):
    from . import c02
    from ..report import Result
    res.share('R14', 'the member table a reader validates against belongs to '
              'the class it finally builds (C02-R7)', 'C02', c02.rule_r7,
              prog, Result)


def rule_r15(prog, res):
    res.rule('R15', 'a validation message that is built with % keeps an '
             'escaped placeholder for the offending value: ValidationError '
             'formats the message once more, so request text interpolated '
             'into it beforehand is read as a format string')
    n = 0
    for fn in prog.all_functions():
        if not fn.module.name.startswith('spyne.protocol'):
            continue
        for c in calls_in(fn.node):
            if call_name(c) != 'ValidationError' or len(c.args) < 2:
                continue
            m = c.args[1]
            if not (isinstance(m, ast.BinOp) and isinstance(m.op, ast.Mod)
                    and isinstance(m.left, ast.Constant) and
                    isinstance(m.left.value, str)):
                continue
            n += 1
            ops = m.right.elts if isinstance(m.right, ast.Tuple) else [
                m.right]
            # the offending value itself, interpolated into a message that
            # keeps no escaped placeholder for it
            esc = '%%' in m.left.value
            own = isinstance(c.args[0], ast.Name) and any(
                isinstance(o, ast.Name) and o.id == c.args[0].id
                for o in ops)
            ok = esc or not own
            where = '%s:%d' % (fn.module.relpath, c.lineno)
            res.ob('R15', where, '%s: message %r %% %s' % (
                fn.qualname, m.left.value[:40], unparse(m.right)[:30]),
                'ok' if ok else 'VIOLATED')
            if not ok:
                res.finding('R15', '%s|message-preformatted|%s' % (
                    fn.qualname, m.left.value[:30]), where, 'the message is '
                    'formatted with %s before ValidationError formats it '
                    'again with the value: a "%%" in that text (a wrapper key '
                    'like "Derived%%") raises ValueError inside the '
                    'constructor, which is no Fault - the disallowed '
                    'substitution is answered with an unhandled error '
                    'instead of Client.ValidationError' % unparse(m.right)[:40])
    res.floor('R15', 'pre-formatted validation messages', n, 10)


def run(prog, res, tier):
    guard_helpers(prog)
    res.run_rule(rule_r1, prog, res)
    res.run_rule(rule_r2, prog, res)
    res.run_rule(rule_r3, prog, res)
    res.run_rule(rule_r4, prog, res)
    res.run_rule(rule_r5, prog, res)
    res.run_rule(rule_r6, prog, res)
    res.run_rule(rule_r7, prog, res)
    res.run_rule(rule_r8, prog, res)
    res.run_rule(rule_r9, prog, res)
    res.run_rule(rule_r10, prog, res)
    res.run_rule(rule_r11, prog, res)
    res.run_rule(rule_r12, prog, res)
    res.run_rule(rule_r13, prog, res)
    res.run_rule(rule_r14, prog, res)
    res.run_rule(rule_r15, prog, res)


_X = 'spyne/protocol/xml.py'
_H = 'spyne/protocol/dictdoc/hier.py'
_J = 'spyne/protocol/json.py'
_Y = 'spyne/protocol/yaml.py'
_C = 'spyne/model/complex.py'

MUTANTS = [
    Mutant('wrapper-key-interpolated-into-message', 'R15', 'fire',
           'spyne/protocol/dictdoc/hier.py',
           in_func('HierDictDocument._doc_to_object',
                   "\"Class name %%r is not registered as a subclass of %r\" %\n"
                   "                                                            "
                   "cls.get_type_name())",
                   "\"Class name %r is not registered as a subclass of %r\" %\n"
                   "                        (class_name, cls.get_type_name()))"),
           'message-preformatted'),
    Mutant('array-items-one-direction', 'R13', 'fire',
           'spyne/protocol/_base.py',
           in_func('ProtocolMixin.is_substitutable',
                   "            if not issubclass(cmember, ComplexModelBase):\n",
                   "            if False:\n"), 'array-of-simple-items'),
    Mutant('modifier-members-not-unwrapped', 'R13', 'fire', _H,
           in_func('HierDictDocument._from_dict_value',
                   "        if issubclass(cls, XmlModifier):\n",
                   "        if False:\n"), 'modifier-not-unwrapped'),
    Mutant('empty-bytes-not-decoded', 'R12', 'fire',
           'spyne/protocol/_inbase.py',
           in_func('InProtocolBase.unicode_from_bytes',
                   "if isinstance(value, six.binary_type):",
                   "if isinstance(value, six.binary_type) and len(value) > 0:"),
           'decode'),
    Mutant('xsi-type-retags-simple-types', 'R11', 'fire', _X,
           in_func('XmlDocument.from_element',
                   "                if issubclass(newclass, ComplexModelBase) "
                   "and not (",
                   "                if issubclass(newclass, ModelBase) and "
                   "not ("), 'simple-type-retagged'),
    Mutant('xsi-type-array-to-iterable', 'R11', 'fire', _X,
           in_func('XmlDocument.from_element',
                   "                                            and not "
                   "issubclass(cls, Iterable)):",
                   "                                            and "
                   "issubclass(cls, Iterable)):"),
           'array-retagged-as-iterable'),
    Mutant('xsi-type-guard-split', 'R11', 'benign', _X,
           in_func('XmlDocument.from_element',
                   "                if issubclass(newclass, ComplexModelBase) "
                   "and not (",
                   "                if not issubclass(newclass, "
                   "ComplexModelBase):\n                    pass\n"
                   "                elif not ("), None),
    Mutant('yaml-admits-dates-as-text', 'R4', 'fire', _Y,
           in_func('YamlDocument',
                   "    text_based = True\n",
                   "    text_based = True\n    VALID_UNICODE_SOURCES = "
                   "HierDictDocument.VALID_UNICODE_SOURCES + (date,)\n"),
           'VALID_UNICODE_SOURCES'),
    Mutant('bytearray-kind-check-removed', 'R4', 'fire', _H,
           in_func('HierDictDocument.validate',
                   "elif issubclass(cls, ByteArray) and not isinstance(inst,",
                   "elif issubclass(cls, ByteArray) and isinstance(inst, set) "
                   "and not isinstance(inst,"), 'bytearray-kind'),
    Mutant('variant-orig-through-inheritance', 'R5', 'fire',
           'spyne/model/_base.py',
           in_func('ModelBase._s_customize',
                   "if cls.__dict__.get('__orig__', None) is None:",
                   "if getattr(cls, '__orig__', None) is None:"),
           'inherited-orig'),
    Mutant('aux-reuses-primary-objects', 'R9', 'fire',
           'spyne/auxproc/_base.py',
           in_func('AuxProcBase.process',
                   "        server.get_in_object(ctx)\n",
                   "        p_ctx = ctx.aux.parent\n"
                   "        if p_ctx.in_error is None and p_ctx.in_object is "
                   "not None:\n"
                   "            ctx.in_object = p_ctx.in_object\n"
                   "        else:\n"
                   "            server.get_in_object(ctx)\n"),
           'foreign-context'),
    Mutant('array-members-one-level', 'R5', 'fire', 'spyne/protocol/_base.py',
           in_func('ProtocolMixin.is_substitutable',
                   "return pcls.is_substitutable(smember, cmember)",
                   "return pcls.issubclass(smember, cmember)"),
           'one-level'),
    Mutant('msgpack-entry-drops-validator', 'R8', 'fire',
           'spyne/protocol/msgpack.py',
           in_func('MessagePackRpc.deserialize',
                   "body_class, ctx.in_body_doc, self.validator)",
                   "body_class, ctx.in_body_doc)"),
           'validator-dropped'),
    Mutant('jsonrpc-entry-drops-validator', 'R8', 'fire', _J,
           in_func('_SpyneJsonRpc1.deserialize',
                   "ctx.in_body_doc, self.validator)",
                   "ctx.in_body_doc)"),
           'validator-dropped'),
    Mutant('orig-read-through-inheritance', 'R5', 'fire',
           'spyne/protocol/_base.py',
           in_func('ProtocolMixin.issubclass',
                   "suborig = sub.__dict__.get('__orig__', None)",
                   "suborig = getattr(sub, '__orig__', None)"),
           'inherited-orig'),
    Mutant('xsi-guard-without-array-members', 'R5', 'fire', _X,
           in_func('XmlDocument.from_element',
                   "if not self.is_substitutable(newclass, cls):",
                   "if not self.issubclass(newclass, cls):"),
           'array-members'),
    Mutant('array-members-inverted', 'R5', 'fire', 'spyne/protocol/_base.py',
           in_func('ProtocolMixin.is_substitutable',
                   "return pcls.is_substitutable(smember, cmember)",
                   "return pcls.is_substitutable(cmember, smember)"),
           'is_substitutable'),
    Mutant('enum-literal-by-hasattr', 'R7', 'fire', 'spyne/model/enum.py',
           in_func('EnumBase.validate_string', "and value in cls.__values__",
                   "and value is not None and hasattr(cls, value)"),
           'membership'),
    Mutant('enum-literal-in-tuple', 'R7', 'benign', 'spyne/model/enum.py',
           in_func('EnumBase.validate_string', "and value in cls.__values__",
                   "and (value in cls.__values__)"), None),
    Mutant('file-object-unvalidated', 'R8', 'fire', _H,
           in_func('HierDictDocument._from_dict_value',
                   "                inst = self._parse(cls_attrs, inst)\n"
                   "                retval = self._doc_to_object(ctx, cls, "
                   "inst, validator)",
                   "                inst = self._parse(cls_attrs, inst)\n"
                   "                retval = self._doc_to_object(ctx, cls, "
                   "inst)"), 'validator-dropped'),
    Mutant('validator-by-keyword', 'R8', 'benign', _H,
           in_func('HierDictDocument._from_dict_value',
                   "                inst = self._parse(cls_attrs, inst)\n"
                   "                retval = self._doc_to_object(ctx, cls, "
                   "inst, validator)",
                   "                inst = self._parse(cls_attrs, inst)\n"
                   "                retval = self._doc_to_object(ctx, cls, "
                   "inst, validator=validator)"), None),
    Mutant('subclass-helper-inverted', 'R5', 'fire', 'spyne/protocol/_base.py',
           in_func('ProtocolMixin.issubclass',
                   r"return issubclass\(sub if suborig is None else suborig,"
                   r"\s*cls if clsorig is None else clsorig\)",
                   "return issubclass(cls if clsorig is None else clsorig, "
                   "sub if suborig is None else suborig)", regex=True),
           'ProtocolMixin.issubclass'),
    Mutant('subclass-helper-locals', 'R5', 'benign', 'spyne/protocol/_base.py',
           in_func('ProtocolMixin.issubclass',
                   r"return issubclass\(sub if suborig is None else suborig,"
                   r"\s*cls if clsorig is None else clsorig\)",
                   "a = sub if suborig is None else suborig\n"
                   "        b = cls if clsorig is None else clsorig\n"
                   "        return issubclass(a, b)", regex=True), None),
    Mutant('xsi-type-unguarded', 'R1', 'fire', _X,
           in_func('XmlDocument.from_element',
                   r"                if not self\.is_substitutable\(newclass, cls\):"
                   r"\n(.*?)raise ValidationError\(xsi_type\)\n",
                   "", regex=True), 'newclass'),
    Mutant('xsi-type-cache-bypass', 'R1', 'fire', _X,
           in_func('XmlDocument.from_element',
                   "                newclass = ctx.app.interface.classes.get("
                   "classkey, None)\n",
                   "                newclass = self.__dict__.setdefault("
                   "'_xsi_cache', {}).get(classkey, None)\n"
                   "                if newclass is not None:\n"
                   "                    handler = self.deserialization_"
                   "handlers[newclass]\n"
                   "                    return handler(ctx, newclass, element)"
                   "\n                newclass = ctx.app.interface.classes."
                   "get(classkey, None)\n"), 'newclass'),
    Mutant('wrapper-key-registry-fallback', 'R1', 'fire', _H,
           in_func('HierDictDocument._doc_to_object',
                   r"                else:\n                    raise "
                   r"ValidationError\(class_name,\n(.*?)cls\.get_type_name\(\)"
                   r"\)\n\n                if not self\.issubclass\(subcls, "
                   r"cls\):\n(.*?)cls\.get_type_name\(\)\)\n",
                   "                else:\n"
                   "                    subcls = ctx.app.interface.classes."
                   "get(class_name, None)\n"
                   "                    if subcls is None:\n"
                   "                        raise ValidationError(class_name)"
                   "\n", regex=True), 'subcls'),
    Mutant('wrapper-key-guard-dropped', 'R1', 'fire', _H,
           in_func('HierDictDocument._doc_to_object',
                   r"                if not self\.issubclass\(subcls, cls\):\n"
                   r"(.*?)cls\.get_type_name\(\)\)\n", "", regex=True),
           'subcls'),
    Mutant('twin-builtin-issubclass', 'R1', 'benign', _H,
           in_func('HierDictDocument._doc_to_object',
                   "if not self.issubclass(subcls, cls):",
                   "if not issubclass(subcls, cls):"), ''),
    Mutant('identity-on-input-side', 'R2', 'fire', _J,
           in_func('JsonDocument.__init__',
                   "self._from_unicode_handlers[Integer] = self._ret_number",
                   "self._from_unicode_handlers[Integer] = self._ret"),
           'identity'),
    Mutant('number-kind-test-dropped', 'R2', 'fire', _Y,
           in_func('YamlDocument._ret_number',
                   "        if not isinstance(value, NUMBER_TYPES):\n"
                   "            raise ValidationError(value)\n", ""),
           '_ret_number'),
    Mutant('number-black-list', 'R10', 'fire', _Y,
           in_func('YamlDocument._ret_number',
                   "        if not isinstance(value, NUMBER_TYPES):\n",
                   "        if isinstance(value, (list, dict, six.text_type, "
                   "six.binary_type)):\n"),
           'not-a-white-list'),
    Mutant('number-white-list-widened', 'R10', 'fire',
           'spyne/protocol/msgpack.py',
           in_func(None, "NUMBER_TYPES = six.integer_types + (float, D)",
                   "NUMBER_TYPES = six.integer_types + (float, D, tuple)"),
           'not-a-white-list'),
    Mutant('integer-keeps-float', 'R10', 'fire', _J,
           in_func('JsonDocument._ret_number',
                   "        if isinstance(value, float) and issubclass(cls, "
                   "Integer):\n",
                   "        if isinstance(value, float) and issubclass(cls, "
                   "Integer) and not value.is_integer():\n"),
           'float-kept'),
    Mutant('number-white-list-inline', 'R10', 'benign', _J,
           in_func('JsonDocument._ret_number',
                   "        if not isinstance(value, NUMBER_TYPES):\n"
                   "            raise ValidationError(value)\n",
                   "        if isinstance(value, six.integer_types + (float, "
                   "D)):\n            pass\n        else:\n"
                   "            raise ValidationError(value)\n"), None),
    Mutant('anydict-kind-dropped', 'R10', 'fire', _H,
           in_func('HierDictDocument._from_dict_value',
                   "                if not (inst is None or isinstance(inst, "
                   "dict)):\n                    raise ValidationError([key, "
                   "inst])\n", ""), 'AnyDict'),
    Mutant('anydict-merged-with-any', 'R10', 'fire', _H,
           in_func('HierDictDocument._from_dict_value',
                   "            if issubclass(cls, AnyDict):\n"
                   "                if not (inst is None or isinstance(inst, "
                   "dict)):\n                    raise ValidationError([key, "
                   "inst])\n                retval = inst\n\n"
                   "            elif issubclass(cls, Any):\n",
                   "            if issubclass(cls, (Any, AnyDict)):\n"),
           'AnyDict'),
    Mutant('bool-equality-test', 'R2', 'fire', _J,
           in_func('JsonDocument._ret_bool',
                   "if value is None or isinstance(value, bool):",
                   "if value is None or value in (True, False):"),
           'equality-kind-test'),
    Mutant('instance-from-other-class', 'R3', 'fire', _C,
           in_func('ComplexModelBase.get_deserialization_instance',
                   "return cls()", "return ComplexModelBase()", count=1), ''),
    Mutant('kind-check-skips-falsy', 'R4', 'fire', _H,
           in_func('HierDictDocument.validate',
                   "if inst is None and self.get_cls_attrs(cls).nullable:",
                   "if not inst and self.get_cls_attrs(cls).nullable:"),
           'null-exemption'),
]
