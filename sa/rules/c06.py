"""C06 - the published XML Schema is truthful about the wire.  Structural
clauses only."""
import ast

from ..core import (AnalysisError, dotted, unparse, calls_in, call_name,
                    walk_no_defs, parent, ancestors, ClassInfo, FuncInfo)
from ..flow import guards_at, flatten_guards
from ..mutate import Mutant, in_func
from . import c08

ID = 'C06'
EXPLANATION = (
    'R1 facet <-> XSD tag agreement: every restriction emitter creates, under '
    'the test that reads cls.Attributes.<attr>, the XSD facet tag the fixed '
    'mapping prescribes for that attribute (gt->minExclusive, '
    'ge->minInclusive, lt->maxExclusive, le->maxInclusive, min_len->minLength, '
    'max_len->maxLength, pattern->pattern, values->enumeration, total/fraction '
    'digits), with the value of that same attribute, and decides whether to '
    'emit by comparing with the defaults of the root primitive (the '
    'restriction base may be walked up past intermediate customizations, so '
    'comparing with the immediate parent drops facets). R2 minOccurs, '
    'maxOccurs and nillable are emitted from the attributes the soft '
    'validator reads and elided only at the XSD defaults (1, 1, false). '
    'R3 the schema sequence and the XML writer enumerate members in the same '
    '(declaration) order. R4 writers stay in the advertised lexical space '
    '(C08-R5: decimal). R5 every namespace a schema refers to is imported: '
    'parent class, member type, and the type wrapped by an XmlAttribute/'
    'XmlData. Not decided: that the schema compiles in lxml, validity of '
    'emitted documents.')
ASSUMPTIONS = ['the XSD facet table', 'C05-R4 decides the strictness of the '
               'validator side of each facet']
LEVEL_TEXT = (
    'Static agreement check between the attribute read, the facet tag '
    'created and the value emitted in every restriction emitter, of the '
    'occurrence/nillable emission, and of namespace import tracking. Decides '
    'these for every emitter function; it does not compile schemas.')
LEVEL_NOTE = 'Trusted: the fixed XSD mapping; lxml behaviour is not modelled.'
TECHNIQUE = 'guard/tag/value agreement reading over the schema emitters (ast)'

FACET_TAG = {
    'gt': 'minExclusive', 'ge': 'minInclusive', 'lt': 'maxExclusive',
    'le': 'maxInclusive', 'min_len': 'minLength', 'max_len': 'maxLength',
    'pattern': 'pattern', 'total_digits': 'totalDigits',
    'fraction_digits': 'fractionDigits',
}


def emitters(prog):
    m = prog.module('spyne.interface.xml_schema.model')
    out = []
    for q, f in m.functions.items():
        if 'restriction' in q.split('.')[-1]:
            out.append(f)
    return m, out


def rule_r1(prog, res):
    res.rule('R1', 'each facet attribute is emitted as its XSD tag with its '
             'own value, compared against the root primitive\'s default')
    m, fs = emitters(prog)
    seen = {}
    n = 0
    for f in fs:
        for node in walk_no_defs(f.node):
            if not isinstance(node, ast.If):
                continue
            t = node.test
            if not (isinstance(t, ast.Compare) and len(t.ops) == 1 and
                    isinstance(t.left, ast.Attribute)):
                continue
            left = unparse(t.left)
            if not left.startswith('cls.Attributes.'):
                continue
            attr = t.left.attr
            tags = []
            values = []
            for s in node.body:
                for c in calls_in(s):
                    if call_name(c) in ('SubElement', 'Element'):
                        for a in c.args:
                            if isinstance(a, ast.Call) and call_name(a) == \
                                    'XSD' and a.args and isinstance(
                                    a.args[0], ast.Constant):
                                tags.append(a.args[0].value)
                    if call_name(c) == 'set' and len(c.args) == 2 and \
                            isinstance(c.args[0], ast.Constant) and \
                            c.args[0].value == 'value':
                        values.extend(
                            x.attr for x in ast.walk(c.args[1])
                            if isinstance(x, ast.Attribute) and
                            unparse(x.value) == 'cls.Attributes')
            if not tags:
                continue
            where = '%s:%d' % (m.relpath, node.lineno)
            right = unparse(t.comparators[0])
            if attr == 'min_len' and right == 'cls.Attributes.max_len':
                ok = tags == ['length'] and set(values) <= {'min_len',
                                                            'max_len'}
                res.ob('R1', where, '%s: min_len == max_len -> %s' % (
                    f.qualname, tags), 'ok' if ok else 'VIOLATED')
                if not ok:
                    res.finding('R1', '%s|length|%s' % (f.qualname, tags),
                                where, 'equal min/max length must be emitted '
                                'as xs:length, found %s' % tags)
                continue
            if attr not in FACET_TAG:
                res.unclass('R1', where, '%s tests %s' % (f.qualname, left))
                continue
            n += 1
            seen.setdefault(attr, []).append(f.qualname)
            want = FACET_TAG[attr]
            inst = '%s: if %s -> %s value=%s' % (f.qualname, unparse(t)[:60],
                                                 tags, values)
            ok_tag = tags == [want]
            ok_val = values == [attr] or (not values and attr == 'pattern')
            # default source: the root primitive (T / Unicode / Decimal ...),
            # never the immediate parent
            # copy-propagate a local alias of the defaults record
            rexpr = t.comparators[0]
            if isinstance(rexpr, ast.Attribute) and isinstance(
                    rexpr.value, ast.Name):
                defs = [a_.value for a_ in walk_no_defs(f.node)
                        if isinstance(a_, ast.Assign) and any(
                            unparse(x) == rexpr.value.id
                            for x in a_.targets)]
                if len(defs) == 1:
                    right = unparse(defs[0]) + '.' + rexpr.attr
            ok_def = isinstance(t.ops[0], ast.NotEq) and right.endswith(
                '.Attributes.' + attr) and '__extends__' not in right and \
                not right.startswith('cls.')
            if not ok_def and '__extends__' not in right and \
                    not right.startswith('cls.') and isinstance(
                    t.ops[0], ast.NotEq):
                res.unclass('R1', where, 'default source ' + right)
                ok_def = True
            res.ob('R1', where, inst, 'ok' if ok_tag and ok_val and ok_def
                   else 'VIOLATED')
            if not ok_tag:
                res.finding('R1', '%s|%s|tag|%s' % (f.qualname, attr, tags),
                            where, 'the %s constraint is published as %s; '
                            'XSD needs xs:%s (the validator and the schema '
                            'would disagree on boundary values)' % (
                                attr, tags, want))
            if not ok_val:
                res.finding('R1', '%s|%s|value|%s' % (f.qualname, attr,
                                                      values), where,
                            'the xs:%s facet carries the value of %s instead '
                            'of cls.Attributes.%s' % (want, values, attr))
            if not ok_def:
                res.finding('R1', '%s|%s|default-source|%s' % (f.qualname,
                                                               attr, right),
                            where, 'whether to emit xs:%s is decided by '
                            'comparing with %s; it must be the root '
                            'primitive\'s default, because the restriction '
                            'base can be an ancestor further up (a type '
                            'customized twice loses the facet)' % (want,
                                                                   right))
    res.floor('R1', 'facet emission sites', n, 9)
    families = {
        'unicode_get_restriction_tag': ('min_len', 'max_len', 'pattern'),
        '_get_range_restriction_tag': ('gt', 'ge', 'lt', 'le', 'pattern'),
    }
    for fam, attrs in sorted(families.items()):
        for attr in attrs:
            if not any(q.endswith(fam) for q in seen.get(attr, [])):
                res.ob('R1', m.relpath, '%s publishes %s' % (fam, attr),
                       'VIOLATED')
                res.finding('R1', '%s|missing-emitter|%s' % (fam, attr),
                            m.relpath, '%s no longer publishes the %s facet '
                            'although the validator enforces it: schema '
                            'validation accepts what soft validation '
                            'rejects' % (fam, attr))
    # enumeration
    f = m.functions.get('simple_get_restriction_tag')
    t = unparse(f.node)
    ok = "XSD('enumeration')" in t and 'cls.Attributes.values' in t
    res.ob('R1', f.where, 'values -> xs:enumeration', 'ok' if ok else
           'VIOLATED')
    if not ok:
        res.finding('R1', 'simple_get_restriction_tag|enumeration', f.where,
                    'the values facet is no longer published as '
                    'xs:enumeration')


def rule_r2(prog, res):
    res.rule('R2', 'minOccurs/maxOccurs/nillable are published from the '
             'validated attributes, elided only at the XSD defaults')
    m = prog.module('spyne.interface.xml_schema.model')
    f = m.functions.get('complex_add')
    if f is None:
        raise AnalysisError('complex_add', 'not found')
    want = {'minOccurs': ('a.min_occurs', '1'), 'maxOccurs': ('a.max_occurs',
                                                              '1'),
            'nillable': ('a.nillable', 'False')}
    found = {}
    for node in walk_no_defs(f.node):
        if not isinstance(node, ast.If):
            continue
        for c in [x for s in node.body for x in calls_in(s)]:
            if call_name(c) == 'set' and len(c.args) == 2 and isinstance(
                    c.args[0], ast.Constant) and c.args[0].value in want and \
                    unparse(c.func.value) == 'member':
                found[c.args[0].value] = (node, c)
    for tag, (attr, dflt) in sorted(want.items()):
        if tag not in found:
            res.ob('R2', f.where, 'complex_add never sets %s' % tag,
                   'VIOLATED')
            res.finding('R2', 'complex_add|%s|missing' % tag, f.where,
                        '%s is not published for members' % tag)
            continue
        node, c = found[tag]
        t = node.test
        where = '%s:%d' % (m.relpath, node.lineno)
        txt = unparse(t).replace(' ', '')
        ok = isinstance(t, ast.Compare) and isinstance(t.ops[0], ast.NotEq) \
            and attr in unparse(t.left) and \
            unparse(t.comparators[0]) == dflt
        # the published value derives from the same attribute
        val_ok = attr in unparse(c.args[1]) or tag == 'nillable' or any(
            isinstance(a_, ast.Assign) and attr in unparse(a_.value)
            for a_ in ast.walk(node))
        res.ob('R2', where, 'complex_add: %s set when %s' % (tag, txt),
               'ok' if ok and val_ok else 'VIOLATED')
        if not ok:
            res.finding('R2', 'complex_add|%s|guard|%s' % (tag, txt), where,
                        '%s must be published whenever %s differs from the '
                        'XSD default %s; found the test %s' % (tag, attr,
                                                               dflt, txt))
        elif not val_ok:
            res.finding('R2', 'complex_add|%s|value' % tag, where,
                        'the published %s is not derived from %s' % (tag,
                                                                    attr))


def rule_r3(prog, res):
    res.rule('R3', 'schema sequence order is the declaration order')
    m = prog.module('spyne.interface.xml_schema.model')
    f = m.functions.get('complex_add')
    loops = [n for n in walk_no_defs(f.node) if isinstance(n, ast.For) and
             'type_info' in unparse(n.iter)]
    res.floor('R3', 'member loops in complex_add', len(loops), 1)
    for lp in loops:
        it = unparse(lp.iter)
        ok = it == 'type_info.items()'
        where = '%s:%d' % (m.relpath, lp.lineno)
        res.ob('R3', where, 'complex_add iterates %s' % it, 'ok' if ok else
               'VIOLATED')
        if not ok:
            res.finding('R3', 'complex_add|member-order|%s' % it, where,
                        'schema members are enumerated through %s instead of '
                        'type_info.items(): the xs:sequence order differs '
                        'from the order the writer emits' % it)
    src = [n for n in walk_no_defs(f.node) if isinstance(n, ast.Assign) and
           unparse(n.targets[0]) == 'type_info']
    ok = any(unparse(n.value) == 'cls._type_info' for n in src)
    res.ob('R3', f.where, 'type_info = cls._type_info', 'ok' if ok else
           'VIOLATED')
    if not ok:
        res.finding('R3', 'complex_add|type-info-source', f.where,
                    'the member table of the schema is not cls._type_info')
    # members go into the sequence in loop order; parents through extension
    t = unparse(f.node)
    ok = 'sequence.append(member)' in t and "XSD('extension')" in t and \
        'extension.set(\'base\', extends.get_type_name_ns(document.interface))'\
        in t
    res.ob('R3', f.where, 'members are appended in order; the parent is the '
           'extension base', 'ok' if ok else 'VIOLATED')
    if not ok:
        res.finding('R3', 'complex_add|sequence', f.where, 'members are not '
                    'appended to the sequence in iteration order, or the '
                    'parent type is no longer the extension base')


def rule_r4(prog, res):
    from ..report import Result
    txt = ('writers stay in the advertised lexical space (C08-R5 default '
           'conversions, C08-R3 duration sign and fraction)')
    res.share('R4', txt, 'C08', c08.rule_r5, prog, Result)
    res.share('R4', txt, 'C08', c08.rule_r3, prog, Result)


def rule_r5(prog, res):
    res.rule('R5', 'every namespace a schema refers to is imported')
    itf = prog.cls('spyne.interface._base:Interface')
    f = itf.methods.get('add_class')
    adds = [c for c in calls_in(f.node) if call_name(c) == 'add' and
            unparse(c.func.value) == 'self.imports[ns]']
    sources = {}
    for c in adds:
        var = unparse(c.args[0])
        # the nearest preceding assignment of that variable
        best = None
        for n in walk_no_defs(f.node):
            if isinstance(n, ast.Assign) and unparse(n.targets[0]) == var \
                    and n.lineno < c.lineno:
                if best is None or n.lineno > best.lineno:
                    best = n
        sources[unparse(best.value) if best is not None else var] = c
    want = {
        'extends.get_namespace()': 'the parent class',
        'v.get_namespace()': 'the member type',
        'v.type.get_namespace()': 'the type wrapped by an XmlAttribute/'
                                  'XmlData member',
    }
    for src, what in sorted(want.items()):
        ok = src in sources
        res.ob('R5', f.where, 'add_class imports the namespace of %s (%s)' % (
            what, src), 'ok' if ok else 'VIOLATED')
        if not ok:
            res.finding('R5', 'Interface.add_class|import|%s' % src, f.where,
                        'the namespace of %s is no longer added to '
                        'imports[ns]: a schema that refers to a type in that '
                        'namespace does not compile' % what)
    # the wrapped type itself is registered
    ok = any(call_name(c) == 'add_class' and unparse(c.args[0]) == 'v.type'
             for c in calls_in(f.node))
    res.ob('R5', f.where, 'add_class registers the wrapped type of '
           'XmlModifier members', 'ok' if ok else 'VIOLATED')
    if not ok:
        res.finding('R5', 'Interface.add_class|wrapped-type', f.where,
                    'the type wrapped by XmlAttribute/XmlData members is not '
                    'added to the interface')


# ------------------------------------------------------------------- R6
def rule_r6(prog, res):
    res.rule('R6', 'the type\'s own binary encoding (the one the schema '
             'publishes) wins over the caller\'s suggestion in every codec')
    n = 0
    for cfq in ('spyne.protocol._outbase:OutProtocolBase',
                'spyne.protocol._inbase:InProtocolBase'):
        c = prog.cls(cfq)
        for nm, f in sorted(c.methods.items()):
            if 'suggested_encoding' not in f.params():
                continue
            asg = [a for a in walk_no_defs(f.node) if isinstance(a, ast.Assign)
                   and any(isinstance(t, ast.Name) and t.id == 'encoding'
                           for t in a.targets)]
            if not asg:
                continue
            asg.sort(key=lambda a: a.lineno)
            n += 1
            first = asg[0]
            where = '%s:%d' % (f.module.relpath, first.lineno)
            own = isinstance(first.value, ast.Attribute) and \
                first.value.attr == 'encoding'
            bad = []
            if not own:
                bad.append((first, 'the first value of encoding is %s, not '
                            'the type\'s own encoding attribute' %
                            unparse(first.value)[:40]))
            for a in asg[1:]:
                g = flatten_guards(guards_at(a, stop=f.node))
                ok = any(pol and isinstance(e, ast.Compare) and isinstance(
                    e.left, ast.Name) and e.left.id == 'encoding' and
                    isinstance(e.ops[0], ast.Is) and unparse(
                        e.comparators[0]) in ('BINARY_ENCODING_USE_DEFAULT',
                                              'None') for e, pol in g)
                if not ok:
                    bad.append((a, 'encoding = %s is not guarded by '
                                '"encoding is BINARY_ENCODING_USE_DEFAULT/'
                                'None"' % unparse(a.value)[:40]))
            res.ob('R6', where, '%s: own encoding first, %d fallback '
                   'assignment(s) all behind the use-default test' % (
                       f.qualname, len(asg) - 1),
                   'VIOLATED' if bad else 'ok')
            for a, msg in bad:
                res.finding('R6', '%s|encoding-precedence|%s' % (
                    f.qualname, unparse(a.value)[:30]),
                    '%s:%d' % (f.module.relpath, a.lineno),
                    '%s: %s; a member declared with encoding=hex is then '
                    'sent in the protocol\'s encoding (base64) although the '
                    'schema says xs:hexBinary, and the sibling reader '
                    'still expects hex' % (f.qualname, msg))
    res.floor('R6', 'codecs choosing a binary encoding', n, 8)


# ------------------------------------------------------------------- R7
TYPED_FACETS = ('values', 'default', 'gt', 'ge', 'lt', 'le', 'fixed')


def rule_r7(prog, res):
    res.rule('R7', 'typed facet values are published in the protocol\'s '
             'own text form (to_unicode), not str()')
    m = prog.module('spyne.interface.xml_schema.model')
    n = 0
    for f in m.functions.values():
        for c in calls_in(f.node):
            if not (call_name(c) == 'set' and len(c.args) == 2 and
                    isinstance(c.args[0], ast.Constant) and
                    c.args[0].value in ('value', 'default', 'fixed')):
                continue
            x = c.args[1]
            where = '%s:%d' % (m.relpath, c.lineno)
            # which facet does x carry?
            names = {t.id for t in ast.walk(x) if isinstance(t, ast.Name)}
            facet = None
            for t in ast.walk(x):
                if isinstance(t, ast.Attribute) and t.attr in TYPED_FACETS:
                    facet = t.attr
            for a in ancestors(c):
                if isinstance(a, ast.For) and isinstance(
                        a.target, ast.Name) and a.target.id in names:
                    it = unparse(a.iter)
                    if it.endswith('Attributes.values'):
                        facet = 'values'
                    elif it.endswith('__values__'):
                        facet = None
            if c.args[0].value == 'default' and facet is None:
                facet = 'default'
            if facet is None:
                continue
            n += 1
            ok = isinstance(x, ast.Call) and call_name(x) == 'to_unicode'
            # the text form is that of the type whose facet it is: the class
            # argument is the owner of <owner>.Attributes.<facet>
            if ok and len(x.args) >= 2:
                owners = {unparse(t.value.value) for t in ast.walk(x.args[1])
                          if isinstance(t, ast.Attribute) and
                          t.attr in TYPED_FACETS and isinstance(
                              t.value, ast.Attribute) and
                          t.value.attr == 'Attributes'}
                carg = unparse(x.args[0])
                if owners and carg not in owners:
                    res.ob('R7', where, '%s: %s facet of %s rendered with '
                           'the text form of %s' % (f.qualname, facet,
                                                    sorted(owners), carg),
                           'VIOLATED')
                    res.finding('R7', '%s|%s|rendered-as|%s' % (
                        f.qualname, facet, carg), where,
                        '%s renders the %s facet of %s through to_unicode(%s, '
                        '...): per-type formatting (timezone=False, '
                        'dt_format, encodings) is lost, so the published '
                        'bound differs from the literal the runtime compares '
                        'and emits' % (f.qualname, facet, sorted(owners),
                                       carg))
                    continue
            res.ob('R7', where, '%s: %s facet published as %s' % (
                f.qualname, facet, unparse(x)[:50]),
                'ok' if ok else 'VIOLATED')
            if not ok:
                res.finding('R7', '%s|%s|%s' % (f.qualname, facet,
                                                unparse(x)[:30]), where,
                            '%s publishes the %s facet as %s instead of the '
                            'protocol\'s to_unicode text: for Decimal, '
                            'DateTime, Boolean ... the schema literal differs '
                            'from the literal the runtime emits and accepts '
                            '(e.g. "2020-01-01 00:00:00" vs '
                            '"2020-01-01T00:00:00")' % (
                                f.qualname, facet, unparse(x)[:50]))
    res.floor('R7', 'typed facet values published', n, 6)


def rule_r8(prog, res):
    from . import c05
    from ..report import Result
    res.share('R8', 'minOccurs/maxOccurs published by the schema are '
              'enforced before the instance is returned (C05-R9, C05-R2)',
              'C05', c05.rule_r9, prog, Result)
    res.share('R8', 'minOccurs/maxOccurs published by the schema are '
              'enforced before the instance is returned (C05-R9, C05-R2)',
              'C05', c05.rule_r2, prog, Result)


def rule_r10(prog, res):
    from . import c15
    from ..report import Result
    res.share('R10', 'fields added later reach every reader: the flattened '
              'type info memo is cleared completely (C15-R2)', 'C15',
              c15.rule_r2, prog, Result)


def rule_r9(prog, res):
    from . import c05, c12
    from ..report import Result
    txt = ('what the validator enforces is what the schema publishes: '
           'per-protocol attribute caches (C12-R5) and derived facet caches '
           '(C05-R11)')
    res.share('R9', txt, 'C12', c12.rule_r5, prog, Result)
    res.share('R9', txt, 'C05', c05.rule_r11, prog, Result)


# ------------------------------------------------------------------ R11
_LEN_FACETS = {'max_len': 'max', 'max_str_len': 'max', 'min_len': 'min'}
_FLIP = {ast.Lt: ast.Gt, ast.Gt: ast.Lt, ast.LtE: ast.GtE, ast.GtE: ast.LtE}


def rule_r11(prog, res):
    res.rule('R11', 'length facets are inclusive bounds, as xs:maxLength / '
             'xs:minLength are in the schema')
    n = 0
    for mod in prog.modules.values():
        if not (mod.relpath.startswith('spyne/model/') or
                mod.relpath == 'spyne/protocol/_inbase.py'):
            continue
        for f in mod.functions.values():
            for cmp_ in walk_no_defs(f.node):
                if not isinstance(cmp_, ast.Compare):
                    continue
                operands = [cmp_.left] + list(cmp_.comparators)
                for i, op in enumerate(cmp_.ops):
                    l, r = operands[i], operands[i + 1]
                    rel = None
                    for a, b, flip in ((l, r, False), (r, l, True)):
                        if isinstance(b, ast.Name):
                            # a local that holds the facet
                            vs = [x.value for x in walk_no_defs(f.node)
                                  if isinstance(x, ast.Assign) and any(
                                      isinstance(t_, ast.Name) and
                                      t_.id == b.id for t_ in x.targets)]
                            if len(vs) == 1 and isinstance(
                                    vs[0], ast.Attribute):
                                b = vs[0]
                        if isinstance(a, ast.Call) and call_name(a) == 'len' \
                                and isinstance(b, ast.Attribute) and \
                                b.attr in _LEN_FACETS:
                            t = type(op)
                            if t not in _FLIP:
                                continue
                            rel = (_FLIP[t] if flip else t, b.attr)
                    if rel is None:
                        continue
                    n += 1
                    # accept context unless the test guards a raise/False
                    par = cmp_
                    while not isinstance(par, ast.stmt):
                        par = par._parent
                    reject = isinstance(par, ast.If) and any(
                        isinstance(x, ast.Raise) or (
                            isinstance(x, ast.Return) and isinstance(
                                x.value, ast.Constant) and
                            x.value.value is False) for x in par.body)
                    kind = _LEN_FACETS[rel[1]]
                    want = {('max', False): ast.LtE, ('max', True): ast.Gt,
                            ('min', False): ast.GtE, ('min', True): ast.Lt}[
                                (kind, reject)]
                    ok = rel[0] is want
                    where = '%s:%d' % (mod.relpath, cmp_.lineno)
                    res.ob('R11', where, '%s: len(...) %s %s (%s context)' % (
                        f.qualname, rel[0].__name__, rel[1],
                        'reject' if reject else 'accept'),
                        'ok' if ok else 'VIOLATED')
                    if not ok:
                        res.finding('R11', '%s|%s|bound-not-inclusive' % (
                            f.qualname, rel[1]), where, '%s compares the '
                            'length with %s using %s in a%s context: a value '
                            'whose length equals the facet is %s, while the '
                            'schema (xs:%sLength) accepts it' % (
                                f.qualname, rel[1], rel[0].__name__,
                                ' reject' if reject else 'n accept',
                                'rejected' if kind == 'max' or True else '',
                                kind))
    res.floor('R11', 'length facet comparisons', n, 8)


def rule_r12(prog, res):
    from . import c07
    from ..report import Result
    res.share('R12', 'every class is rendered into the schema (C07-R9)',
              'C07', c07.rule_r9, prog, Result)


# ------------------------------------------------------------------ R13
def rule_r13(prog, res):
    res.rule('R13', 'a global element declared for a message is typed with '
             'that message (name and type come from the same descriptor '
             'attribute)')
    x = prog.cls('spyne.interface.xml_schema._base:XmlSchema')
    f = x.methods.get('add_missing_elements_for_methods')
    if f is None:
        raise AnalysisError('XmlSchema.add_missing_elements_for_methods',
                            'not found')
    import re
    sets = sorted([c for c in calls_in(f.node) if isinstance(
        c.func, ast.Attribute) and c.func.attr == 'set' and len(c.args) == 2
        and isinstance(c.args[0], ast.Constant)], key=lambda c: c.lineno)
    assigns = sorted([a for a in walk_no_defs(f.node) if isinstance(
        a, ast.Assign) and len(a.targets) == 1 and isinstance(
            a.targets[0], ast.Name)], key=lambda a: a.lineno)

    def roots(expr_txt):
        return set(re.findall(r'\b(in_message|out_message)\b', expr_txt))
    n = 0
    for c in sets:
        if c.args[0].value != 'type':
            continue
        names = [d for d in sets if d.args[0].value == 'name' and
                 d.lineno <= c.lineno and
                 unparse(d.func.value) == unparse(c.func.value)]
        if not names:
            continue
        nm = names[-1].args[1]
        src = roots(unparse(nm))
        if isinstance(nm, ast.Name):
            prev = [a for a in assigns if a.targets[0].id == nm.id and
                    a.lineno < names[-1].lineno]
            # the assignments of the nearest group above (same message)
            if prev:
                last = roots(unparse(prev[-1].value))
                src = last
        n += 1
        tr = roots(unparse(c.args[1]))
        ok = len(src) == 1 and tr == src
        where = '%s:%d' % (f.module.relpath, c.lineno)
        res.ob('R13', where, 'element named after %s is typed with %s' % (
            sorted(src), sorted(tr)), 'ok' if ok else 'VIOLATED')
        if not ok:
            res.finding('R13', 'XmlSchema.add_missing_elements_for_methods|'
                        'name-type-mismatch|%s' % '-'.join(sorted(src)),
                        where, 'the global element named after %s is '
                        'declared with the type of %s: responses of bare '
                        'methods whose result type differs from the argument '
                        'type are invalid against the published schema' % (
                            sorted(src), sorted(tr)))
    res.floor('R13', 'typed global elements', n, 2)


def rule_r14(prog, res):
    from . import c01
    from ..report import Result
    txt = ('values that satisfy their constraints are written: presence is '
           'decided by identity with None (C01-R9); offsets keep their sign '
           '(C08-R4)')
    res.share('R14', txt, 'C01', c01.rule_r9, prog, Result)
    res.share('R14', txt, 'C08', c08.rule_r4, prog, Result)


# ------------------------------------------------------------------ R15
def _python_only_regex(frag):
    """Constructs of Python's re that are not XSD regular expressions, found
    in a literal fragment of a pattern (character classes skipped)."""
    out = []
    i, n, in_cls = 0, len(frag), False
    while i < n:
        ch = frag[i]
        if ch == '\\' and i + 1 < n:
            nxt = frag[i + 1]
            if not in_cls and nxt in 'AZbBG':
                out.append('\\' + nxt)
            if not in_cls and nxt.isdigit() and nxt != '0':
                out.append('backreference \\' + nxt)
            i += 2
            continue
        if in_cls:
            if ch == ']':
                in_cls = False
            i += 1
            continue
        if ch == '[':
            in_cls = True
            # a leading ] or ^] belongs to the class
            if frag[i + 1:i + 2] == '^':
                i += 1
            if frag[i + 1:i + 2] == ']':
                i += 1
        elif ch == '(' and frag[i + 1:i + 2] == '?':
            out.append(frag[i:i + 3])
        elif ch == '^' and (i == 0 or frag[i - 1] in '(|'):
            out.append('anchor ^')
        elif ch == '$' and (i == n - 1 or frag[i + 1] in ')|'):
            out.append('anchor $')
        elif ch == '?' and i > 0 and frag[i - 1] in '*+?}':
            out.append('lazy quantifier %s?' % frag[i - 1])
        i += 1
    return out


def rule_r15(prog, res):
    res.rule('R15', 'the lexical patterns the model layer declares are '
             'published verbatim as xs:pattern, so they stay inside the '
             'syntax XSD regular expressions share with Python')
    n_pat = 0
    for mod in prog.modules.values():
        if not mod.relpath.startswith('spyne/model/'):
            continue
        roots = []
        for node in ast.walk(mod.tree):
            if isinstance(node, ast.Call):
                for kw in node.keywords:
                    if kw.arg in ('pattern', 'unicode_pattern', 'upattern') \
                            and not (isinstance(kw.value, ast.Constant) and
                                     kw.value.value is None):
                        roots.append(kw.value)
        seen, todo, lits = set(), list(roots), []
        while todo:
            e = todo.pop()
            for x in ast.walk(e):
                if isinstance(x, ast.Constant) and isinstance(x.value, str):
                    lits.append(x)
                elif isinstance(x, ast.Name) and x.id not in seen:
                    seen.add(x.id)
                    if x.id in mod.consts:
                        todo.append(mod.consts[x.id])
                    elif x.id in mod.functions:
                        todo.extend(mod.functions[x.id].node.body)
        if roots:
            n_pat += len(roots)
        for lit in lits:
            bad = _python_only_regex(lit.value)
            where = '%s:%d' % (mod.relpath, lit.lineno)
            if bad:
                res.ob('R15', where, 'pattern fragment %r uses %s' % (
                    lit.value[:40], bad), 'VIOLATED')
                res.finding('R15', '%s|python-only-regex|%s' % (
                    mod.relpath, bad[0]), where, 'the published pattern '
                    'fragment %r uses %s, which is Python syntax: in an '
                    'xs:pattern facet anchors are literal characters and '
                    '(?...) groups are not a regular expression, so the '
                    'schema rejects every valid value or does not compile' %
                    (lit.value[:50], ', '.join(bad)))
        if lits:
            res.ob('R15', '%s:1' % mod.relpath, '%d literal fragments of %d '
                   'published patterns are in the common syntax' % (
                       len(lits), len(roots)), 'ok')
    res.floor('R15', 'published pattern declarations', n_pat, 8)


def rule_r16(prog, res):
    from . import c01, c05
    from ..report import Result
    txt = ('documents spyne emits are valid against the schema it publishes: '
           'root named after the message, text as text (C01-R14); soft '
           'validation decides patterns like the schema (C05-R4) and '
           'validates the delivered value (C05-R18); edge literals (C08-R20)')
    res.share('R16', txt, 'C01', c01.rule_r14, prog, Result)
    res.share('R16', txt, 'C05', c05.rule_r4, prog, Result)
    res.share('R16', txt, 'C05', c05.rule_r18, prog, Result)
    res.share('R16', txt, 'C08', c08.rule_r20, prog, Result)


def rule_r17(prog, res):
    res.rule('R17', 'complex_add declares a choice group at the position of '
             'its first member (where the serializer writes it) and publishes '
             'the type of an XmlData member it refers to')
    f = prog.func('spyne.interface.xml_schema.model:complex_add')
    loops = [lp for lp in walk_no_defs(f.node) if isinstance(lp, ast.For) and
             'type_info' in unparse(lp.iter)]
    res.floor('R17', 'member loops in complex_add', len(loops), 1)
    n = 0
    # locals that hold an xs:choice element
    choiceish = set()
    for _ in range(3):
        for a in walk_no_defs(f.node):
            if isinstance(a, ast.Assign):
                t = unparse(a.value)
                if "XSD('choice')" in t or 'choice_tags' in t or any(
                        isinstance(x, ast.Name) and x.id in choiceish
                        for x in ast.walk(a.value)):
                    for tg in a.targets:
                        if isinstance(tg, ast.Name) and \
                                tg.id != 'choice_tags':
                            choiceish.add(tg.id)
    for c in calls_in(f.node):
        if not (call_name(c) in ('append', 'extend', 'insert') and isinstance(
                c.func, ast.Attribute) and unparse(c.func.value) ==
                'sequence' and any(
                    'choice_tags' in unparse(a) or any(
                        isinstance(x, ast.Name) and x.id in choiceish
                        for x in ast.walk(a)) for a in c.args)):
            continue
        n += 1
        inside = any(c in list(ast.walk(lp)) for lp in loops)
        where = '%s:%d' % (f.module.relpath, c.lineno)
        res.ob('R17', where, 'complex_add attaches the choice group to the '
               'sequence %s the member loop' % (
                   'inside' if inside else 'after'),
               'ok' if inside else 'VIOLATED')
        if not inside:
            res.finding('R17', 'complex_add|choice-group-after-members',
                        where, 'the xs:choice elements are appended after '
                        'every ordinary member while XmlDocument writes '
                        'members in declaration order: a class that declares '
                        'a choice member before an ordinary one emits '
                        'documents its own schema rejects')
    res.floor('R17', 'choice group attachments', n, 1)
    m = 0
    for lp in walk_no_defs(f.node):
        if not (isinstance(lp, ast.For) and
                '_xml_tag_body_as' in unparse(lp.iter)):
            continue
        m += 1
        names = {x.id for x in ast.walk(lp.target)
                 if isinstance(x, ast.Name)}
        bases = [a for st in lp.body for a in ast.walk(st)
                 if isinstance(a, ast.Call) and call_name(a) ==
                 'get_type_name_ns']
        adds = [a for st in lp.body for a in ast.walk(st)
                if isinstance(a, ast.Call) and call_name(a) == 'add' and
                isinstance(a.func, ast.Attribute) and
                unparse(a.func.value) == 'document' and a.args and
                isinstance(a.args[0], ast.Attribute) and
                a.args[0].attr == 'type' and
                unparse(a.args[0].value) in names]
        ok = bool(adds) or not bases
        where = '%s:%d' % (f.module.relpath, lp.lineno)
        res.ob('R17', where, 'complex_add refers to the type of the XmlData '
               'member as extension base and %s it' % (
                   'publishes' if ok else 'never publishes'),
               'ok' if ok else 'VIOLATED')
        if not ok:
            res.finding('R17', 'complex_add|xmldata-type-not-published',
                        where, 'the simpleContent extension base names the '
                        'type of the XmlData member but document.add() is '
                        'never called for it (XmlData members are skipped in '
                        'the member loop): a restricted type such as '
                        'XmlData(Decimal(gt=0)) is referenced and not '
                        'defined, the schema does not compile')
    res.floor('R17', 'XmlData loops in complex_add', m, 1)


def rule_r18(prog, res):
    res.rule('R18', 'the class dictionaries that pick the schema handler of a '
             'class resolve it through the method resolution order (closest '
             'ancestor first), not base by base with the entry for object as '
             'a fallback of every plain mixin')
    c = prog.cls('spyne.util.cdict:cdict')
    f = c.methods.get('__getitem__')
    if f is None:
        raise AnalysisError('cdict.__getitem__', 'not found')
    loops = [lp for lp in walk_no_defs(f.node) if isinstance(lp, ast.For)]
    res.floor('R18', 'ancestor loops in cdict.__getitem__', len(loops), 1)
    for lp in loops:
        it = unparse(lp.iter)
        by_mro = '__mro__' in it or 'mro()' in it
        by_bases = '__bases__' in it and not by_mro
        where = '%s:%d' % (f.module.relpath, lp.lineno)
        res.ob('R18', where, 'cdict.__getitem__ walks %s' % it,
               'VIOLATED' if by_bases else 'ok')
        if by_bases:
            res.finding('R18', 'cdict.__getitem__|base-by-base', where,
                        'the lookup recurses into the direct bases (%s): the '
                        'handler tables of the schema generator have an entry '
                        'for object, so a plain Python mixin among the bases '
                        'of a model answers with that no-op and class '
                        'Item(ComplexModel, Helper) (or Helper first, '
                        'depending on the direction) gets no complexType '
                        'while its users still refer to it' % it)


def rule_r19(prog, res):
    from . import c07
    from ..report import Result
    res.share('R19', 'every schema imports the namespaces it refers to, the '
              'target namespace included (C07-R8)', 'C07', c07.rule_r8, prog,
              Result)


def rule_r20(prog, res):
    res.rule('R20', 'the pattern facet is compiled for soft validation the '
             'way it is published: no flags that change what \\d, \\w or '
             'letter case mean (the schema processor knows none of them)')
    c = prog.cls('spyne.model._base:SimpleModelAttributesMeta')
    n = 0
    for nm in ('set_pattern', 'set_unicode_pattern'):
        f = c.methods.get(nm)
        if f is None:
            continue
        for call in calls_in(f.node):
            if call_name(call) != 'compile':
                continue
            n += 1
            flags = list(call.args[1:]) + [k.value for k in call.keywords
                                           if k.arg == 'flags']
            names = {y.attr if isinstance(y, ast.Attribute) else
                     getattr(y, 'id', '') for x in flags for y in ast.walk(x)}
            bad = sorted(names & {'ASCII', 'A', 'IGNORECASE', 'I', 'VERBOSE',
                                  'X', 'LOCALE', 'L', 'DOTALL', 'S',
                                  'MULTILINE', 'M'})
            if nm == 'set_unicode_pattern':
                bad = [b for b in bad if b not in ('UNICODE', 'U')]
            where = '%s:%d' % (f.module.relpath, call.lineno)
            res.ob('R20', where, '%s compiles the pattern with flags %s' % (
                nm, sorted(names) or 'none'), 'VIOLATED' if bad else 'ok')
            if bad:
                res.finding('R20', 'SimpleModelAttributesMeta.%s|flags|%s' % (
                    nm, ','.join(bad)), where, '%s compiles the facet with '
                    're.%s while the same string is published verbatim as '
                    'xs:pattern: the schema accepts values (non-ASCII digits '
                    'or letters for \\d / \\w) that soft validation now '
                    'refuses' % (nm, bad[0]))
    res.floor('R20', 'pattern compilations in the attribute setters', n, 1)


def rule_r21(prog, res):
    from . import c16
    from ..report import Result
    res.share('R21', 'the XML writer emits inherited members under the '
              'namespace of the class that declares them, as the schema '
              'extension chain says (C16-R1)', 'C16', c16.rule_r1, prog,
              Result)


def rule_r22(prog, res):
    res.rule('R22', 'a schema imports every other namespace it refers to: '
             'the decision to import looks at the import set of that schema, '
             'never at whether the namespace has a schema of its own')
    from .. import guardspec
    itf = prog.cls('spyne.interface._base:Interface')
    n = 0
    for nm, f in sorted(itf.methods.items()):
        for c in calls_in(f.node):
            if not (call_name(c) == 'add' and isinstance(
                    c.func, ast.Attribute) and isinstance(
                    c.func.value, ast.Subscript) and unparse(
                    c.func.value.value) == 'self.imports' and c.args):
                continue
            n += 1
            st = c
            while not isinstance(st, ast.stmt):
                st = parent(st)
            own = unparse(c.func.value).replace(' ', '')
            bad = []
            for e, pol in flatten_guards(guards_at(st, stop=f.node)):
                for cmp_ in ast.walk(e):
                    if isinstance(cmp_, ast.Compare) and isinstance(
                            cmp_.ops[0], (ast.In, ast.NotIn)) and unparse(
                            cmp_.comparators[0]).replace(' ', '') == \
                            'self.imports':
                        bad.append(unparse(e))
            where = '%s:%d' % (f.module.relpath, c.lineno)
            res.ob('R22', where, 'Interface.%s adds %s to %s' % (
                nm, unparse(c.args[0]), own), 'VIOLATED' if bad else 'ok')
            if bad:
                res.finding('R22', 'Interface.%s|import-skipped-for-known-'
                            'namespace' % nm, where, 'the import of %s into '
                            '%s depends on "%s": the keys of self.imports are '
                            'the namespaces that already have a schema, so a '
                            'namespace that was seen before is never imported '
                            'and the reference to its types dangles' % (
                                unparse(c.args[0]), own, bad[0]))
    res.floor('R22', 'import registrations in Interface', n, 6)


def rule_r23(prog, res):
    from . import c05
    from ..report import Result
    res.share('R23', 'soft validation refuses an array only outside the '
              'published minOccurs/maxOccurs: inclusive bounds in every '
              'reader (C05-R25)', 'C05', c05.rule_r25, prog, Result)


def run(prog, res, tier):
    res.run_rule(rule_r1, prog, res)
    res.run_rule(rule_r2, prog, res)
    res.run_rule(rule_r3, prog, res)
    res.run_rule(rule_r4, prog, res)
    res.run_rule(rule_r5, prog, res)
    res.run_rule(rule_r6, prog, res)
    res.run_rule(rule_r7, prog, res)
    res.run_rule(rule_r8, prog, res)
    res.run_rule(rule_r9, prog, res)
    res.run_rule(rule_r10, prog, res)
    res.run_rule(rule_r11, prog, res)
    res.run_rule(rule_r12, prog, res)
    res.run_rule(rule_r13, prog, res)
    res.run_rule(rule_r14, prog, res)
    res.run_rule(rule_r15, prog, res)
    res.run_rule(rule_r16, prog, res)
    res.run_rule(rule_r17, prog, res)
    res.run_rule(rule_r18, prog, res)
    res.run_rule(rule_r19, prog, res)
    res.run_rule(rule_r20, prog, res)
    res.run_rule(rule_r21, prog, res)
    res.run_rule(rule_r22, prog, res)
    res.run_rule(rule_r23, prog, res)


_M = 'spyne/interface/xml_schema/model.py'
_I = 'spyne/interface/_base.py'

MUTANTS = [
    Mutant('message-import-skipped-for-known-namespace', 'R22', 'fire',
           'spyne/interface/_base.py',
           in_func('Interface.add_method',
                   "        if in_message_ns != self.get_tns() and \\\n",
                   "        if not (in_message_ns in self.imports) and \\\n"),
           'import-skipped-for-known-namespace'),
    Mutant('pattern-compiled-ascii', 'R20', 'fire', 'spyne/model/_base.py',
           in_func('SimpleModelAttributesMeta.set_pattern',
                   "self._pattern_re = re.compile(pattern)",
                   "self._pattern_re = re.compile(pattern, re.ASCII)"),
           'flags'),
    Mutant('cdict-base-by-base', 'R18', 'fire', 'spyne/util/cdict.py',
           in_func('cdict.__getitem__',
                   "for b in getattr(cls, '__mro__', ())[1:]:",
                   "for b in cls.__bases__:"), 'base-by-base'),
    Mutant('choice-groups-after-members', 'R17', 'fire', _M,
           in_func('complex_add',
                   "            if a.xml_choice_group not in choice_tags:\n"
                   "                sequence.append(choice_tags[a.xml_choice_"
                   "group])\n            choice_tags[a.xml_choice_group]."
                   "append(member)\n",
                   "            choice_tags[a.xml_choice_group].append(member)"
                   "\n\n    sequence.extend(choice_tags.values())\n"),
           'choice-group-after-members'),
    Mutant('xmldata-type-unpublished', 'R17', 'fire', _M,
           in_func('complex_add',
                   "            document.add(xtba_type.type, tags)\n", ""),
           'xmldata-type-not-published'),
    Mutant('uuid-pattern-anchored', 'R15', 'fire',
           'spyne/model/primitive/string.py',
           lambda src: src.replace(
               'UUID_PATTERN = "%(x)s{8}-%(x)s{4}-%(x)s{4}-%(x)s{4}-%(x)s{12}"',
               'UUID_PATTERN = "^%(x)s{8}-%(x)s{4}-%(x)s{4}-%(x)s{4}-%(x)s{12}$"'),
           'python-only-regex'),
    Mutant('mime-pattern-noncapturing-group', 'R15', 'fire',
           'spyne/model/primitive/string.py',
           lambda src: src.replace('x-(" + token', 'x-(?:" + token'),
           'python-only-regex'),
    Mutant('out-element-typed-with-in-message', 'R13', 'fire',
           'spyne/interface/xml_schema/_base.py',
           in_func('XmlSchema.add_missing_elements_for_methods',
                   "element.set('type', method.out_message \\",
                   "element.set('type', method.in_message \\"),
           'name-type-mismatch'),
    Mutant('decimal-length-exclusive', 'R11', 'fire',
           'spyne/model/primitive/number.py',
           in_func('Decimal.validate_string',
                   "len(value) <= cls.Attributes.max_str_len",
                   "len(value) < cls.Attributes.max_str_len"),
           'bound-not-inclusive'),
    Mutant('unicode-length-reject-form', 'R11', 'silent',
           'spyne/protocol/_inbase.py',
           in_func('InProtocolBase.decimal_from_unicode',
                   "len(string) > \\\n                                                     cls_attrs.max_str_len",
                   "not (len(string) <= cls_attrs.max_str_len)"),
           None),
    Mutant('range-facet-rendered-by-base', 'R7', 'fire', _M,
           in_func('Tget_range_restriction_tag',
                   "prot.to_unicode(cls, cls.Attributes.ge)",
                   "prot.to_unicode(T, cls.Attributes.ge)"), 'rendered-as'),
    Mutant('suggested-encoding-wins', 'R6', 'fire',
           'spyne/protocol/_outbase.py',
           in_func('OutProtocolBase.byte_array_to_unicode',
                   "        encoding = self.get_cls_attrs(cls).encoding\n"
                   "        if encoding is BINARY_ENCODING_USE_DEFAULT:\n",
                   "        encoding = self.get_cls_attrs(cls).encoding\n"
                   "        if suggested_encoding is not None:\n"
                   "            encoding = suggested_encoding\n"
                   "        if encoding is BINARY_ENCODING_USE_DEFAULT:\n"),
           'encoding-precedence'),
    Mutant('encoding-via-attrs-local', 'R6', 'benign',
           'spyne/protocol/_outbase.py',
           in_func('OutProtocolBase.byte_array_to_unicode',
                   "        encoding = self.get_cls_attrs(cls).encoding\n",
                   "        cls_attrs = self.get_cls_attrs(cls)\n"
                   "        encoding = cls_attrs.encoding\n"), None),
    Mutant('enumeration-by-str', 'R7', 'fire', _M,
           in_func('simple_get_restriction_tag',
                   "XmlDocument().to_unicode(cls, v)", "str(v)"), 'values'),
    Mutant('enumeration-by-shared-prot', 'R7', 'benign', _M,
           in_func('simple_get_restriction_tag',
                   "XmlDocument().to_unicode(cls, v)",
                   "_prot.to_unicode(cls, v)"), None),
    Mutant('gt-as-inclusive', 'R1', 'fire', _M,
           in_func('Tget_range_restriction_tag', "XSD('minExclusive')",
                   "XSD('minInclusive')"), 'gt'),
    Mutant('le-value-from-lt', 'R1', 'fire', _M,
           in_func('Tget_range_restriction_tag',
                   "elt.set('value', prot.to_unicode(cls, cls.Attributes.le))",
                   "elt.set('value', prot.to_unicode(cls, cls.Attributes.lt))"
                   ), 'le'),
    Mutant('min-max-length-swapped', 'R1', 'fire', _M,
           in_func('unicode_get_restriction_tag',
                   "min_l = etree.SubElement(restriction, XSD('minLength'))",
                   "min_l = etree.SubElement(restriction, XSD('maxLength'))"),
           'min_len'),
    Mutant('facets-vs-parent', 'R1', 'fire', _M,
           in_func('unicode_get_restriction_tag',
                   "if cls.Attributes.max_len != Unicode.Attributes.max_len:",
                   "if cls.Attributes.max_len != cls.__extends__.Attributes."
                   "max_len:"), 'default-source'),
    Mutant('twin-defaults-alias', 'R1', 'benign', _M,
           in_func('unicode_get_restriction_tag',
                   r"(    # length\n)(.*)",
                   lambda m_: "    U = Unicode.Attributes\n" + m_.group(1) +
                   m_.group(2).replace('Unicode.Attributes.', 'U.'),
                   regex=True), ''),
    Mutant('pattern-dropped', 'R1', 'fire', _M,
           in_func('unicode_get_restriction_tag',
                   r"    if cls\.Attributes\.pattern != Unicode\.Attributes\."
                   r"pattern:\n        pattern = etree\.SubElement\("
                   r"restriction, XSD\('pattern'\)\)\n        pattern\.set\("
                   r"'value', cls\.Attributes\.pattern\)\n", "", regex=True),
           ''),
    Mutant('min-occurs-default-zero', 'R2', 'fire', _M,
           in_func('complex_add', "if a.min_occurs != 1:",
                   "if a.min_occurs != 0:"), 'minOccurs'),
    Mutant('nillable-never-published', 'R2', 'fire', _M,
           in_func('complex_add',
                   "        if bool(a.nillable) != False: # False is the xml "
                   "schema default\n            member.set('nillable', "
                   "'true')\n", ""), 'nillable'),
    Mutant('members-sorted', 'R3', 'fire', _M,
           in_func('complex_add', "for k, v in type_info.items():",
                   "for k, v in sorted(type_info.items()):"), 'member-order'),
    Mutant('wrapped-type-ns-not-imported', 'R5', 'fire', _I,
           in_func('Interface.add_class',
                   "                    child_ns = v.type.get_namespace()\n",
                   "                    child_ns = v.get_namespace()\n"),
           'v.type.get_namespace()'),
    Mutant('parent-ns-not-imported', 'R5', 'fire', _I,
           in_func('Interface.add_class',
                   "                self.imports[ns].add(parent_ns)\n",
                   "                pass\n"), 'extends'),
]
