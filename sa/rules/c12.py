"""C12 - concurrent requests do not interfere; lazy WSDL built once, served
whole.  Lock discipline and shared-state effects, not interleavings."""
import ast

from ..core import (AnalysisError, dotted, unparse, calls_in, call_name,
                    walk_no_defs, parent, ancestors, ClassInfo, FuncInfo)
from ..flow import guards_at, flatten_guards
from ..callgraph import CallGraph
from ..mutate import Mutant, in_func
from .. import guardspec

ID = 'C12'
EXPLANATION = (
    'R1: in WsgiApplication every call of build_interface_document outside '
    'the constructor lies in a region where the instance mutex is held on all '
    'paths (with, or acquire matched by release in finally), is dominated by '
    'a re-test of the cached document made after the acquisition, and the '
    'cache is assigned after the build; Wsdl11.build_interface_document '
    'publishes the serialised document with a single store that is its last '
    'statement, and get_interface_document is a pure read of that attribute. '
    'R2: effect analysis over everything reachable (resolved call edges plus '
    'handler tables) from the WSGI callable and the ServerBase phase methods: '
    'a store to an attribute of a shared object (protocol, interface, '
    'application, transport, schema/WSDL builder, event manager, model class, '
    'module global) must be in the reasoned allow-list (idempotent memo '
    'fills, lock-guarded state). R3: an object stored into a shared cache is '
    'not mutated afterwards in the same function (publish after '
    'construction). Not decided: absence of races under all interleavings.')
ASSUMPTIONS = ['the GIL makes single dict/attribute stores atomic',
               'per-request classes (MethodContext, TransportContext, '
               'ProtocolContext, EventContext) are not shared between '
               'threads']
LEVEL_TEXT = (
    'Static lock-region, double-check and publication-order analysis of the '
    'lazy WSDL build, plus a whole-request-path effect analysis (who writes '
    'shared state) against a reasoned allow-list, plus publish-after-'
    'construction for shared caches. Decides the structural necessary '
    'conditions of non-interference; it does not explore interleavings.')
LEVEL_NOTE = ('Trusted: CPython GIL atomicity of single stores; the '
              'allow-listed memo tables are idempotent; threads share only '
              'the transport/application/protocol/interface objects.')
TECHNIQUE = ('lock-region dominance + effect analysis over the resolved call '
             'graph + publication-order check (ast)')

WSGI = 'spyne.server.wsgi:WsgiApplication'
WSDL = 'spyne.interface.wsdl.wsdl11:Wsdl11'


# ---------------------------------------------------------------- R1
def _module_locks(node):
    """Names bound to Lock()/RLock() at the top of the module of ``node``."""
    cur = node
    while getattr(cur, '_parent', None) is not None:
        cur = cur._parent
    cached = getattr(cur, '_lock_names', None)
    if cached is None:
        cached = set()
        for st in getattr(cur, 'body', []):
            if isinstance(st, ast.Assign) and isinstance(
                    st.value, ast.Call) and call_name(st.value) in (
                    'Lock', 'RLock'):
                cached |= {t.id for t in st.targets
                           if isinstance(t, ast.Name)}
        try:
            cur._lock_names = cached
        except Exception:
            pass
    return cached


def _is_lock(text, node):
    """A lock by what it is bound to, or (attributes) by its name."""
    low = text.lower()
    return 'mtx' in low or 'lock' in low or 'mutex' in low or \
        text in _module_locks(node)


def lock_regions(fnode):
    """[(lock text, set of statement nodes inside the region, acquire stmt)]
    for `with L:` and try: L.acquire() ... finally: L.release()."""
    out = []
    for n in walk_no_defs(fnode):
        if isinstance(n, ast.With):
            for item in n.items:
                t = unparse(item.context_expr)
                if _is_lock(t, n):
                    inside = set()
                    for s in n.body:
                        inside.update(ast.walk(s))
                    out.append((t, inside, n, n.body))
        if isinstance(n, ast.Try) and n.finalbody:
            rel = [c for s in n.finalbody for c in calls_in(s)
                   if call_name(c) == 'release']
            for r in rel:
                lock = unparse(r.func.value)
                # acquire inside the try body (first statement) or just before
                acq = None
                for i, s in enumerate(n.body):
                    for c in calls_in(s):
                        if call_name(c) == 'acquire' and \
                                unparse(c.func.value) == lock:
                            acq = (s, i)
                    if acq:
                        break
                body = None
                if acq is not None:
                    body = n.body[acq[1] + 1:]
                else:
                    blk = getattr(parent(n), 'body', [])
                    if n in blk:
                        i = blk.index(n)
                        if i > 0 and any(
                                call_name(c) == 'acquire' and
                                unparse(c.func.value) == lock
                                for c in calls_in(blk[i - 1])):
                            body = n.body
                if body is None:
                    continue
                inside = set()
                for s in body:
                    inside.update(ast.walk(s))
                out.append((lock, inside, n, body))
    return out


def rule_r1(prog, res):
    res.rule('R1', 'lazy WSDL build: under the lock, re-checked, published '
             'last')
    c = prog.cls(WSGI)
    init = c.methods.get('__init__')
    n_build = 0
    lock_attr = None
    if init is not None:
        for n in walk_no_defs(init.node):
            if isinstance(n, ast.Assign) and isinstance(n.value, ast.Call) \
                    and call_name(n.value) in ('Lock', 'RLock'):
                lock_attr = unparse(n.targets[0])
    if lock_attr is None:
        res.finding('R1', 'WsgiApplication.__init__|no-lock',
                    init.where if init else c.where, 'WsgiApplication does '
                    'not create an instance lock for the WSDL build')
    for f in c.methods.values():
        if f.name == '__init__':
            continue
        regions = lock_regions(f.node)
        for call in calls_in(f.node):
            if call_name(call) != 'build_interface_document':
                continue
            n_build += 1
            where = '%s:%d' % (f.module.relpath, call.lineno)
            held = [r for r in regions if call in r[1] and
                    (lock_attr is None or r[0] == lock_attr)]
            if not held:
                res.ob('R1', where, '%s: build_interface_document outside '
                       'the lock' % f.qualname, 'VIOLATED')
                res.finding('R1', '%s|build-unlocked' % f.qualname, where,
                            'build_interface_document is called without '
                            'holding %s on every path (two first ?wsdl '
                            'requests would build concurrently on the shared '
                            'builder)' % (lock_attr or 'the build lock'))
                continue
            lock, inside, node, body = held[0]
            res.ob('R1', where, '%s: build under %s' % (f.qualname, lock),
                   'ok')
            # double check: a guard, located inside the locked region, that
            # tests a cached-document expression for None, where that
            # expression was (re)loaded inside the region
            g = guards_at(call, stop=f.node)
            rechecked = False
            for e, pol in flatten_guards(g):
                if e not in inside and not any(x in inside
                                               for x in ast.walk(e)):
                    continue
                if isinstance(e, ast.Compare) and len(e.ops) == 1 and \
                        isinstance(e.ops[0], ast.Is) and pol and \
                        isinstance(e.comparators[0], ast.Constant) and \
                        e.comparators[0].value is None:
                    tested = unparse(e.left)
                    if tested.endswith('_wsdl'):
                        rechecked = True
                    else:
                        # tested local/field reloaded from the cache inside
                        # the region, before the test
                        for s in body:
                            for a in ast.walk(s):
                                if isinstance(a, ast.Assign) and any(
                                        unparse(t) == tested
                                        for t in a.targets) and \
                                        unparse(a.value).endswith('_wsdl') \
                                        and a.lineno < e.lineno:
                                    rechecked = True
            res.ob('R1', where, '%s: cached document re-tested after '
                   'acquiring the lock' % f.qualname,
                   'ok' if rechecked else 'VIOLATED')
            if not rechecked:
                res.finding('R1', '%s|no-recheck' % f.qualname, where,
                            'after acquiring the lock the cached WSDL is not '
                            're-tested (double-checked locking): a second '
                            'requester that saw None before the first build '
                            'finished rebuilds on the shared builder')
            # cache assigned after the build, inside the region
            published = False
            for s in body:
                for a in ast.walk(s):
                    if isinstance(a, ast.Assign) and any(
                            unparse(t).endswith('._wsdl') for t in a.targets) \
                            and a.lineno > call.lineno and \
                            'get_interface_document' in unparse(a.value):
                        published = True
            res.ob('R1', where, '%s: cache assigned after the build, under '
                   'the lock' % f.qualname, 'ok' if published else 'VIOLATED')
            if not published:
                res.finding('R1', '%s|cache-not-published' % f.qualname, where,
                            'the built document is not stored into the cache '
                            'after build_interface_document inside the '
                            'locked region')
            # the builder's own request takes the document it built, not a
            # second read of the cache field: the cache has writers that do
            # not hold the lock
            unlocked = [a for a in walk_no_defs(f.node)
                        if isinstance(a, ast.Assign) and any(
                            unparse(t).endswith('._wsdl') for t in a.targets)
                        and not any(a in r[1] for r in regions)]
            for s in body:
                for a in ast.walk(s):
                    if isinstance(a, ast.Assign) and a.lineno > call.lineno \
                            and isinstance(a.value, ast.Attribute) and \
                            a.value.attr == '_wsdl' and not any(
                                unparse(t).endswith('._wsdl')
                                for t in a.targets):
                        w2 = '%s:%d' % (f.module.relpath, a.lineno)
                        res.ob('R1', w2, '%s: %s after the build while %d '
                               'store(s) of the cache run without the lock'
                               % (f.qualname, unparse(a)[:50], len(unlocked)),
                               'VIOLATED' if unlocked else 'ok')
                        if unlocked:
                            res.finding('R1', '%s|built-document-read-back' %
                                        f.qualname, w2, 'after the locked '
                                        'build the request reads the shared '
                                        'cache again (%s) instead of keeping '
                                        'the document it built; the store at '
                                        'line %d writes the cache without the '
                                        'lock and can put a stale None there '
                                        'in between: the builder then answers '
                                        'without a document' % (
                                            unparse(a)[:50],
                                            unlocked[0].lineno))
    res.floor('R1', 'lazy build_interface_document call sites', n_build, 1)
    # acquire/release pairing: every acquire of the lock has its release in a
    # finally of the try that contains (or follows) it
    for f in c.methods.values():
        for call in calls_in(f.node):
            if call_name(call) == 'acquire' and lock_attr and \
                    unparse(call.func.value) == lock_attr:
                ok = any(r[0] == lock_attr for r in lock_regions(f.node))
                where = '%s:%d' % (f.module.relpath, call.lineno)
                res.ob('R1', where, '%s: acquire matched by release in '
                       'finally' % f.qualname, 'ok' if ok else 'VIOLATED')
                if not ok:
                    res.finding('R1', '%s|release-missing' % f.qualname, where,
                                'the lock is acquired but not released in a '
                                'finally clause on every path (a failing '
                                'build would leave it held forever)')
    # Wsdl11: publication
    w = prog.cls(WSDL)
    build = w.methods.get('build_interface_document')
    get = w.methods.get('get_interface_document')
    if build is None or get is None:
        raise AnalysisError('Wsdl11.build/get_interface_document',
                            'not found')
    rets = [n for n in walk_no_defs(get.node) if isinstance(n, ast.Return)]
    stmts = [x for x in get.node.body if not (
        isinstance(x, ast.Expr) and isinstance(x.value, ast.Constant))]
    pure = len(stmts) == 1 and len(rets) == 1 and stmts[0] is rets[0] and \
        isinstance(rets[0].value, ast.Attribute) and \
        dotted(rets[0].value.value) == 'self'
    attr = rets[0].value.attr if pure else None
    res.ob('R1', get.where, 'Wsdl11.get_interface_document is a pure read '
           'of self.%s' % attr, 'ok' if pure else 'VIOLATED')
    if not pure:
        res.ob('R1', get.where, 'Wsdl11.get_interface_document', 'VIOLATED')
        res.finding('R1', 'Wsdl11.get_interface_document|not-pure', get.where,
                    'get_interface_document computes or caches instead of '
                    'returning the finished document: an unlocked reader can '
                    'observe (and publish) a half-built tree')
        return
    stores = [n for n in walk_no_defs(build.node)
              if isinstance(n, (ast.Assign, ast.AugAssign)) and any(
                  isinstance(t, ast.Attribute) and t.attr == attr and
                  dotted(t.value) == 'self'
                  for t in (n.targets if isinstance(n, ast.Assign)
                            else [n.target]))]
    last = build.node.body[-1]
    ok = len(stores) == 1 and stores[0] is last
    res.ob('R1', build.where, 'Wsdl11.build_interface_document stores '
           'self.%s once, as its last statement' % attr,
           'ok' if ok else 'VIOLATED')
    if not ok:
        res.finding('R1', 'Wsdl11.build_interface_document|publication',
                    build.where, 'the serialised document (self.%s) must be '
                    'assigned exactly once, as the last statement of the '
                    'build (found %d stores; last statement is %s)' % (
                        attr, len(stores), type(last).__name__))
    else:
        v = stores[0].value
        ser = isinstance(v, ast.Call) and call_name(v) == 'tostring'
        res.ob('R1', build.where, 'published value is the serialised tree '
               '(%s)' % unparse(v)[:40], 'ok' if ser else 'unclassified')
    # no other method of the class writes it
    for f in w.methods.values():
        if f in (build,) or f.name == '__init__':
            continue
        for n in walk_no_defs(f.node):
            if isinstance(n, ast.Assign) and any(
                    isinstance(t, ast.Attribute) and t.attr == attr
                    for t in n.targets):
                res.finding('R1', '%s|writes-document' % f.qualname,
                            '%s:%d' % (f.module.relpath, n.lineno),
                            '%s also assigns self.%s' % (f.qualname, attr))


# ---------------------------------------------------------------- R2
SHARED_ROOTS = [
    'spyne.protocol._base:ProtocolMixin',
    'spyne.interface._base:Interface',
    'spyne.application:Application',
    'spyne.server._base:ServerBase',
    'spyne.interface._base:InterfaceDocumentBase',
    'spyne.interface._base:InterfaceDocuments',
    'spyne.evmgr:EventManager',
    'spyne.descriptor:MethodDescriptor',
]
MODEL_ROOT = 'spyne.model._base:ModelBase'

MUTATORS = {'append', 'extend', 'insert', 'add', 'update', 'pop', 'popitem',
            'clear', 'remove', 'discard', 'setdefault', 'sort', 'reverse',
            '__setitem__', 'appendleft'}

# (class name, attribute) -> reason.  Confirmed by reading each site.
ALLOWED = {
    ('ProtocolMixin', '_attrcache'): 'idempotent memo fill: value is a pure '
        'function of (protocol, class); published after construction (R3)',
    ('ProtocolMixin', '_sortcache'): 'idempotent memo fill, published after '
        'the list is sorted',
    ('WsgiApplication', '_wsdl'): 'lock-guarded lazy WSDL cache (R1); the '
        'unlocked refresh stores the finished bytes or None',
    ('HttpBase', '_http_patterns'): None,
}
# functions whose writes happen under a lock or at start-up only
ALLOWED_FUNCS = {
    'Wsdl11.build_interface_document': 'runs under the WSGI build lock (R1)',
}


def shared_class(prog, c, roots, model_root):
    if c is None:
        return None
    for r in roots:
        if r is not None and prog.is_subclass(c, r):
            return r.name
    if model_root is not None and prog.is_subclass(c, model_root):
        return 'ModelBase'
    return None


def self_writes(f):
    """[(attr, kind, node)] stores through the first parameter (self/cls)."""
    params = f.params()
    if not params or params[0] not in ('self', 'cls'):
        return []
    me = params[0]
    out = []

    def root_attr(t):
        # self.a / self.a[k] / self.a.b[k] -> 'a'
        cur = t
        chain = []
        while isinstance(cur, (ast.Attribute, ast.Subscript)):
            if isinstance(cur, ast.Attribute):
                chain.append(cur.attr)
            cur = cur.value
        if isinstance(cur, ast.Name) and cur.id == me and chain:
            return chain[-1]
        return None

    for n in walk_no_defs(f.node):
        tgts = []
        if isinstance(n, ast.Assign):
            for t in n.targets:
                tgts.extend(t.elts if isinstance(t, ast.Tuple) else [t])
        elif isinstance(n, ast.AugAssign):
            tgts = [n.target]
        elif isinstance(n, ast.Delete):
            tgts = n.targets
        for t in tgts:
            a = root_attr(t)
            if a is not None:
                out.append((a, 'store', n))
        if isinstance(n, ast.Call) and isinstance(n.func, ast.Attribute) and \
                n.func.attr in MUTATORS:
            a = root_attr(n.func.value)
            if a is not None:
                out.append((a, n.func.attr, n))
    return out


def rule_r2(prog, res, tier):
    res.rule('R2', 'the request path writes shared objects only through '
             'allow-listed memo tables / lock-guarded state')
    cg = CallGraph(prog)
    roots = [prog.cls(r, required=False) for r in SHARED_ROOTS]
    model_root = prog.cls(MODEL_ROOT, required=False)
    entry = []
    c = prog.cls(WSGI)
    for nm in ('__call__', 'handle_rpc', 'handle_error', 'handle_wsdl_request',
               'generate_contexts', 'get_in_object', 'get_out_object',
               'get_out_string', 'get_out_string_pull', 'finalize_context'):
        m = prog.find_method(c, nm)
        if m is not None and m not in entry:
            entry.append(m)
    app = prog.cls('spyne.application:Application')
    for nm in ('process_request', 'call_wrapper'):
        entry.append(prog.find_method(app, nm))
    # protocol phase methods of every protocol class (dynamic dispatch
    # through app.in_protocol / out_protocol) and every handler registered in
    # a protocol constructor's tables
    proto = prog.cls('spyne.protocol._base:ProtocolMixin')
    phase = ('create_in_document', 'decompose_incoming_envelope',
             'generate_method_contexts', 'deserialize', 'serialize',
             'create_out_string', 'validate_body', 'validate_document',
             'get_call_handles', 'get_cls_attrs', 'sort_fields',
             'get_polymorphic_target', 'from_element', 'to_parent')
    skip_pkgs = ('spyne/protocol/cloth', 'spyne/protocol/html',
                 'spyne/protocol/csv') if tier == 'quick' else ()
    for k in prog.subclasses(proto):
        if any(k.module.relpath.startswith(p) for p in skip_pkgs):
            continue
        for nm in phase:
            m = k.methods.get(nm)
            if m is not None and m not in entry:
                entry.append(m)
        init = k.methods.get('__init__')
        if init is not None:
            for n in ast.walk(init.node):
                if isinstance(n, ast.Attribute) and isinstance(
                        n.ctx, ast.Load) and dotted(n.value) == 'self' and \
                        not isinstance(parent(n), ast.Call):
                    m = prog.find_method(k, n.attr)
                    if m is not None and m not in entry and \
                            m.name != '__init__':
                        entry.append(m)
    entry = [e for e in entry if e is not None]

    def stop(f):
        # start-up only code reached through weak/constructor edges
        return f.name in ('__init__', '__new__', 'set_app', 'set_validator',
                          'reinitialize', 'appinit') or \
            f.qualname in ALLOWED_FUNCS

    seen = cg.reachable(entry, strong_only=True, stop=stop)
    res.count('request_path_functions', len(seen))
    n_writes = 0
    for f in sorted(seen, key=lambda x: (x.module.relpath, x.node.lineno)):
        if stop(f):
            continue
        cls = cg.static_class(f)
        sc = shared_class(prog, cls, roots, model_root)
        # module globals
        for n in walk_no_defs(f.node):
            if isinstance(n, ast.Global):
                for nm in n.names:
                    key = (f.module.name, nm)
                    where = '%s:%d' % (f.module.relpath, n.lineno)
                    if nm == '_LAST_GC_RUN':
                        res.ob('R2', where, '%s writes global %s '
                               '[allowed: GC timestamp, any value is fine]' %
                               (f.qualname, nm), 'ok')
                    else:
                        res.ob('R2', where, '%s writes global %s' % (
                            f.qualname, nm), 'VIOLATED')
                        res.finding('R2', '%s|global|%s' % (f.qualname, nm),
                                    where, 'request-path function %s (%s) '
                                    'writes module global %s' % (
                                        f.qualname, cg.path_to(seen, f)[:200],
                                        nm))
        if sc is None:
            continue
        for attr, kind, node in self_writes(f):
            n_writes += 1
            where = '%s:%d' % (f.module.relpath, node.lineno)
            inst = '%s.%s %s self.%s' % (cls.name, f.name, kind, attr)
            allowed = None
            for k in prog.mro(cls):
                nm = k.name if isinstance(k, ClassInfo) else str(k)
                if (nm, attr) in ALLOWED:
                    allowed = ALLOWED[(nm, attr)] or 'allow-listed'
            # under a lock?
            locked = any(node in r[1] for r in lock_regions(f.node))
            if allowed:
                res.ob('R2', where, inst + ' [allowed: %s]' % allowed[:60],
                       'ok')
            elif locked:
                res.ob('R2', where, inst + ' [under a lock]', 'ok')
            else:
                res.ob('R2', where, inst, 'VIOLATED')
                res.finding('R2', '%s.%s|%s|%s' % (cls.name, f.name, kind,
                                                   attr), where,
                            'request-path method %s.%s writes shared state '
                            'self.%s (%s) without a lock; reached via %s' % (
                                cls.name, f.name, attr, kind,
                                cg.path_to(seen, f)[:240]))
    # writes that reach a shared object through another receiver
    # (ctx.app.x = ..., ctx.descriptor.x[...] = ..., cls.Attributes.x = ...
    # in a model classmethod, self.app.interface.cache.update(...))
    from ..ownership import mutation_sites, chain
    SHARED_LINKS = ('app', 'interface', 'in_protocol', 'out_protocol',
                    'descriptor', 'Attributes', 'service_class',
                    'event_manager', 'docs', 'wsdl11', 'xml_schema')
    for f in sorted(seen, key=lambda x: (x.module.relpath, x.node.lineno)):
        if stop(f):
            continue
        for st in mutation_sites(f.node):
            root, path = chain(st.base)
            if root is None:
                continue
            links = [p_ for p_ in path if p_ in SHARED_LINKS]
            is_cls_write = root == 'cls' and f.params()[:1] == ['cls'] and \
                shared_class(prog, cg.static_class(f), roots,
                             model_root) == 'ModelBase'
            if not links and not is_cls_write:
                continue
            if root == 'self' and not links:
                continue
            n_writes += 1
            where = '%s:%d' % (f.module.relpath, st.node.lineno)
            locked = any(st.node in r[1] for r in lock_regions(f.node))
            inst = '%s writes %s (%s)' % (f.qualname, st.what[:50], st.kind)
            if locked:
                res.ob('R2', where, inst + ' [under a lock]', 'ok')
                continue
            res.ob('R2', where, inst, 'VIOLATED')
            res.finding('R2', '%s|%s|%s' % (f.qualname, st.kind.split(':')[0],
                                            unparse(st.base)[:40]), where,
                        'request-path function %s writes %s, an object shared '
                        'by all requests (reached through %s), without a '
                        'lock; path: %s' % (
                            f.qualname, st.what[:60],
                            '.'.join([root] + links) if links else 'the model '
                            'class', cg.path_to(seen, f)[:200]))
    res.count('shared_writes_examined', n_writes)
    res.floor('R2', 'request-path functions', len(seen), 150)
    res.floor('R2', 'shared writes examined', n_writes, 3)
    # memoize: check-lock-check
    memo = prog.cls('spyne.util.memo:memoize', required=False)
    if memo is not None:
        f = memo.methods.get('__call__')
        if f is not None:
            stores = [n for n in walk_no_defs(f.node) if isinstance(
                n, ast.Assign) and 'self.memo[' in unparse(n.targets[0])]
            for s in stores:
                locked = any(s in r[1] for r in lock_regions(f.node))
                g = flatten_guards(guards_at(s, stop=f.node))
                rechecked = len([1 for e, pol in g if 'in self.memo' in
                                 unparse(e)]) >= 2
                where = '%s:%d' % (f.module.relpath, s.lineno)
                ok = locked and rechecked
                res.ob('R2', where, 'memoize.__call__: memo fill under the '
                       'lock, re-checked', 'ok' if ok else 'VIOLATED')
                if not ok:
                    res.finding('R2', 'memoize.__call__|%s' % (
                        'unlocked' if not locked else 'no-recheck'), where,
                        'the memo table is filled %s' % (
                            'outside its lock' if not locked else
                            'without re-testing the key under the lock (the '
                            'function may run twice and return different '
                            'objects to racing callers)'))


# ---------------------------------------------------------------- R3
def rule_r3(prog, res):
    res.rule('R3', 'objects are published into shared caches only after '
             'they are complete')
    n = 0
    proto = prog.cls('spyne.protocol._base:ProtocolMixin')
    caches = ('_attrcache', '_sortcache')
    for k in prog.subclasses(proto):
        for f in k.methods.values():
            for node in walk_no_defs(f.node):
                if not isinstance(node, ast.Assign):
                    continue
                pub = [t for t in node.targets if isinstance(t, ast.Subscript)
                       and isinstance(t.value, ast.Attribute) and
                       t.value.attr in caches]
                names = {t.id for t in node.targets if isinstance(t, ast.Name)}
                if not pub:
                    # x = self._cache.setdefault(key, obj) publishes obj (and
                    # x is that object or the one already there)
                    v = node.value
                    if isinstance(v, ast.Call) and call_name(v) == \
                            'setdefault' and isinstance(
                            v.func, ast.Attribute) and isinstance(
                            v.func.value, ast.Attribute) and \
                            v.func.value.attr in caches and len(v.args) == 2:
                        pub = [v.func.value]
                        if isinstance(v.args[1], ast.Name):
                            names.add(v.args[1].id)
                    else:
                        continue
                n += 1
                # the published object: other targets of a chained
                # assignment, or the value when it is a name
                if isinstance(node.value, ast.Name):
                    names.add(node.value.id)
                where = '%s:%d' % (f.module.relpath, node.lineno)
                bad = None
                for later in walk_no_defs(f.node):
                    if getattr(later, 'lineno', 0) <= node.lineno:
                        continue
                    if isinstance(later, ast.Call) and isinstance(
                            later.func, ast.Attribute) and \
                            later.func.attr in MUTATORS and isinstance(
                            later.func.value, ast.Name) and \
                            later.func.value.id in names:
                        bad = later
                    if isinstance(later, (ast.Assign, ast.AugAssign)):
                        tg = later.targets if isinstance(later, ast.Assign) \
                            else [later.target]
                        for t in tg:
                            if isinstance(t, ast.Subscript) and isinstance(
                                    t.value, ast.Name) and \
                                    t.value.id in names:
                                bad = later
                inst = '%s: %s published' % (f.qualname, unparse(pub[0]))
                if bad is not None:
                    res.ob('R3', where, inst + ' then mutated', 'VIOLATED')
                    res.finding('R3', '%s|%s|mutated-after-publish' % (
                        f.qualname, unparse(pub[0].value)), where,
                        'the object stored into the shared cache %s is '
                        'mutated afterwards (%s, line %d): a concurrent '
                        'request can read the incomplete entry' % (
                            unparse(pub[0].value), unparse(bad)[:50],
                            bad.lineno))
                else:
                    res.ob('R3', where, inst + ' after its last mutation',
                           'ok')
    res.floor('R3', 'cache publications', n, 2)


# ------------------------------------------------------------------- R4
def rule_r4(prog, res):
    res.rule('R4', 'the class-keyed handler cache is filled with a single '
             'store of the final answer per lookup')
    from ..flow import SeqFlow, RETURN
    c = prog.cls('spyne.util.cdict:cdict')
    f = c.methods.get('__getitem__')
    if f is None:
        raise AnalysisError('cdict.__getitem__', 'not found')

    def on_stmt(st):
        if isinstance(st, ast.Assign) and any(
                isinstance(t, ast.Subscript) and unparse(t.value) == 'self'
                for t in st.targets):
            return ['STORE']
        if isinstance(st, ast.Expr) and isinstance(st.value, ast.Call) and \
                call_name(st.value) in ('__setitem__', 'setdefault',
                                        'update') and 'self' in unparse(
                st.value):
            return ['STORE']
        return None
    seqs = SeqFlow(lambda call: ((), 'KeyError' if call_name(call) ==
                                 '__getitem__' else False), on_stmt=on_stmt,
                   loop_unroll=2).run(f.node)
    allq = set()
    for k, v in seqs.items():
        allq |= v
    most = max([q.count('STORE') for q in allq] or [0])
    stores = sum(1 for st in ast.walk(f.node) if on_stmt(st))
    res.floor('R4', 'cache stores in cdict.__getitem__', stores, 1)
    ok = most <= 1
    res.ob('R4', f.where, 'cdict.__getitem__: at most %d cache store(s) on '
           'any of %d paths' % (most, len(allq)), 'ok' if ok else 'VIOLATED',
           nontrivial=True)
    if not ok:
        res.finding('R4', 'cdict.__getitem__|multiple-stores', f.where,
                    'a lookup stores more than one value under the same '
                    'class key before it returns (once per base class): a '
                    'concurrent request reading the handler table between '
                    'the stores takes the handler of the wrong base class '
                    'for that type')


# ------------------------------------------------------------------- R5
CONTAINER_CALLS = ('dict', 'list', 'set', 'WeakKeyDictionary', 'odict',
                   'OrderedDict', 'defaultdict', 'deque', 'oset', 'TypeInfo')


def _fresh_container(v):
    if isinstance(v, (ast.Dict, ast.List, ast.Set)):
        return True
    return isinstance(v, ast.Call) and call_name(v) in CONTAINER_CALLS and \
        isinstance(v.func, ast.Name)


def rule_r5(prog, res):
    res.rule('R5', 'memo tables belong to one protocol instance and '
             'per-request state to one context: created fresh in __init__, '
             'never at class or module level')
    n = 0
    proto = prog.cls('spyne.protocol._base:ProtocolMixin')
    init = proto.methods.get('__init__')
    if init is None:
        raise AnalysisError('ProtocolMixin.__init__', 'not found')
    for cache in ('_attrcache', '_sortcache'):
        n += 1
        stores = [a for a in walk_no_defs(init.node) if isinstance(
            a, ast.Assign) and any(unparse(t) == 'self.' + cache
                                   for t in a.targets)]
        cls_level = [a for a in proto.node.body if isinstance(a, ast.Assign)
                     and any(isinstance(t, ast.Name) and t.id == cache
                             for t in a.targets)]
        ok = len(stores) == 1 and _fresh_container(stores[0].value) and \
            not cls_level
        where = '%s:%d' % (init.module.relpath, (stores or cls_level or
                                                 [init.node])[0].lineno)
        res.ob('R5', where, 'ProtocolMixin.%s: %s' % (
            cache, 'fresh per instance (%s)' % unparse(stores[0].value)
            if ok else 'class level: %s / __init__: %s' % (
                [unparse(a.value)[:30] for a in cls_level],
                [unparse(a.value)[:40] for a in stores])),
            'ok' if ok else 'VIOLATED')
        if not ok:
            res.finding('R5', 'ProtocolMixin|%s|shared' % cache, where,
                        'the memo table %s is not a fresh container created '
                        'in ProtocolMixin.__init__ (%s): protocol instances '
                        'share it, so attributes resolved with one '
                        'instance\'s per-protocol overrides (prot_attrs, '
                        'validator-specific facets, field order) are served '
                        'to the others, depending on which request came '
                        'first' % (cache, 'class-level ' + unparse(
                            cls_level[0].value)[:40] if cls_level else
                            'assigned from ' + (unparse(
                                stores[0].value)[:40] if stores else
                                'nothing')))
    # per-request context classes: no mutable container at class level
    roots = [prog.cls('spyne.context:TransportContext', required=False),
             prog.cls('spyne.context:MethodContext', required=False),
             prog.cls('spyne.context:ProtocolContext', required=False),
             prog.cls('spyne.context:EventContext', required=False)]
    seen = set()
    for r in roots:
        if r is None:
            continue
        for k in [r] + list(prog.subclasses(r, strict=True)):
            if k.fq in seen or '.test.' in k.module.name:
                continue
            seen.add(k.fq)
            n += 1
            bad = [a for a in k.node.body if isinstance(a, ast.Assign) and
                   _fresh_container(a.value)]
            where = '%s:%d' % (k.module.relpath, k.node.lineno)
            res.ob('R5', where, '%s: %d mutable container(s) at class level'
                   % (k.name, len(bad)), 'VIOLATED' if bad else 'ok')
            for a in bad:
                res.finding('R5', '%s|class-level-state|%s' % (
                    k.name, unparse(a.targets[0])),
                    '%s:%d' % (k.module.relpath, a.lineno),
                    '%s.%s is a mutable container defined on the class: '
                    'every request context writes into the same object, so '
                    'headers/state set for one response show up in '
                    'concurrent and later ones' % (
                        k.name, unparse(a.targets[0])))
    res.floor('R5', 'memo tables and context classes examined', n, 6)


# ------------------------------------------------------------------- R6
def rule_r6(prog, res):
    res.rule('R6', 'the build lock is taken unconditionally (a timed or '
             'non-blocking acquire whose result is ignored is no lock); '
             'transports keep no mutable state on the class')
    n = 0
    w = prog.cls('spyne.server.wsgi:WsgiApplication')
    for f in w.methods.values():
        for c in calls_in(f.node):
            if call_name(c) != 'acquire' or 'mtx' not in unparse(
                    c.func).lower() and 'lock' not in unparse(c.func).lower():
                continue
            n += 1
            timed = bool(c.args) or bool(c.keywords)
            p_ = parent(c)
            tested = not isinstance(p_, ast.Expr)
            ok = not timed or tested
            where = '%s:%d' % (f.module.relpath, c.lineno)
            res.ob('R6', where, '%s: %s%s' % (f.qualname, unparse(c)[:60],
                                              ' (result used)' if tested
                                              else ''),
                   'ok' if ok else 'VIOLATED')
            if not ok:
                res.finding('R6', '%s|acquire-unchecked|%s' % (
                    f.qualname, unparse(c)[:40]), where,
                    '%s takes the build lock with %s and ignores the result: '
                    'when the wait times out the thread enters the critical '
                    'section without the lock, builds the document '
                    'concurrently on the same Wsdl11 state and releases a '
                    'lock it does not hold' % (f.qualname, unparse(c)[:50]))
    # `with lock:` counts as an unconditional acquire
    for f in w.methods.values():
        for node in walk_no_defs(f.node):
            if isinstance(node, ast.With) and any(
                    _is_lock(unparse(i.context_expr), node)
                    for i in node.items):
                n += 1
    res.floor('R6', 'acquisitions of the build lock', n, 1)
    # class-level mutable containers on transports
    sb = prog.cls('spyne.server._base:ServerBase')
    k = 0
    for c in [sb] + list(prog.subclasses(sb, strict=True)):
        if '.test.' in c.module.name or 'twisted' in c.module.name or \
                'django' in c.module.name or 'pyramid' in c.module.name:
            continue
        k += 1
        bad = [a for a in c.node.body if isinstance(a, ast.Assign) and
               _fresh_container(a.value)]
        res.ob('R6', '%s:%d' % (c.module.relpath, c.node.lineno),
               '%s: %d mutable container(s) at class level' % (c.name,
                                                               len(bad)),
               'VIOLATED' if bad else 'ok')
        for a in bad:
            res.finding('R6', '%s|class-level-state|%s' % (
                c.name, unparse(a.targets[0])),
                '%s:%d' % (c.module.relpath, a.lineno),
                '%s.%s is a mutable container on the class: every transport '
                'instance of the process adds to the same object, so '
                'patterns/state registered for one application are seen by '
                'the others' % (c.name, unparse(a.targets[0])))
    res.floor('R6', 'transport classes examined', k, 3)


# ------------------------------------------------------------------- R7
def rule_r7(prog, res):
    res.rule('R7', 'the verdict on a request is taken from values of that '
             'request: the schema validator\'s return value, not the error '
             'log of the shared schema object; decoders are per request '
             '(C02-R12); caches are keyed by the class itself (C15-R9)')
    x = prog.cls('spyne.protocol.xml:XmlDocument')
    cands = [m for k, m in x.methods.items() if k.endswith('validate_lxml')]
    if not cands:
        raise AnalysisError('XmlDocument.__validate_lxml', 'not found')
    f = cands[0]
    raises = [r for r in walk_no_defs(f.node) if isinstance(r, ast.Raise)]
    res.floor('R7', 'rejections in __validate_lxml', len(raises), 1)
    results = {a.targets[0].id for a in walk_no_defs(f.node)
               if isinstance(a, ast.Assign) and len(a.targets) == 1 and
               isinstance(a.targets[0], ast.Name) and isinstance(
                   a.value, ast.Call) and call_name(a.value) == 'validate'}
    for r in raises:
        # a raise in the handler of the validate() call itself speaks about
        # this call's exception
        p_ = r
        own = False
        while p_ is not None and p_ is not f.node:
            par = getattr(p_, '_parent', None)
            if isinstance(p_, ast.ExceptHandler) and isinstance(
                    par, ast.Try) and any(
                    isinstance(c, ast.Call) and call_name(c) == 'validate'
                    for st in par.body for c in ast.walk(st)):
                own = True
            p_ = par
        if own:
            res.ob('R7', '%s:%d' % (f.module.relpath, r.lineno),
                   '%s rejects from the exception of its own validate() '
                   'call' % f.qualname, 'ok')
            continue
        atoms = guardspec.atoms_at(r, f.node)
        shared = [t for t, _ in atoms if 'self.' in t]
        local = [t for t, _ in atoms if any(
            nm in [y.id for y in ast.walk(ast.parse(t, mode='eval'))
                   if isinstance(y, ast.Name)] for nm in results)]
        ok = bool(local) and not shared
        where = '%s:%d' % (f.module.relpath, r.lineno)
        res.ob('R7', where, '%s rejects under %s' % (f.qualname, [
            t for t, _ in atoms]), 'ok' if ok else 'VIOLATED')
        if not ok:
            res.finding('R7', 'XmlDocument.__validate_lxml|shared-verdict',
                        where, 'the request is rejected according to %s, '
                        'state of the schema object all request threads '
                        'share (lxml clears and refills its error log on '
                        'every validate()): a valid request is answered with '
                        'another caller\'s SchemaValidationError, or an '
                        'invalid one passes, depending on the interleaving' %
                        (shared or 'no value of this call'))
    from . import c02, c15
    from ..report import Result
    res.share('R7', 'decoders are per request (C02-R12)', 'C02',
              c02.rule_r12, prog, Result)
    res.share('R7', 'caches are keyed by the class itself (C15-R9)', 'C15',
              c15.rule_r9, prog, Result)


def _lock_names(mod):
    """Module-level names bound to a threading lock."""
    out = set()
    for nm, v in mod.consts.items():
        if isinstance(v, ast.Call) and call_name(v) in ('Lock', 'RLock'):
            out.add(nm)
    return out


def _enclosing_lock(node, stop, locks):
    p_ = getattr(node, '_parent', None)
    while p_ is not None and p_ is not stop:
        if isinstance(p_, ast.With) and any(
                unparse(it.context_expr) in locks or
                _is_lock(unparse(it.context_expr).split('.')[-1], p_)
                for it in p_.items):
            return p_
        p_ = getattr(p_, '_parent', None)
    return None


def rule_r8(prog, res):
    res.rule('R8', 'state of objects all request threads share is read in '
             'the critical section that wrote it: the error log of the shared '
             'schema with its validate() call, the lazy set_app() of a shared '
             'out protocol under a re-checked lock; namespace prefixes are '
             'handed out when the interface is built')
    x = prog.cls('spyne.protocol.xml:XmlDocument')
    cands = [m for k, m in x.methods.items() if k.endswith('validate_lxml')]
    if not cands:
        raise AnalysisError('XmlDocument.__validate_lxml', 'not found')
    f = cands[0]
    locks = _lock_names(f.module)
    vals = [c for c in calls_in(f.node) if call_name(c) in (
        'validate', 'assertValid', 'assert_')]
    res.floor('R8', 'validate() calls in __validate_lxml', len(vals), 1)
    for c in vals:
        lk = _enclosing_lock(c, f.node, locks)
        where = '%s:%d' % (f.module.relpath, c.lineno)
        res.ob('R8', where, '%s calls %s %s' % (
            f.qualname, unparse(c.func), 'under the validation lock' if lk
            is not None else 'outside the validation lock'),
            'ok' if lk is not None else 'VIOLATED')
        if lk is None:
            res.finding('R8', 'XmlDocument.__validate_lxml|validate-outside-'
                        'lock', where, 'a validate() call on the shared '
                        'schema runs outside the lock: every validate() '
                        'clears and refills the shared error log, so it can '
                        'wipe or replace the entry another request is about '
                        'to read under the lock (faultstring None, or '
                        'somebody else\'s error)')
    reads = [a for a in walk_no_defs(f.node) if isinstance(a, ast.Attribute)
             and a.attr == 'error_log' and unparse(a.value).startswith(
                 'self.')]
    for a in reads:
        w_ = _enclosing_lock(a, f.node, locks)
        ok = w_ is not None and any(
            c in list(ast.walk(w_)) for c in vals)
        where = '%s:%d' % (f.module.relpath, a.lineno)
        res.ob('R8', where, '%s reads %s %s' % (
            f.qualname, unparse(a), 'in the locked section of its validate()'
            if ok else 'outside the section that filled it'),
            'ok' if ok else 'VIOLATED')
        if not ok:
            res.finding('R8', 'XmlDocument.__validate_lxml|shared-error-log',
                        where, 'the fault text is read from %s after '
                        'validate() returned, without a lock spanning both: '
                        'the schema object is shared by all request threads '
                        'and lxml clears and refills the log on every '
                        'validate(), so a caller gets the message of another '
                        'request\'s document or the text None' % unparse(a))
    # lazy binding of a shared out protocol
    n = 0
    for cfq in ('spyne.context:MethodContext',
                'spyne.server.http:HttpMethodContext'):
        c = prog.cls(cfq)
        for m in c.methods.values():
            for call in calls_in(m.node):
                if call_name(call) != 'set_app' or not isinstance(
                        call.func, ast.Attribute):
                    continue
                n += 1
                lk = _enclosing_lock(call, m.node, _lock_names(m.module))
                rechecked = False
                if lk is not None:
                    from ..flow import guards_at, flatten_guards
                    inner = flatten_guards(guards_at(call, stop=lk))
                    rechecked = any(
                        unparse(e).endswith('.app is None') and pol
                        for e, pol in inner)
                ok = lk is not None and rechecked
                where = '%s:%d' % (m.module.relpath, call.lineno)
                res.ob('R8', where, '%s binds the out protocol %s' % (
                    m.qualname, 'under a lock, re-checking inside' if ok else
                    'with an unguarded check-then-act'),
                    'ok' if ok else 'VIOLATED')
                if not ok:
                    res.finding('R8', '%s|unguarded-lazy-set_app' %
                                m.qualname, where, '%s tests <protocol>.app '
                                'is None and then calls set_app() without a '
                                'lock that is re-checked inside: two first '
                                'requests that switch to the same shared out '
                                'protocol both see None, the second set_app() '
                                'asserts and that caller gets a Server fault'
                                % m.qualname)
    res.floor('R8', 'lazy set_app() calls in the method contexts', n, 1)
    i = prog.cls('spyne.interface._base:Interface')
    pop = i.methods.get('populate_interface')
    addc = i.methods.get('add_class')
    if pop is None or addc is None:
        raise AnalysisError('Interface.populate_interface/add_class',
                            'not found')
    eager = False
    for lp in walk_no_defs(pop.node):
        if isinstance(lp, ast.For) and 'self.classes' in unparse(lp.iter):
            names = {y.id for y in ast.walk(lp.target)
                     if isinstance(y, ast.Name)}
            for call in ast.walk(lp):
                if isinstance(call, ast.Call) and call_name(call) == \
                        'get_namespace_prefix' and call.args and any(
                            isinstance(y, ast.Name) and y.id in names
                            for y in ast.walk(call.args[0])):
                    from ..flow import guards_at, flatten_guards
                    if not flatten_guards(guards_at(call, stop=pop.node)):
                        eager = True
    for call in calls_in(addc.node):
        if call_name(call) == 'get_namespace_prefix':
            from ..flow import guards_at, flatten_guards
            g = [unparse(e) for e, _ in flatten_guards(
                guards_at(call, stop=addc.node))]
            if all('has_class' in t for t in g):
                eager = True
    res.ob('R8', pop.where, 'Interface gives every class namespace its '
           'prefix %s' % ('while it is built' if eager else 'on first use'),
           'ok' if eager else 'VIOLATED')
    if not eager:
        res.finding('R8', 'Interface|lazy-prefix-allocation', pop.where,
                    'namespace prefixes are only allocated when a schema '
                    'build or a response first needs them: when the first '
                    '?wsdl races with a polymorphic response the numbering '
                    '(s0, s1, ...) follows the interleaving, so the cached '
                    'WSDL and the response are bytes that no sequential '
                    'order produces')


def rule_r9(prog, res):
    from . import c07
    from ..report import Result
    res.share('R9', 'the prefix allocator\'s locked re-check probes the map '
              'that is keyed by namespace (C07-R4)', 'C07', c07.rule_r4, prog,
              Result)


def rule_r10(prog, res):
    res.rule('R10', 'the memoizers return on every path (a thread that finds '
             'the entry filled after waiting for the lock gets the entry, '
             'not None) and keep what they cache in self.memo only, the dict '
             'the invalidations clear')
    m = prog.module('spyne.util.memo')
    from ..flow import always_exits
    n = 0
    for c in m.classes.values():
        f = c.methods.get('__call__')
        if f is None or f.cls is not c or not c.name.startswith('memoize'):
            continue
        n += 1
        ok = always_exits(f.node.body)
        res.ob('R10', f.where, '%s.__call__ %s' % (
            c.name, 'returns on every path' if ok else
            'can fall off its end'), 'ok' if ok else 'VIOLATED')
        if not ok:
            res.finding('R10', '%s.__call__|falls-off' % c.name, f.where,
                        '%s.__call__ has a path without a return: the '
                        'caller gets None (get_flat_type_info: '
                        'AttributeError out of the request) when another '
                        'thread filled the entry while it waited for the '
                        'lock' % c.name)
        # cached state
        tainted = {}
        called = {id(c_.func) for c_ in ast.walk(f.node)
                  if isinstance(c_, ast.Call)}
        for a in walk_no_defs(f.node):
            if isinstance(a, ast.Assign):
                for y in ast.walk(a.value):
                    if isinstance(y, ast.Attribute) and id(y) not in called \
                            and unparse(y.value) == 'self' and y.attr not in (
                                'memo', 'func', 'lock'):
                        for t in a.targets:
                            if isinstance(t, ast.Name):
                                tainted[t.id] = y.attr
        for r in walk_no_defs(f.node):
            if not isinstance(r, ast.Return) or r.value is None:
                continue
            srcs = [y.attr for y in ast.walk(r.value) if isinstance(
                y, ast.Attribute) and id(y) not in called and
                unparse(y.value) == 'self' and
                y.attr not in ('memo', 'func', 'lock')]
            srcs += [tainted[y.id] for y in ast.walk(r.value)
                     if isinstance(y, ast.Name) and y.id in tainted]
            where = '%s:%d' % (m.relpath, r.lineno)
            res.ob('R10', where, '%s.__call__ returns %s' % (
                c.name, unparse(r.value)[:40]),
                'VIOLATED' if srcs else 'ok')
            if srcs:
                res.finding('R10', '%s.__call__|cache-outside-memo|%s' % (
                    c.name, srcs[0]), where, '%s.__call__ answers from '
                    'self.%s: callers invalidate with <method>.memo.clear(), '
                    'which does not reach it, so a class keeps its old flat '
                    'type info after append_field/insert_field' % (
                        c.name, srcs[0]))
    res.floor('R10', 'memoizer __call__ methods', n, 2)


def run(prog, res, tier):
    res.run_rule(rule_r1, prog, res)
    res.run_rule(rule_r2, prog, res, tier)
    res.run_rule(rule_r3, prog, res)
    res.run_rule(rule_r4, prog, res)
    res.run_rule(rule_r5, prog, res)
    res.run_rule(rule_r6, prog, res)
    res.run_rule(rule_r7, prog, res)
    res.run_rule(rule_r8, prog, res)
    res.run_rule(rule_r9, prog, res)
    res.run_rule(rule_r10, prog, res)


_W = 'spyne/server/wsgi.py'
_D = 'spyne/interface/wsdl/wsdl11.py'
_P = 'spyne/protocol/_base.py'
_M = 'spyne/util/memo.py'

MUTANTS = [
    Mutant('built-wsdl-read-back-from-cache', 'R1', 'fire',
           'spyne/server/wsgi.py',
           in_func('WsgiApplication.handle_wsdl_request',
                   "                    ctx.transport.wsdl = self._wsdl = \\\n"
                   "                                        self.doc.wsdl11."
                   "get_interface_document()\n",
                   "                    self._wsdl = self.doc.wsdl11."
                   "get_interface_document()\n"
                   "                    ctx.transport.wsdl = self._wsdl\n"),
           'built-document-read-back'),
    Mutant('memoizer-falls-off-after-lock', 'R10', 'fire', _M,
           in_func('memoize_ignore_none.__call__',
                   "                    return value\n"
                   "        return self.memo.get(key)",
                   "                    return value"), 'falls-off'),
    Mutant('validate-fast-path-outside-lock', 'R8', 'fire',
           'spyne/protocol/xml.py',
           in_func('XmlDocument.__validate_lxml',
                   "        with _validation_lock:\n",
                   "        self.validation_schema.validate(payload)\n"
                   "        with _validation_lock:\n"),
           'validate-outside-lock'),
    Mutant('error-log-read-after-unlock', 'R8', 'fire',
           'spyne/protocol/xml.py',
           in_func('XmlDocument.__validate_lxml',
                   "            last_error = self.validation_schema.error_log"
                   ".last_error\n\n",
                   "\n        last_error = self.validation_schema.error_log."
                   "last_error\n"), 'shared-error-log'),
    Mutant('validation-unlocked', 'R8', 'fire', 'spyne/protocol/xml.py',
           in_func('XmlDocument.__validate_lxml',
                   "        with _validation_lock:\n", "        if True:\n"),
           'shared-error-log'),
    Mutant('bind-without-lock', 'R8', 'fire', 'spyne/context.py',
           in_func('MethodContext._bind_out_protocol',
                   "            with _protocol_bind_lock:\n",
                   "            if True:\n"), 'unguarded-lazy-set_app'),
    Mutant('bind-without-recheck', 'R8', 'fire', 'spyne/context.py',
           in_func('MethodContext._bind_out_protocol',
                   "            with _protocol_bind_lock:\n"
                   "                if self._out_protocol.app is None:\n",
                   "            with _protocol_bind_lock:\n"
                   "                if True:\n"), 'unguarded-lazy-set_app'),
    Mutant('prefixes-on-first-use', 'R8', 'fire', 'spyne/interface/_base.py',
           in_func('Interface.populate_interface',
                   "        for cls in self.classes.values():\n"
                   "            self.get_namespace_prefix(cls.get_namespace())"
                   "\n", ""), 'lazy-prefix-allocation'),
    Mutant('prefixes-for-some-classes', 'R8', 'fire',
           'spyne/interface/_base.py',
           in_func('Interface.populate_interface',
                   "        for cls in self.classes.values():\n"
                   "            self.get_namespace_prefix(cls.get_namespace())"
                   "\n",
                   "        for cls in self.classes.values():\n"
                   "            if issubclass(cls, ComplexModelBase):\n"
                   "                self.get_namespace_prefix(cls."
                   "get_namespace())\n"), 'lazy-prefix-allocation'),
    Mutant('verdict-from-shared-error-log', 'R7', 'fire',
           'spyne/protocol/xml.py',
           in_func('XmlDocument.__validate_lxml', "if ret == False:",
                   "if self.validation_schema.error_log.last_error is not "
                   "None:"), 'shared-verdict'),
    Mutant('build-lock-with-timeout', 'R6', 'fire', _W,
           in_func('WsgiApplication.handle_wsdl_request',
                   "self._mtx_build_interface_document.acquire()",
                   "self._mtx_build_interface_document.acquire(timeout=30)"),
           'acquire-unchecked'),
    Mutant('http-patterns-on-class', 'R6', 'fire', 'spyne/server/http.py',
           lambda src: src.replace("    SLASHPER = '/%s'\n",
                                   "    SLASHPER = '/%s'\n"
                                   "    _http_patterns = set()\n", 1),
           'class-level-state'),
    Mutant('attrcache-on-class', 'R5', 'fire', _P,
           in_func('ProtocolMixin.__init__',
                   "        self._attrcache = WeakKeyDictionary()\n",
                   "        self._attrcache = type(self)._shared_attrcache\n"),
           '_attrcache'),
    Mutant('attrcache-plain-dict', 'R5', 'benign', _P,
           in_func('ProtocolMixin.__init__',
                   "        self._attrcache = WeakKeyDictionary()\n",
                   "        self._attrcache = dict()\n"), None),
    Mutant('resp-headers-on-class', 'R5', 'fire', 'spyne/server/http.py',
           in_func('HttpTransportContext.__init__',
                   "        self.resp_headers = {}\n",
                   "        self.resp_headers = self.DEFAULT_HEADERS\n"),
           None) if False else
    Mutant('sortcache-published-before-sort', 'R3', 'fire', _P,
           in_func('ProtocolMixin.sort_fields',
                   "        indexes = {}\n",
                   "        items = self._sortcache.setdefault(cls, items)\n"
                   "        indexes = {}\n"), 'mutated-after-publish'),
    Mutant('cdict-intermediate-stores', 'R4', 'fire', 'spyne/util/cdict.py',
           in_func('cdict.__getitem__',
                   "                self[cls] = retval\n"
                   "                return retval\n",
                   "                self[cls] = retval\n"),
           'multiple-stores'),
    Mutant('cdict-store-via-dict', 'R4', 'benign', 'spyne/util/cdict.py',
           in_func('cdict.__getitem__', "self[cls] = retval",
                   "dict.__setitem__(self, cls, retval)"), None),
    Mutant('no-recheck-with', 'R1', 'fire', _W,
           in_func('WsgiApplication.handle_wsdl_request',
                   r"            try:\n                self\._mtx_build_"
                   r"interface_document\.acquire\(\)\n\n"
                   r"                ctx\.transport\.wsdl = self\._wsdl\n\n"
                   r"                if ctx\.transport\.wsdl is None:\n"
                   r"                    self\.doc\.wsdl11\.build_interface_"
                   r"document\(url\)\n(.*?)get_interface_document\(\)\n",
                   "            try:\n"
                   "                with self._mtx_build_interface_document:\n"
                   "                    self.doc.wsdl11.build_interface_"
                   "document(url)\n"
                   "                    ctx.transport.wsdl = self._wsdl = "
                   "self.doc.wsdl11.get_interface_document()\n"
                   "                self._mtx_build_interface_document."
                   "acquire()\n", regex=True), 'no-recheck'),
    Mutant('build-before-acquire', 'R1', 'fire', _W,
           in_func('WsgiApplication.handle_wsdl_request',
                   "            try:\n                self._mtx_build_"
                   "interface_document.acquire()\n",
                   "            try:\n                self.doc.wsdl11."
                   "build_interface_document(url)\n                self."
                   "_mtx_build_interface_document.acquire()\n"),
           'build-unlocked'),
    Mutant('recheck-dropped', 'R1', 'fire', _W,
           in_func('WsgiApplication.handle_wsdl_request',
                   "                if ctx.transport.wsdl is None:\n"
                   "                    self.doc.wsdl11.build_interface_"
                   "document(url)",
                   "                if True:\n"
                   "                    self.doc.wsdl11.build_interface_"
                   "document(url)"), 'no-recheck'),
    Mutant('lazy-serialisation', 'R1', 'fire', _D,
           in_func('Wsdl11.get_interface_document',
                   "        return self.__wsdl",
                   "        if self.__wsdl is None and self.root_tree is not "
                   "None:\n            self.__wsdl = etree.tostring("
                   "self.root_tree)\n        return self.__wsdl"),
           'not-pure'),
    Mutant('publish-before-bindings', 'R1', 'fire', _D,
           in_func('Wsdl11.build_interface_document',
                   "        cb_binding = None\n",
                   "        self.__wsdl = etree.tostring(self.root_tree)\n"
                   "        cb_binding = None\n"), 'publication'),
    Mutant('twin-with-lock', 'R1', 'benign', _W,
           in_func('WsgiApplication.handle_wsdl_request',
                   r"            try:\n                self\._mtx_build_"
                   r"interface_document\.acquire\(\)\n\n"
                   r"                ctx\.transport\.wsdl = self\._wsdl\n\n"
                   r"                if ctx\.transport\.wsdl is None:\n"
                   r"                    self\.doc\.wsdl11\.build_interface_"
                   r"document\(url\)\n(.*?)get_interface_document\(\)\n",
                   "            try:\n"
                   "                with self._mtx_build_interface_document:\n"
                   "                    ctx.transport.wsdl = self._wsdl\n"
                   "                    if ctx.transport.wsdl is None:\n"
                   "                        self.doc.wsdl11.build_interface_"
                   "document(url)\n"
                   "                        ctx.transport.wsdl = self._wsdl ="
                   " self.doc.wsdl11.get_interface_document()\n"
                   "                self._mtx_build_interface_document."
                   "acquire()\n", regex=True), ''),
    Mutant('per-request-state-on-protocol', 'R2', 'fire',
           'spyne/protocol/xml.py',
           in_func('XmlDocument.decompose_incoming_envelope',
                   "        ctx.in_body_doc = ctx.in_document\n",
                   "        ctx.in_body_doc = ctx.in_document\n"
                   "        self.last_body_doc = ctx.in_body_doc\n"),
           'last_body_doc'),
    Mutant('per-request-state-on-transport', 'R2', 'fire', _W,
           in_func('WsgiApplication.handle_rpc',
                   "        p_ctx.active = True\n",
                   "        p_ctx.active = True\n"
                   "        self.current_ctx = p_ctx\n"), 'current_ctx'),
    Mutant('per-request-state-on-descriptor', 'R2', 'fire',
           'spyne/application.py',
           in_func('Application.process_request',
                   "            ctx.fire_event('method_call')\n",
                   "            ctx.fire_event('method_call')\n"
                   "            ctx.descriptor.last_ctx = ctx\n"), 'ctx.descriptor'),
    Mutant('per-request-state-on-interface', 'R2', 'fire',
           'spyne/protocol/_base.py',
           in_func('ProtocolMixin.get_call_handles',
                   "        name = ctx.method_request_string\n",
                   "        name = ctx.method_request_string\n"
                   "        self.app.interface.method_id_map['_last'] = name\n"
                   ), 'method_id_map'),
    Mutant('memo-unlocked', 'R2', 'fire', _M,
           in_func('memoize.__call__',
                   r"            with self\.lock:\n(.*?)return value",
                   "            if True:\n"
                   "                if not key in self.memo:\n"
                   "                    value = self.func(*args, **kwargs)\n"
                   "                    self.memo[key] = value\n"
                   "                    return value", regex=True), 'memoize'),
    Mutant('attrcache-published-early', 'R3', 'fire', _P,
           in_func('ProtocolMixin.get_cls_attrs',
                   r"        attr = DefaultAttrDict\(\[(.*?)\n\n        "
                   r"self\._attrcache\[cls\] = attr\n",
                   r"        attr = self._attrcache[cls] = DefaultAttrDict([\1"
                   "\n", regex=True), '_attrcache'),
    Mutant('sortcache-published-early', 'R3', 'fire', _P,
           in_func('ProtocolMixin.sort_fields',
                   r"        items\.sort\(key=lambda x: indexes\[x\[0\]\]\)\n"
                   r"        self\._sortcache\[cls\] = items\n",
                   "        self._sortcache[cls] = items\n"
                   "        items.sort(key=lambda x: indexes[x[0]])\n",
                   regex=True), '_sortcache'),
]
