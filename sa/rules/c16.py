"""C16 - inheritance and polymorphism preserve the runtime class.
Structural clauses only."""
import ast

from ..core import (AnalysisError, dotted, unparse, calls_in, call_name,
                    walk_no_defs, parent, ancestors, ClassInfo, FuncInfo)
from ..flow import guards_at, flatten_guards
from ..mutate import Mutant, in_func
from .. import guardspec

ID = 'C16'
EXPLANATION = (
    'R1 parents first: the flattening of fields and the XML member writer '
    'recurse into __extends__ before they use the class\'s own _type_info, '
    'and the XML writer qualifies inherited members with the namespace of '
    'the class that declares them. R2 the polymorphic class switch is taken '
    'exactly when the protocol is polymorphic and the instance is an '
    'instance of the declared class (transitively, by isinstance - not by '
    'the direct-children registry); the first exit returns the declared '
    'class. R3 the type marker and its resolver build the same registry key '
    'format. R4 registration: a non-customized subclass registers itself in '
    'its base\'s _subclasses and the transitive get_subclasses memo is '
    'cleared completely whenever the registry changes. R5 the reader\'s '
    'subclass test normalises customized variants (ProtocolMixin.issubclass), '
    'because declared classes are often customized variants of the base. '
    'Not decided: that an emitted xsi:type prefix is declared in the emitted '
    'document, field equality after reconstruction.')
ASSUMPTIONS = ['isinstance/issubclass relate classes transitively']
LEVEL_TEXT = (
    'Static ordering, dominance and key-format checks over the '
    'inheritance/polymorphism mechanisms. Decides structural necessary '
    'conditions for every path of the anchored functions; it does not '
    'rebuild objects.')
LEVEL_NOTE = 'Trusted: Python class semantics; memoize decorators cache per argument.'
TECHNIQUE = ('statement-order, dominating-guard (with entailment) and '
             'format-literal agreement checks (ast)')


def rule_r1(prog, res):
    res.rule('R1', 'ancestors\' fields come first, under their own namespace')
    m = prog.module('spyne.model.complex')
    f = m.functions.get('_get_flat_type_info')
    if f is None:
        raise AnalysisError('_get_flat_type_info', 'not found')
    rec = [c for c in calls_in(f.node) if call_name(c) == '_get_flat_type_info']
    upd = [c for c in calls_in(f.node) if call_name(c) == 'update' and
           'cls._type_info' in unparse(c)]
    ok = bool(rec) and bool(upd) and min(c.lineno for c in rec) < \
        min(c.lineno for c in upd) and 'parent' in unparse(rec[0]) or (
            bool(rec) and '__extends__' in unparse(rec[0]))
    res.ob('R1', f.where, '_get_flat_type_info recurses into the parent '
           'before adding own fields', 'ok' if ok else 'VIOLATED')
    if not ok:
        res.finding('R1', '_get_flat_type_info|order', f.where,
                    'own fields are added before (or without) the parent\'s: '
                    'ancestors\' fields no longer come first')
    # the recursion is conditional on a parent and uses update (own fields
    # override same-named parent fields, never the reverse)
    x = prog.cls('spyne.protocol.xml:XmlDocument')
    g = x.methods.get('_get_members_etree')
    if g is None:
        raise AnalysisError('XmlDocument._get_members_etree', 'not found')
    rec = [c for c in calls_in(g.node) if call_name(c) == '_get_members_etree']
    own = [n for n in walk_no_defs(g.node) if isinstance(n, ast.For) and
           'cls._type_info' in unparse(n.iter)]
    flat = [n for n in walk_no_defs(g.node) if isinstance(n, ast.For) and
            'get_flat_type_info' in unparse(n.iter)]
    if flat:
        res.ob('R1', g.where, '_get_members_etree iterates the flattened '
               'type info', 'VIOLATED')
        res.finding('R1', 'XmlDocument._get_members_etree|flattened',
                    g.where, 'the XML member writer iterates '
                    'get_flat_type_info(cls): inherited members are emitted '
                    'under the namespace of the most derived class instead of '
                    'the class that declares them, so the document is not an '
                    'instance of the published schema')
    else:
        ok = bool(rec) and bool(own) and rec[0].lineno < own[0].lineno and \
            'parent_cls' in unparse(rec[0])
        res.ob('R1', g.where, '_get_members_etree recurses into __extends__ '
               'before own members', 'ok' if ok else 'VIOLATED')
        if not ok:
            res.finding('R1', 'XmlDocument._get_members_etree|order', g.where,
                        'the XML member writer does not emit the parent\'s '
                        'members first')
        # namespace of each member: the declaring class (cls of this level)
        ns = [n for n in walk_no_defs(g.node) if isinstance(n, ast.Assign) and
              unparse(n.targets[0]) == 'sub_ns' and isinstance(n.value,
                                                               ast.Call)]
        ok = any(unparse(n.value) == 'cls.get_namespace()' for n in ns)
        res.ob('R1', g.where, 'members default to the namespace of the class '
               'of this level', 'ok' if ok else 'VIOLATED')
        if not ok:
            res.finding('R1', 'XmlDocument._get_members_etree|namespace',
                        g.where, 'member elements are not qualified with '
                        'cls.get_namespace() of the declaring class')


def rule_r2(prog, res):
    res.rule('R2', 'the polymorphic switch is guarded by polymorphic and '
             'isinstance, nothing narrower')
    p = prog.cls('spyne.protocol._base:ProtocolMixin')
    f = p.methods.get('get_polymorphic_target')
    if f is None:
        raise AnalysisError('ProtocolMixin.get_polymorphic_target',
                            'not found')
    rets = sorted([r for r in walk_no_defs(f.node) if isinstance(r,
                                                                 ast.Return)],
                  key=lambda r: r.lineno)
    n = 0
    for r in rets:
        v = r.value
        if not (isinstance(v, ast.Tuple) and len(v.elts) == 2 and isinstance(
                v.elts[1], ast.Constant)):
            res.unclass('R2', f.where, 'return ' + unparse(v)[:40])
            continue
        n += 1
        g = flatten_guards(guards_at(r, stop=f.node))
        texts = [(unparse(e), pol) for e, pol in g]
        where = '%s:%d' % (f.module.relpath, r.lineno)
        if v.elts[1].value is True:
            poly = any(t == 'self.polymorphic' and pol for t, pol in texts)
            inst = any(t.startswith('isinstance(inst,') and pol
                       for t, pol in texts)
            # copy-propagate locals used in the guards
            local_src = {}
            for a_ in walk_no_defs(f.node):
                if isinstance(a_, ast.Assign) and isinstance(
                        a_.targets[0], ast.Name):
                    local_src.setdefault(a_.targets[0].id, []).append(
                        unparse(a_.value))
            narrow = []
            for e, pol in g:
                t = unparse(e)
                srcs = [t] + [v_ for x in ast.walk(e)
                              if isinstance(x, ast.Name)
                              for v_ in local_src.get(x.id, [])]
                if any('_subclasses' in v_ or 'get_subclasses' in v_
                       for v_ in srcs):
                    narrow.append(t)
            ok = poly and inst and not narrow
            res.ob('R2', where, 'switch to %s under %s' % (
                unparse(v.elts[0]), [t for t, pol in texts if pol][:4]),
                'ok' if ok else 'VIOLATED')
            if not poly:
                res.finding('R2', 'ProtocolMixin.get_polymorphic_target|'
                            'not-polymorphic', where, 'a class switch is '
                            'possible although self.polymorphic is false')
            if not inst:
                res.finding('R2', 'ProtocolMixin.get_polymorphic_target|'
                            'no-isinstance', where, 'a class switch is not '
                            'guarded by isinstance(inst, declared class)')
            if narrow:
                res.finding('R2', 'ProtocolMixin.get_polymorphic_target|'
                            'direct-children-only', where, 'the class switch '
                            'is additionally restricted by %s: _subclasses '
                            'lists direct children only, so an instance two '
                            'levels below the declared class is written as '
                            'the declared class' % narrow[0][:60])
        else:
            ok = unparse(v.elts[0]) == 'cls'
            res.ob('R2', where, 'no switch: returns %s' % unparse(v.elts[0]),
                   'ok' if ok else 'VIOLATED')
            if not ok:
                res.finding('R2', 'ProtocolMixin.get_polymorphic_target|'
                            'wrong-default', where, 'when no switch happens '
                            'the declared class must be returned, found %s' %
                            unparse(v.elts[0]))
    res.floor('R2', 'returns of get_polymorphic_target', n, 4)
    # writers consult it
    for cfq, nm in (('spyne.protocol.xml:XmlDocument', 'to_parent'),
                    ('spyne.protocol.dictdoc.hier:HierDictDocument',
                     '_to_dict_value')):
        c = prog.cls(cfq)
        g = c.methods.get(nm)
        if g is None:
            continue
        ok = any(call_name(x) == 'get_polymorphic_target'
                 for x in calls_in(g.node))
        res.ob('R2', g.where, '%s.%s consults get_polymorphic_target' % (
            c.name, nm), 'ok' if ok else 'VIOLATED')
        if not ok:
            res.finding('R2', '%s.%s|no-polymorphic-target' % (c.name, nm),
                        g.where, '%s no longer asks get_polymorphic_target '
                        'which class to write' % nm)


def rule_r3(prog, res):
    res.rule('R3', 'type marker writer, registry and resolver agree on the '
             'key format')
    itf = prog.cls('spyne.interface._base:Interface')
    ac = itf.methods.get('add_class')
    fmt_w = None
    for n in walk_no_defs(ac.node):
        if isinstance(n, ast.Assign) and unparse(n.targets[0]) == \
                'class_key' and isinstance(n.value, ast.BinOp) and \
                isinstance(n.value.left, ast.Constant):
            fmt_w = (n.value.left.value, unparse(n.value.right))
    x = prog.cls('spyne.protocol.xml:XmlDocument')
    fe = x.methods.get('from_element')
    fmt_r = None
    for n in walk_no_defs(fe.node):
        if isinstance(n, ast.Assign) and unparse(n.targets[0]) == 'classkey' \
                and isinstance(n.value, ast.BinOp) and isinstance(
                n.value.left, ast.Constant):
            fmt_r = (n.value.left.value, unparse(n.value.right))
    ok = fmt_w is not None and fmt_r is not None and fmt_w[0] == fmt_r[0] \
        == '{%s}%s' and fmt_w[1] == '(ns, tn)' and fmt_r[1] == '(ns, objtype)'
    res.ob('R3', ac.where, 'registry key %r, resolver key %r' % (fmt_w,
                                                                 fmt_r),
           'ok' if ok else 'VIOLATED')
    if not ok:
        res.finding('R3', 'class-key-format|%r|%r' % (fmt_w, fmt_r), fe.where,
                    'Interface.add_class registers classes under %r but '
                    'from_element looks xsi:type up under %r' % (fmt_w,
                                                                 fmt_r))
    stores = [n for n in walk_no_defs(ac.node) if isinstance(n, ast.Assign)
              and unparse(n.targets[0]) == 'self.classes[class_key]']
    res.ob('R3', ac.where, 'add_class stores the class under class_key',
           'ok' if stores else 'VIOLATED')
    if not stores:
        res.finding('R3', 'Interface.add_class|no-store', ac.where,
                    'add_class no longer registers the class under its key')
    # the writer's marker: prefix of the class namespace + type name
    mb = prog.cls('spyne.model._base:ModelBase')
    tnn = mb.methods.get('get_type_name_ns')
    if tnn is not None:
        t = unparse(tnn.node)
        ok = 'get_namespace_prefix' in t and 'get_type_name' in t
        res.ob('R3', tnn.where, 'get_type_name_ns = prefix(namespace):'
               'type name', 'ok' if ok else 'VIOLATED')
        if not ok:
            res.finding('R3', 'ModelBase.get_type_name_ns|format', tnn.where,
                        'the xsi:type marker is no longer built from the '
                        'namespace prefix and the type name')
    # the prefix is resolved against the element's nsmap
    t = unparse(fe.node)
    ok = 'element.nsmap.get(prefix)' in t.replace(' ', '')
    res.ob('R3', fe.where, 'from_element resolves the marker prefix in the '
           'element\'s nsmap', 'ok' if ok else 'VIOLATED')
    if not ok:
        res.finding('R3', 'XmlDocument.from_element|prefix', fe.where,
                    'the xsi:type prefix is not resolved through '
                    'element.nsmap')


def rule_r4(prog, res):
    res.rule('R4', 'subclasses register with their base and the transitive '
             'memo is cleared completely')
    m = prog.module('spyne.model.complex')
    init = m.functions.get('ComplexModelMeta.__init__')
    t = unparse(init.node)
    ok = 'eattr._subclasses.append(self)' in t or \
        '_subclasses.append(self)' in t
    g = None
    for n in walk_no_defs(init.node):
        if isinstance(n, ast.Call) and call_name(n) == 'append' and \
                '_subclasses' in unparse(n.func):
            g = flatten_guards(guards_at(n, stop=init.node))
    cond = g is not None and any('__orig__ is None' in unparse(e) and pol
                                 for e, pol in g) and any(
        'extends is not None' in unparse(e) and pol for e, pol in g)
    res.ob('R4', init.where, 'ComplexModelMeta.__init__ appends non-'
           'customized subclasses to extends.Attributes._subclasses',
           'ok' if ok and cond else 'VIOLATED')
    if not (ok and cond):
        res.finding('R4', 'ComplexModelMeta.__init__|registration', init.where,
                    'a subclass is no longer registered in its base\'s '
                    '_subclasses (or customized variants are registered too)')
    # every clearing of get_subclasses' memo is a full clear
    n = 0
    for f in m.functions.values():
        for c in calls_in(f.node):
            txt = unparse(c.func)
            if 'get_subclasses' in txt and isinstance(c.func, ast.Attribute) \
                    and c.func.attr not in ('get_subclasses',):
                n += 1
                where = '%s:%d' % (m.relpath, c.lineno)
                ok = txt.endswith('get_subclasses.memo.clear')
                res.ob('R4', where, '%s: %s' % (f.qualname, unparse(c)[:60]),
                       'ok' if ok else 'VIOLATED')
                if not ok:
                    res.finding('R4', '%s|partial-memo-clear|%s' % (
                        f.qualname, c.func.attr), where,
                        'get_subclasses() is transitive: invalidating a '
                        'single entry (%s) leaves the cached lists of all '
                        'ancestors stale, so a subclass declared later is '
                        'unknown to readers that already saw the base' %
                        unparse(c)[:50])
    res.floor('R4', 'get_subclasses memo invalidations', n, 2)
    gti = m.functions.get('_get_type_info')
    if gti is not None:
        ok = any('get_subclasses.memo.clear' in unparse(c.func)
                 for c in calls_in(gti.node))
        res.ob('R4', gti.where, '_get_type_info clears the get_subclasses '
               'memo when a base gains a subclass', 'ok' if ok else
               'VIOLATED')
        if not ok:
            res.finding('R4', '_get_type_info|no-memo-clear', gti.where,
                        'declaring a subclass no longer invalidates the '
                        'get_subclasses memo')
    # get_subclasses is transitive
    cm = prog.cls('spyne.model.complex:ComplexModelBase')
    gs = cm.methods.get('get_subclasses')
    t = unparse(gs.node)
    ok = 'subc.get_subclasses()' in t and 'retval.extend(subca)' in t
    res.ob('R4', gs.where, 'get_subclasses collects children and their '
           'descendants', 'ok' if ok else 'VIOLATED')
    if not ok:
        res.finding('R4', 'ComplexModelBase.get_subclasses|transitive',
                    gs.where, 'get_subclasses is no longer transitive')
    # interface registers same-namespace subclasses
    itf = prog.cls('spyne.interface._base:Interface')
    ac = itf.methods.get('add_class')
    loops = [n for n in walk_no_defs(ac.node) if isinstance(n, ast.For) and
             '_subclasses' in unparse(n.iter)]
    ok = any(any(call_name(c) == 'add_class' for c in calls_in(l))
             for l in loops)
    res.ob('R4', ac.where, 'Interface.add_class registers the subclasses of '
           'a class', 'ok' if ok else 'VIOLATED')
    if not ok:
        res.finding('R4', 'Interface.add_class|subclasses', ac.where,
                    'subclasses are no longer added to the interface with '
                    'their base, so their type markers cannot be resolved')


def rule_r5(prog, res):
    res.rule('R5', 'reader-side subclass tests normalise customized variants')
    n = 0
    for cfq, nm in (('spyne.protocol.xml:XmlDocument', 'from_element'),
                    ('spyne.protocol.dictdoc.hier:HierDictDocument',
                     '_doc_to_object')):
        c = prog.cls(cfq)
        f = c.methods.get(nm)
        for call in calls_in(f.node):
            if call_name(call) not in ('issubclass', 'is_substitutable') or \
                    len(call.args) != 2:
                continue
            if unparse(call.args[1]) != 'cls':
                continue
            n += 1
            where = '%s:%d' % (f.module.relpath, call.lineno)
            norm = isinstance(call.func, ast.Attribute) and dotted(
                call.func.value) == 'self'
            res.ob('R5', where, '%s.%s: %s' % (c.name, nm, unparse(call)),
                   'ok' if norm else 'VIOLATED')
            if not norm:
                res.finding('R5', '%s.%s|builtin-issubclass' % (c.name, nm),
                            where, 'the subclass test uses the builtin '
                            'issubclass: when the declared class is a '
                            'customized variant of the base (Array(Base), '
                            'Base.customize(...)), a genuine subclass is not '
                            'a Python subclass of that variant and the '
                            'polymorphic document is rejected')
    res.floor('R5', 'reader subclass tests', n, 1)
    p = prog.cls('spyne.protocol._base:ProtocolMixin')
    f = p.methods.get('issubclass')
    t = unparse(f.node)
    ok = t.count('__orig__') >= 2 and 'issubclass(' in t
    res.ob('R5', f.where, 'ProtocolMixin.issubclass compares the __orig__ of '
           'both classes', 'ok' if ok else 'VIOLATED')
    if not ok:
        res.finding('R5', 'ProtocolMixin.issubclass|orig', f.where,
                    'ProtocolMixin.issubclass no longer normalises both '
                    'arguments to their __orig__ class')


# ------------------------------------------------------------------- R6
def rule_r6(prog, res):
    res.rule('R6', 'the interface registers the subclasses of every complex '
             'class it adds, customized variants included')
    f = prog.cls('spyne.interface._base:Interface').methods.get('add_class')
    if f is None:
        raise AnalysisError('Interface.add_class', 'not found')
    loops = [n for n in walk_no_defs(f.node) if isinstance(n, ast.For) and
             '_subclasses' in unparse(n.iter)]
    res.floor('R6', 'subclass registration loops in add_class', len(loops), 1)
    for lp in loops:
        guardspec.check(
            res, 'R6', f, lp, 'registration of the declared subclasses',
            allowed=[('cls.get_type_name() is cls.Empty', False),
                     ('class_key in self.classes', False),
                     ('ns is None', False), ('self.has_class(cls)', False),
                     ('issubclass(cls, ComplexModelBase)', True),
                     ('cls.Attributes._subclasses is None', False)],
            key='Interface.add_class|subclasses')


# ------------------------------------------------------------------- R7
def rule_r7(prog, res):
    res.rule('R7', 'the wrapper key is compared with the declared class and '
             'with its subclasses through the same naming method')
    f = prog.cls('spyne.protocol.dictdoc.hier:HierDictDocument').methods.get(
        '_doc_to_object')
    if f is None:
        raise AnalysisError('HierDictDocument._doc_to_object', 'not found')
    forms = []
    for n in walk_no_defs(f.node):
        if isinstance(n, ast.Compare) and len(n.ops) == 1 and isinstance(
                n.ops[0], (ast.Eq, ast.NotEq)):
            sides = [n.left, n.comparators[0]]
            if any(isinstance(x, ast.Name) and x.id == 'class_name'
                   for x in sides):
                other = [x for x in sides if not (
                    isinstance(x, ast.Name) and x.id == 'class_name')][0]
                nm = call_name(other) if isinstance(other, ast.Call) else \
                    unparse(other)
                forms.append((n, nm))
    res.floor('R7', 'comparisons of the wrapper key', len(forms), 2)
    names = sorted({nm for _, nm in forms})
    ok = len(names) <= 1
    res.ob('R7', f.where, '_doc_to_object compares the wrapper key through '
           '%s' % names, 'ok' if ok else 'VIOLATED', nontrivial=True)
    if not ok:
        res.finding('R7', 'HierDictDocument._doc_to_object|wrapper-naming|%s'
                    % names, '%s:%d' % (f.module.relpath, forms[0][0].lineno),
                    'the wrapper key is compared with the declared class '
                    'through %s and with the subclasses through %s: for a '
                    'protocol whose naming methods differ in kind or '
                    'spelling (MessagePack: bytes vs str) a document naming '
                    'the declared class itself is not recognised and the '
                    'subclass search runs (or fails) instead' % (
                        forms[0][1], [nm for _, nm in forms[1:]]))


# ------------------------------------------------------------------- R8
def rule_r8(prog, res):
    res.rule('R8', 'only the model layer and the interface read the '
             'direct-children registry; protocols use get_subclasses()')
    n = 0
    allowed_mods = ('spyne.model.', 'spyne.interface.')
    for f in prog.all_functions():
        mn = f.module.name + '.'
        for a in walk_no_defs(f.node):
            if isinstance(a, ast.Attribute) and a.attr == '_subclasses':
                n += 1
                ok = mn.startswith(allowed_mods)
                if not ok:
                    where = '%s:%d' % (f.module.relpath, a.lineno)
                    res.ob('R8', where, '%s reads %s' % (f.qualname,
                                                         unparse(a)),
                           'VIOLATED')
                    res.finding('R8', '%s|direct-children|%s' % (
                        f.qualname, unparse(a)), where,
                        '%s reads the direct-children list %s: classes more '
                        'than one level below the declared type are not '
                        'found (get_subclasses() is the transitive list)' % (
                            f.qualname, unparse(a)))
    res.ob('R8', 'spyne/model/complex.py', '%d reads of _subclasses, all in '
           'the model layer / interface' % n, 'ok')
    res.floor('R8', 'reads of the direct-children registry', n, 4)


# ------------------------------------------------------------------- R9
def rule_r9(prog, res):
    res.rule('R9', 'a class joins its parent\'s subclass registry iff it is '
             'an original subclass; the inherited registry is dropped only '
             'when it is the parent\'s own list')
    f = prog.cls('spyne.model.complex:ComplexModelMeta').methods.get(
        '__init__')
    if f is None:
        raise AnalysisError('ComplexModelMeta.__init__', 'not found')
    n = 0
    base = [('extends is None', False), ('self.__orig__ is None', True)]
    for a in walk_no_defs(f.node):
        t = unparse(a) if isinstance(a, (ast.Assign, ast.Expr)) else ''
        if isinstance(a, ast.Expr) and isinstance(a.value, ast.Call) and \
                call_name(a.value) == 'append' and '_subclasses' in t:
            n += 1
            guardspec.check(res, 'R9', f, a, 'registration with the parent '
                            '(%s)' % t[:40], allowed=base, required=base,
                            key='ComplexModelMeta.__init__|register')
        elif isinstance(a, ast.Assign) and '_subclasses' in unparse(
                a.targets[0]) and isinstance(a.value, ast.Constant) and \
                a.value.value is None:
            n += 1
            req = base + [('self.Attributes._subclasses is eattr._subclasses',
                           True)]
            guardspec.check(res, 'R9', f, a, 'reset of the inherited '
                            'registry (%s)' % t[:50], allowed=req,
                            required=req,
                            key='ComplexModelMeta.__init__|reset')
    res.floor('R9', 'registry writes in ComplexModelMeta.__init__', n, 2)


# ------------------------------------------------------------------ R10
def rule_r10(prog, res):
    res.rule('R10', 'the polymorphic switch inspects every non-None '
             'instance; unprefixed xsi:type values are looked up in the '
             'default namespace')
    pm = prog.cls('spyne.protocol._base:ProtocolMixin')
    g = pm.methods.get('get_polymorphic_target')
    if g is None:
        raise AnalysisError('ProtocolMixin.get_polymorphic_target',
                            'not found')
    guardspec.presence_rule(
        res, 'R10', [g], {'inst', 'value', 'instance'},
        'ComplexModelBase defines __len__ as the number of own fields, so an '
        'instance of a subclass that adds no field of its own is falsy: it '
        'is written as its declared base, without a type marker')
    res.ob('R10', g.where, 'get_polymorphic_target: no truthiness test on '
           'the instance', 'ok')
    x = prog.cls('spyne.protocol.xml:XmlDocument')
    f = x.methods.get('from_element')
    n = 0
    for c in calls_in(f.node):
        if call_name(c) == 'get' and isinstance(c.func, ast.Attribute) and \
                unparse(c.func.value).endswith('nsmap') and c.args and \
                isinstance(c.args[0], ast.Name):
            n += 1
            var = c.args[0].id
            none_bound = False
            for a in walk_no_defs(f.node):
                if isinstance(a, ast.Assign):
                    for t in a.targets:
                        if isinstance(t, ast.Name) and t.id == var and \
                                isinstance(a.value, ast.Constant) and \
                                a.value.value is None:
                            none_bound = True
                        if isinstance(t, ast.Tuple) and isinstance(
                                a.value, ast.Tuple):
                            for tt, vv in zip(t.elts, a.value.elts):
                                if isinstance(tt, ast.Name) and \
                                        tt.id == var and isinstance(
                                        vv, ast.Constant) and \
                                        vv.value is None:
                                    none_bound = True
            where = '%s:%d' % (f.module.relpath, c.lineno)
            res.ob('R10', where, 'from_element: %s with %s %s' % (
                unparse(c), var, 'bound to None for unprefixed names'
                if none_bound else 'never None'),
                'ok' if none_bound else 'VIOLATED')
            if not none_bound:
                res.finding('R10', 'XmlDocument.from_element|default-ns|%s' %
                            var, where, 'the prefix handed to %s is never '
                            'None: lxml keys the default namespace by None, '
                            'so an unprefixed xsi:type (a document that '
                            'declares the target namespace as default) is '
                            'looked up under "" and rejected' % unparse(c))
    res.floor('R10', 'namespace-map lookups in from_element', n, 1)


# ------------------------------------------------------------------ R11
def rule_r11(prog, res):
    res.rule('R11', 'the element that carries a prefixed xsi:type value '
             'declares that prefix')
    x = prog.cls('spyne.protocol.xml:XmlDocument')
    n = 0
    for nm, f in sorted(x.methods.items()):
        stores = [a for a in walk_no_defs(f.node) if isinstance(a, ast.Assign)
                  and any(isinstance(t, ast.Subscript) and
                          unparse(t.slice) == 'XSI_TYPE' for t in a.targets)]
        if not stores:
            continue
        prefixed = []
        for a in stores:
            v = a.value
            src = [v]
            if isinstance(v, ast.Name):
                src = [b.value for b in walk_no_defs(f.node)
                       if isinstance(b, ast.Assign) and any(
                           isinstance(t, ast.Name) and t.id == v.id
                           for t in b.targets)]
            if any('get_type_name_ns' in unparse(e) for e in src):
                prefixed.append(a)
        if not prefixed:
            continue
        n += 1
        creators = [c for c in calls_in(f.node) if call_name(c) in (
            'Element', 'SubElement', 'element', 'E')]
        declared = [c for c in creators if any(k.arg == 'nsmap'
                                               for k in c.keywords)]
        on_existing = any(isinstance(t, ast.Subscript) and unparse(
            t.value).startswith('parent') for a in prefixed
            for t in a.targets)
        where = '%s:%d' % (f.module.relpath, prefixed[0].lineno)
        if on_existing and not creators:
            res.unclass('R11', where, '%s sets xsi:type on an element it did '
                        'not create (XmlData): the prefix declaration is the '
                        'creator\'s business' % f.qualname)
            continue
        ok = bool(declared) and len(declared) == len(
            [c for c in creators if call_name(c) != 'E' or True]) or (
            bool(declared) and all(
                call_name(c) == 'E' and guards_at(c, stop=f.node)
                for c in creators if c not in declared))
        res.ob('R11', where, '%s: xsi:type = get_type_name_ns(...); %d of %d '
               'element creations pass nsmap=' % (f.qualname, len(declared),
                                                 len(creators)),
               'ok' if ok else 'VIOLATED')
        if not ok:
            res.finding('R11', '%s|prefix-undeclared' % f.qualname, where,
                        '%s writes an xsi:type value of the form '
                        'prefix:Name but creates the element without an '
                        'nsmap declaring that prefix: lxml does not see '
                        'prefixes inside attribute values, so for classes '
                        'outside the target namespace the type marker does '
                        'not resolve in the transmitted document' %
                        f.qualname)
        # the computed declaration reaches the element unchanged
        for c in declared:
            kw = [k.value for k in c.keywords if k.arg == 'nsmap'][0]
            if not isinstance(kw, ast.Name):
                continue
            sts = sorted([b_ for b_ in walk_no_defs(f.node)
                          if isinstance(b_, ast.Assign) and any(
                              isinstance(t, ast.Name) and t.id == kw.id
                              for t in b_.targets)], key=lambda b_: b_.lineno)
            comp = [b_ for b_ in sts if not (isinstance(
                b_.value, ast.Constant) and b_.value.value is None)]
            if not comp:
                continue
            later = [b_ for b_ in sts if comp[0].lineno < b_.lineno <
                     c.lineno and b_ not in comp]
            res.ob('R11', '%s:%d' % (f.module.relpath, c.lineno),
                   '%s: %s computed at line %d, %d later resets before the '
                   'element is created' % (f.qualname, kw.id, comp[0].lineno,
                                           len(later)),
                   'VIOLATED' if later else 'ok')
            for b_ in later:
                res.finding('R11', '%s|declaration-dropped' % f.qualname,
                            '%s:%d' % (f.module.relpath, b_.lineno),
                            '%s discards the computed prefix declaration '
                            '(%s) before creating the element: the xsi:type '
                            'value keeps its prefix but the element does not '
                            'declare it (a namespace the parent has in scope '
                            'under another prefix does not help)' % (
                                f.qualname, unparse(b_)))
    res.floor('R11', 'functions writing a prefixed xsi:type', n, 2)


def rule_r12(prog, res):
    from . import c02
    from ..report import Result
    txt = ('the receiver reads the members of the class it instantiates '
           '(C02-R7); every protocol honours the polymorphic option '
           '(C02-R11)')
    res.share('R12', txt, 'C02', c02.rule_r7, prog, Result)
    res.share('R12', txt, 'C02', c02.rule_r11, prog, Result)


# ------------------------------------------------------------------ R13
def rule_r13(prog, res):
    res.rule('R13', 'namespace cleanup of response documents keeps the '
             'prefixes that occur only inside xsi:type values')
    n = 0
    for mod in prog.modules.values():
        if not (mod.relpath == 'spyne/protocol/xml.py' or
                mod.relpath.startswith('spyne/protocol/soap/')):
            continue
        for f in mod.functions.values():
            for c in calls_in(f.node):
                if call_name(c) != 'cleanup_namespaces' or not (
                        isinstance(c.func, ast.Attribute) and
                        dotted(c.func.value) in ('etree', 'lxml.etree')):
                    continue
                n += 1
                kw = [k.value for k in c.keywords
                      if k.arg == 'keep_ns_prefixes']
                srcs = []
                if kw:
                    names = {x.id for x in ast.walk(kw[0])
                             if isinstance(x, ast.Name)}
                    for a in walk_no_defs(f.node):
                        tgt = []
                        if isinstance(a, ast.Assign):
                            tgt = a.targets
                        elif isinstance(a, ast.For):
                            tgt = [a.target]
                        if any(isinstance(t, ast.Name) and t.id in names
                               for t in tgt):
                            srcs.append(unparse(a.value if isinstance(
                                a, ast.Assign) else a.iter))
                    # one more hop: loop variables feeding the kept set
                    for a in walk_no_defs(f.node):
                        if isinstance(a, ast.For):
                            body_names = {x.id for st in a.body
                                          for x in ast.walk(st)
                                          if isinstance(x, ast.Name)}
                            if names & body_names:
                                srcs.append(unparse(a.iter))
                    srcs.append(unparse(kw[0]))
                ok = bool(kw) and any('xsi:type' in s_ or 'XSI_TYPE' in s_
                                      for s_ in srcs)
                # nothing is taken out of the kept set again
                if kw:
                    removed = []
                    for a in walk_no_defs(f.node):
                        if isinstance(a, ast.Assign) and any(
                                isinstance(t, ast.Name) and t.id in names
                                for t in a.targets) and isinstance(
                                a.value, (ast.ListComp, ast.SetComp,
                                          ast.GeneratorExp)) and any(
                                g_.ifs for g_ in a.value.generators) and any(
                                isinstance(y, ast.Name) and y.id in names
                                for g_ in a.value.generators
                                for y in ast.walk(g_.iter)):
                            removed.append((a, unparse(a.value)))
                        if isinstance(a, ast.Expr) and isinstance(
                                a.value, ast.Call) and isinstance(
                                a.value.func, ast.Attribute) and \
                                a.value.func.attr in (
                                    'discard', 'remove', 'difference_update',
                                    'intersection_update', 'pop', 'clear') \
                                and unparse(a.value.func.value) in names:
                            removed.append((a, unparse(a.value)))
                    for a, t_ in removed:
                        where = '%s:%d' % (mod.relpath, a.lineno)
                        res.ob('R13', where, '%s filters the kept prefixes: '
                               '%s' % (f.qualname, t_[:60]), 'VIOLATED')
                        res.finding('R13', '%s|kept-prefixes-filtered' %
                                    f.qualname, where, '%s takes prefixes out '
                                    'of the set collected from the xsi:type '
                                    'values (%s): lxml strips a declaration '
                                    'whose prefix no element name uses, the '
                                    'root\'s included, so the marker of an '
                                    'instance without set members is left '
                                    'unbound (Soap11/Soap12: the Envelope '
                                    'declares the whole interface nsmap)' % (
                                        f.qualname, t_[:60]))
                # declarations lost when a detached subtree was moved are
                # restored at the root from the interface's prefix map
                top = [k.value for k in c.keywords if k.arg == 'top_nsmap']
                tsrc = []
                if top:
                    tn = {x.id for x in ast.walk(top[0])
                          if isinstance(x, ast.Name)}
                    tsrc = [unparse(a.value) for a in walk_no_defs(f.node)
                            if isinstance(a, ast.Assign) and any(
                                isinstance(t, ast.Name) and t.id in tn
                                for t in a.targets)] + [unparse(top[0])]
                    # one hop through locals
                    tn2 = {x.id for a in walk_no_defs(f.node)
                           if isinstance(a, ast.Assign) and any(
                               isinstance(t, ast.Name) and t.id in tn
                               for t in a.targets)
                           for x in ast.walk(a.value)
                           if isinstance(x, ast.Name)}
                    tsrc += [unparse(a.value) for a in walk_no_defs(f.node)
                             if isinstance(a, ast.Assign) and any(
                                 isinstance(t, ast.Name) and t.id in tn2
                                 for t in a.targets)]
                redeclared = any('interface.nsmap' in s_ or
                                 'interface.prefmap' in s_ for s_ in tsrc)
                if ok and not redeclared:
                    where = '%s:%d' % (mod.relpath, c.lineno)
                    res.ob('R13', where, '%s: cleanup without top_nsmap from '
                           'the interface' % f.qualname, 'VIOLATED')
                    res.finding('R13', '%s|moved-subtree-prefix-not-'
                                'redeclared' % f.qualname, where, '%s keeps '
                                'the xsi:type prefixes but does not declare '
                                'them at the root (top_nsmap from '
                                'interface.nsmap): Soap11 appends a Body '
                                'built detached, and lxml drops a child\'s '
                                'declaration when the new parent declares '
                                'the same namespace with another prefix, so '
                                'xsi:type="s0:Sub" inside an array member is '
                                'unbound' % f.qualname)
                    continue
                where = '%s:%d' % (mod.relpath, c.lineno)
                res.ob('R13', where, '%s: %s' % (f.qualname,
                                                 unparse(c)[:70]),
                       'ok' if ok else 'VIOLATED')
                if not ok:
                    res.finding('R13', '%s|cleanup-drops-type-prefix' %
                                f.qualname, where, '%s cleans the response '
                                'up with %s: lxml does not see prefixes '
                                'inside attribute values, so the declaration '
                                'of the prefix an xsi:type marker uses is '
                                'removed whenever no element name uses it '
                                '(an instance whose members are all None)' %
                                (f.qualname, unparse(c)[:60]))
    res.floor('R13', 'namespace cleanups in the XML protocols', n, 1)


# ------------------------------------------------------------------ R14
def rule_r14(prog, res):
    res.rule('R14', 'the polymorphic switch compares the instance with the '
             'original of the declared class (instances are never instances '
             'of a customized variant)')
    pm = prog.cls('spyne.protocol._base:ProtocolMixin')
    f = pm.methods.get('get_polymorphic_target')
    if f is None:
        raise AnalysisError('ProtocolMixin.get_polymorphic_target',
                            'not found')
    ps = [p_ for p_ in f.params() if p_ != 'self']
    decl, inst = ps[0], ps[1]
    normalised = {a.targets[0].id for a in walk_no_defs(f.node)
                  if isinstance(a, ast.Assign) and len(a.targets) == 1 and
                  isinstance(a.targets[0], ast.Name) and
                  '__orig__' in unparse(a.value)}
    tests = []
    for n in walk_no_defs(f.node):
        if isinstance(n, ast.Call) and call_name(n) in ('isinstance',
                                                        'issubclass') and \
                len(n.args) == 2 and inst in unparse(n.args[0]):
            tests.append((n, n.args[1]))
        if isinstance(n, ast.Compare) and len(n.ops) == 1 and isinstance(
                n.ops[0], (ast.Is, ast.IsNot, ast.Eq, ast.NotEq)) and \
                '%s.__class__' % inst == unparse(n.left):
            tests.append((n, n.comparators[0]))
    res.floor('R14', 'class tests on the instance', len(tests), 2)
    for n, other in tests:
        txt = unparse(other)
        ok = (isinstance(other, ast.Name) and other.id in normalised) or \
            '__orig__' in txt
        where = '%s:%d' % (f.module.relpath, n.lineno)
        res.ob('R14', where, 'get_polymorphic_target: %s' % unparse(n)[:60],
               'ok' if ok else 'VIOLATED')
        if not ok and txt == decl:
            res.finding('R14', 'ProtocolMixin.get_polymorphic_target|'
                        'declared-variant|%s' % type(n).__name__, where,
                        '%s tests the instance against the declared class '
                        'itself: when the slot is declared with a customized '
                        'variant (every Array member, Base.customize(...)) '
                        'no instance is an instance of that variant, so the '
                        'switch is skipped and the subclass members are '
                        'dropped' % unparse(n)[:60])


# ------------------------------------------------------------------ R15
def rule_r15(prog, res):
    res.rule('R15', 'child elements are read through from_element (where '
             'xsi:type and xsi:nil are honoured); namespaces are compared by '
             'value; the cycle guard is path-local (C02-R6)')
    x = prog.cls('spyne.protocol.xml:XmlDocument')
    n = 0
    for nm, f in sorted(x.methods.items()):
        for s_ in walk_no_defs(f.node):
            if isinstance(s_, ast.Subscript) and isinstance(
                    s_.ctx, ast.Load) and unparse(s_.value) == \
                    'self.deserialization_handlers':
                n += 1
                ok = nm == 'from_element'
                where = '%s:%d' % (f.module.relpath, s_.lineno)
                res.ob('R15', where, '%s looks a reader up in '
                       'deserialization_handlers' % f.qualname,
                       'ok' if ok else 'VIOLATED')
                if not ok:
                    res.finding('R15', '%s|handler-lookup-bypasses-'
                                'from_element' % f.qualname, where, '%s takes '
                                'the reader from deserialization_handlers '
                                'itself and calls it on child elements: '
                                'xsi:type (and xsi:nil) of the children are '
                                'not looked at, so subclass instances inside '
                                'an array are rebuilt as the declared base '
                                'class' % f.qualname)
    res.floor('R15', 'reader lookups in XmlDocument', n, 1)
    import re
    nslike = re.compile(r'(^|[_.])(t?ns|namespace)(\b|$)|get_namespace\(\)|'
                        r'get_type_name\(\)')
    k = 0
    for mod in prog.modules.values():
        if not mod.relpath.startswith('spyne/interface/'):
            continue
        for f in mod.functions.values():
            for c in walk_no_defs(f.node):
                if not (isinstance(c, ast.Compare) and len(c.ops) == 1 and
                        isinstance(c.ops[0], (ast.Is, ast.IsNot))):
                    continue
                l, r = c.left, c.comparators[0]
                if isinstance(r, ast.Constant) or isinstance(l, ast.Constant):
                    continue
                lt, rt = unparse(l), unparse(r)
                if rt.endswith('.Empty') or lt.endswith('.Empty'):
                    continue
                if not (nslike.search(lt) and nslike.search(rt)):
                    continue
                k += 1
                where = '%s:%d' % (mod.relpath, c.lineno)
                res.ob('R15', where, '%s: %s' % (f.qualname, unparse(c)),
                       'VIOLATED')
                res.finding('R15', '%s|namespace-identity|%s' % (
                    f.qualname, unparse(c)[:40]), where, '%s compares two '
                    'namespace strings by identity (%s): equal strings that '
                    'are distinct objects (built at import time, from '
                    'settings, in another module) fail the test, so '
                    'subclasses in the same namespace are not registered '
                    'and their xsi:type markers do not resolve' % (
                        f.qualname, unparse(c)))
    res.ob('R15', 'spyne/interface', '%d identity comparisons between '
           'namespace values' % k, 'ok' if not k else 'VIOLATED')
    from . import c02
    from ..report import Result
    res.share('R15', 'the cycle guard is path-local (C02-R6)', 'C02',
              c02.rule_r6, prog, Result)


# ------------------------------------------------------------------ R16
def rule_r16(prog, res):
    res.rule('R16', 'the parent of a class is recorded whether or not the '
             'parent declares fields of its own (a field-less intermediate '
             'class is a link of the chain)')
    m = prog.module('spyne.model.complex')
    f = m.functions.get('_get_type_info')
    if f is None:
        raise AnalysisError('_get_type_info', 'not found')
    n = 0
    for a in walk_no_defs(f.node):
        if not (isinstance(a, ast.Assign) and any(
                isinstance(t, ast.Subscript) and isinstance(
                    t.slice, ast.Constant) and t.slice.value == '__extends__'
                for t in a.targets)):
            continue
        n += 1
        atoms = guardspec.atoms_at(a, f.node)
        own_only = [t for t, pol in atoms if pol and 'len(' in t and
                    '__extends__' not in t and 'flat' not in t]
        where = '%s:%d' % (m.relpath, a.lineno)
        res.ob('R16', where, '_get_type_info records the parent under %s' % [
            t for t, pol in atoms if 'len(' in t or '__extends__' in t],
            'VIOLATED' if own_only else 'ok')
        from ..flow import entails, guards_at, flatten_guards
        g = flatten_guards(guards_at(a, stop=f.node))
        tests = [t for t, pol in atoms if 'len(' in t and '__extends__' in t]
        needs_link = not own_only and (entails(
            g, "len(base_types) > 0 or getattr(b, '__extends__', None) is "
            "not None") or entails(
            g, "len(base_types) > 0 or b.__extends__ is not None"))
        res.ob('R16', where, '_get_type_info records a field-less root of a '
               'class tree as parent: %s' % (not needs_link),
               'VIOLATED' if needs_link else 'ok')
        if needs_link:
            res.finding('R16', '_get_type_info|fieldless-root-not-linked',
                        where, 'a base is recorded as __extends__ only when '
                        'it has fields of its own or extends something: with '
                        'class Shape(ComplexModel): pass; class Circle(Shape) '
                        'Circle.__extends__ is None, Shape has no subclasses '
                        'and Circle is not registered, so a Circle sent where '
                        'Shape is declared is refused (XML) or read back as '
                        'an empty Shape (dict documents)')
        if own_only:
            res.finding('R16', '_get_type_info|parent-needs-own-fields',
                        where, 'a base is recorded as __extends__ only under '
                        '"%s", a test of the base\'s own fields: with class '
                        'Mid(Base): pass; class Leaf(Mid) the parent of Leaf '
                        'is Base, Mid.get_subclasses() stays empty, and a '
                        'Leaf sent where Mid is declared loses its fields '
                        'and its marker' % own_only[0])
    res.floor('R16', 'stores of __extends__ in the metaclass helper', n, 1)


def rule_r17(prog, res):
    from . import c01
    from ..report import Result
    res.share('R17', 'the root element of a message keeps the message name '
              'when polymorphism switches the class (C01-R14)', 'C01',
              c01.rule_r14, prog, Result)


def rule_r18(prog, res):
    res.rule('R18', 'the XML object reader sets members of an object from '
             'that object\'s own element only; helpers that write with a '
             'polymorphic XmlDocument clean namespaces through the protocol '
             '(which keeps xsi:type prefixes)')
    x = prog.cls('spyne.protocol.xml:XmlDocument')
    f = x.methods.get('complex_from_element')
    if f is None:
        raise AnalysisError('XmlDocument.complex_from_element', 'not found')
    ps = f.params()
    elt = ps[3] if len(ps) > 3 else 'elt'
    n = 0
    for loop in walk_no_defs(f.node):
        if not isinstance(loop, ast.For):
            continue
        it = loop.iter
        src = None
        for a in ast.walk(it):
            if isinstance(a, ast.Attribute) and a.attr == 'attrib':
                src = unparse(a.value)
        if src is None:
            continue
        sets = [c for st in loop.body for c in ast.walk(st)
                if isinstance(c, ast.Call) and call_name(c) in (
                    '_safe_set', 'setattr')]
        if not sets:
            continue
        n += 1
        ok = src == elt
        where = '%s:%d' % (f.module.relpath, loop.lineno)
        res.ob('R18', where, 'complex_from_element sets members from the '
               'attributes of %s' % src, 'ok' if ok else 'VIOLATED')
        if not ok:
            res.finding('R18', 'XmlDocument.complex_from_element|foreign-'
                        'attributes|%s' % ('child' if src != elt else src),
                        where, 'members of the object being read are set '
                        'from %s.attrib, which is not the object\'s own '
                        'element (%s): when parent and child carry the same '
                        '(inherited) XmlAttribute member the child\'s value '
                        'overwrites the parent\'s' % (src, elt))
    res.floor('R18', 'attribute loops in complex_from_element', n, 1)
    m = 0
    for mod in prog.modules.values():
        if '/test/' in mod.relpath or not mod.relpath.startswith('spyne/'):
            continue
        for fn in mod.functions.values():
            poly = [c for c in calls_in(fn.node)
                    if call_name(c) in ('XmlDocument', 'Soap11', 'Soap12')
                    and any(k.arg == 'polymorphic' and isinstance(
                        k.value, ast.Constant) and k.value.value is True
                        for k in c.keywords)]
            if not poly:
                continue
            writes = [c for c in calls_in(fn.node)
                      if call_name(c) in ('to_parent', 'serialize')]
            if not writes:
                continue
            m += 1
            plain = [c for c in calls_in(fn.node)
                     if call_name(c) == 'cleanup_namespaces' and isinstance(
                         c.func, ast.Attribute) and dotted(c.func.value) in (
                             'etree', 'lxml.etree') and not any(
                             k.arg == 'keep_ns_prefixes' for k in c.keywords)]
            res.ob('R18', fn.where, '%s writes with a polymorphic protocol; '
                   'plain etree.cleanup_namespaces calls: %d' % (
                       fn.qualname, len(plain)),
                   'VIOLATED' if plain else 'ok')
            for c in plain:
                res.finding('R18', '%s|plain-cleanup-after-polymorphic-write'
                            % fn.qualname, '%s:%d' % (mod.relpath, c.lineno),
                            '%s serialises with polymorphic=True and then '
                            'calls etree.cleanup_namespaces without '
                            'keep_ns_prefixes: the declaration of a prefix '
                            'that only occurs in an xsi:type value is '
                            'removed, so the type marker of a subclass '
                            'instance without child elements does not '
                            'resolve' % fn.qualname)
    res.floor('R18', 'helpers writing with a polymorphic protocol', m, 1)


def rule_r19(prog, res):
    res.rule('R19', 'the dict writer names an object after the class it '
             'writes its members with (cls, which the polymorphic switch has '
             'already set), never after the instance; the dict protocols '
             'forward polymorphic to their base constructor under its own '
             'name')
    h = prog.cls('spyne.protocol.dictdoc.hier:HierDictDocument')
    f = h.methods.get('_complex_to_dict')
    if f is None:
        raise AnalysisError('HierDictDocument._complex_to_dict', 'not found')
    n = 0
    for d in walk_no_defs(f.node):
        if not isinstance(d, ast.Dict):
            continue
        for k in d.keys:
            for c in ast.walk(k):
                if isinstance(c, ast.Call) and call_name(c) == \
                        'get_type_name' and isinstance(c.func, ast.Attribute):
                    n += 1
                    recv = unparse(c.func.value)
                    ok = recv == 'cls'
                    where = '%s:%d' % (f.module.relpath, c.lineno)
                    res.ob('R19', where, '_complex_to_dict names the object '
                           'after %s' % recv, 'ok' if ok else 'VIOLATED')
                    if not ok:
                        res.finding('R19', '_complex_to_dict|wrapper-key-'
                                    'from|%s' % recv, where, 'the wrapper '
                                    'key is %s.get_type_name(): with '
                                    'polymorphic=False a subclass instance '
                                    'is written with the base\'s fields '
                                    'under the subclass name, and a slot '
                                    'declared through a named customization '
                                    'gets a name the reader does not '
                                    'expect' % recv)
    res.floor('R19', 'wrapper keys in _complex_to_dict', n, 2)
    k_ = 0
    for cfq in ('spyne.protocol.json:JsonDocument',
                'spyne.protocol.yaml:YamlDocument',
                'spyne.protocol.msgpack:MessagePackDocument'):
        c = prog.cls(cfq)
        f = c.methods.get('__init__')
        if f is None or 'polymorphic' not in f.params():
            continue
        base_init = prog.cls('spyne.protocol.dictdoc._base:DictDocument'
                             ).methods.get('__init__')
        bparams = base_init.params() if base_init is not None else []
        for call in calls_in(f.node):
            if call_name(call) != '__init__' or not (
                    'super' in unparse(call.func) or 'Document' in unparse(
                        call.func)):
                continue
            k_ += 1
            bound = None
            for kw in call.keywords:
                if kw.arg == 'polymorphic':
                    bound = unparse(kw.value)
            if bound is None and 'polymorphic' in bparams:
                idx = bparams.index('polymorphic') - 1     # minus self
                if 'super' not in unparse(call.func):
                    idx += 1
                if 0 <= idx < len(call.args):
                    bound = unparse(call.args[idx])
            ok = bound == 'polymorphic'
            where = '%s:%d' % (f.module.relpath, call.lineno)
            res.ob('R19', where, '%s.__init__ forwards polymorphic=%s' % (
                c.name, bound), 'ok' if ok else 'VIOLATED')
            if not ok:
                res.finding('R19', '%s.__init__|polymorphic-not-forwarded' %
                            c.name, where, '%s.__init__ binds the base '
                            'constructor\'s polymorphic parameter to %s: '
                            '%s(polymorphic=True) never switches to the '
                            'class of the instance, subclass fields and '
                            'markers are lost' % (c.name, bound, c.name))
    res.floor('R19', 'base constructor calls of the dict protocols', k_, 2)


def rule_r20(prog, res):
    res.rule('R20', 'the wrapper key selects a subclass as soon as the '
             'declared class has one: the test on the number of registered '
             'descendants holds for a single descendant')
    from ..constfold import try_fold
    h = prog.cls('spyne.protocol.dictdoc.hier:HierDictDocument')
    f = h.methods.get('_doc_to_object')
    if f is None:
        raise AnalysisError('HierDictDocument._doc_to_object', 'not found')
    n = 0
    regs = {t.id for a in walk_no_defs(f.node) if isinstance(a, ast.Assign)
            and isinstance(a.value, ast.Call) and
            call_name(a.value) == 'get_subclasses'
            for t in a.targets if isinstance(t, ast.Name)}
    # the tests that decide whether the descendants are looked at
    tests = []
    for i in walk_no_defs(f.node):
        if isinstance(i, (ast.If, ast.IfExp, ast.While)):
            conj = i.test.values if isinstance(i.test, ast.BoolOp) and \
                isinstance(i.test.op, ast.And) else [i.test]
            def uses(block):
                block = block if isinstance(block, list) else [block]
                return any(isinstance(y, ast.Name) and y.id in regs
                           for st in block for y in ast.walk(st))
            if uses(i.body):
                tests += [(e, True) for e in conj]
            elif len(conj) == 1 and uses(i.orelse):
                tests += [(conj[0], False)]
    for e, pol in tests:
        vars_ = [unparse(c.args[0]) for c in ast.walk(e)
                 if isinstance(c, ast.Call) and call_name(c) == 'len' and
                 c.args and unparse(c.args[0]) in regs]
        if not vars_:
            continue
        var = vars_[0]
        if True:
            n += 1
            known, v = try_fold(prog, f.module, e, {var: ('one',)})
            where = '%s:%d' % (f.module.relpath, e.lineno)
            if not known:
                res.unclass('R20', where, 'descendant count test ' +
                            unparse(e))
                continue
            ok = bool(v) == pol
            res.ob('R20', where, '_doc_to_object scans the descendants when '
                   '%s%s: %s for a single descendant' % (
                       '' if pol else 'not ', unparse(e), 'holds' if ok
                       else 'fails'), 'ok' if ok else 'VIOLATED')
            if not ok:
                res.finding('R20', 'HierDictDocument._doc_to_object|single-'
                            'descendant-ignored', where, 'the wrapper key is '
                            'looked up among the descendants only when "%s": '
                            'with exactly one descendant (Shape <- Circle) '
                            'the key the writer put there is ignored, the '
                            'declared class is built and the fields of the '
                            'subclass are dropped without an error' %
                            unparse(e))
    if not regs:
        raise AnalysisError('HierDictDocument._doc_to_object',
                            'descendant registry read not found')


def rule_r21(prog, res):
    from . import c15
    from ..report import Result
    res.share('R21', 'the registry of descendants a wrapper key is looked up '
              'in is transitive (C15-R13)', 'C15', c15.rule_r13, prog, Result)


def run(prog, res, tier):
    res.run_rule(rule_r1, prog, res)
    res.run_rule(rule_r2, prog, res)
    res.run_rule(rule_r3, prog, res)
    res.run_rule(rule_r4, prog, res)
    res.run_rule(rule_r5, prog, res)
    res.run_rule(rule_r6, prog, res)
    res.run_rule(rule_r7, prog, res)
    res.run_rule(rule_r8, prog, res)
    res.run_rule(rule_r9, prog, res)
    res.run_rule(rule_r10, prog, res)
    res.run_rule(rule_r11, prog, res)
    res.run_rule(rule_r12, prog, res)
    res.run_rule(rule_r13, prog, res)
    res.run_rule(rule_r14, prog, res)
    res.run_rule(rule_r15, prog, res)
    res.run_rule(rule_r16, prog, res)
    res.run_rule(rule_r17, prog, res)
    res.run_rule(rule_r18, prog, res)
    res.run_rule(rule_r19, prog, res)
    res.run_rule(rule_r20, prog, res)
    res.run_rule(rule_r21, prog, res)


_C = 'spyne/model/complex.py'
_P = 'spyne/protocol/_base.py'
_X = 'spyne/protocol/xml.py'
_I = 'spyne/interface/_base.py'
_H = 'spyne/protocol/dictdoc/hier.py'

MUTANTS = [
    Mutant('wrapper-key-needs-two-descendants', 'R20', 'fire',
           'spyne/protocol/dictdoc/hier.py',
           in_func('HierDictDocument._doc_to_object',
                   "and len(subclasses) > 0:", "and len(subclasses) > 1:"),
           'single-descendant-ignored'),
    Mutant('wrapper-key-at-least-one-descendant', 'R20', 'twin',
           'spyne/protocol/dictdoc/hier.py',
           in_func('HierDictDocument._doc_to_object',
                   "and len(subclasses) > 0:", "and len(subclasses) >= 1:"),
           None),
    Mutant('wrapper-key-from-instance', 'R19', 'fire', _H,
           in_func('HierDictDocument._complex_to_dict',
                   "return {cls.get_type_name(): d}",
                   "return {inst.get_type_name(): d}"), 'wrapper-key-from'),
    Mutant('kept-prefixes-minus-root-declarations', 'R13', 'fire', _X,
           in_func('XmlDocument._cleanup_namespaces',
                   "        etree.cleanup_namespaces(document, top_nsmap=top_"
                   "nsmap or None,",
                   "        keep = [p for p in keep if p not in document.nsmap]"
                   "\n        etree.cleanup_namespaces(document, top_nsmap="
                   "top_nsmap or None,"), 'kept-prefixes-filtered'),
    Mutant('child-attributes-set-on-parent', 'R18', 'fire', _X,
           in_func('XmlDocument.complex_from_element',
                   "            inst._safe_set(key, value, member, "
                   "member_attrs)\n",
                   "            inst._safe_set(key, value, member, "
                   "member_attrs)\n\n"
                   "            for akey, value_str in c.attrib.items():\n"
                   "                submember = flat_type_info.get(akey, None)"
                   "\n                if submember is None or not issubclass("
                   "submember, XmlAttribute):\n                    continue\n"
                   "                inst._safe_set(akey, self._validated_from_"
                   "unicode(submember.type, value_str), submember.type, "
                   "self.get_cls_attrs(submember))\n", count=1),
           'foreign-attributes'),
    Mutant('polymorphic-helper-plain-cleanup', 'R18', 'fire',
           'spyne/util/xml.py',
           in_func('get_object_as_xml_polymorphic',
                   "    app.out_protocol._cleanup_namespaces(parent)\n",
                   "    etree.cleanup_namespaces(parent)\n"),
           'plain-cleanup'),
    Mutant('fieldless-parent-skipped', 'R16', 'fire', 'spyne/model/complex.py',
           in_func('_get_type_info',
                   r"            if \(len\(base_types\) > 0 or\n(.*?)"
                   r"and issubclass\(b, ModelBase\):",
                   "            if len(base_types) > 0 and issubclass(b, "
                   "ModelBase):", regex=True), 'parent-needs-own-fields'),
    Mutant('fieldless-root-skipped', 'R16', 'fire', 'spyne/model/complex.py',
           in_func('_get_type_info',
                   r"getattr\(b, '__extends__', None\) is not None or\n"
                   r"(.*?)for bb in b\.__bases__\)\)\) \\",
                   "getattr(b, '__extends__', None) is not None) \\\\",
                   regex=True), 'fieldless-root-not-linked'),
    Mutant('cleanup-without-root-declarations', 'R13', 'fire',
           'spyne/protocol/xml.py',
           in_func('XmlDocument._cleanup_namespaces',
                   "etree.cleanup_namespaces(document, top_nsmap=top_nsmap or "
                   "None,\n                                                  "
                   " keep_ns_prefixes=list(keep))",
                   "etree.cleanup_namespaces(document, keep_ns_prefixes=list("
                   "keep))"), 'moved-subtree-prefix-not-redeclared'),
    Mutant('array-items-bypass-from-element', 'R15', 'fire',
           'spyne/protocol/xml.py',
           in_func('XmlDocument.array_from_element',
                   "retval.append(self.from_element(ctx, serializer, child))",
                   "retval.append(self.deserialization_handlers[serializer]("
                   "ctx, serializer, child))"),
           'handler-lookup-bypasses-from_element'),
    Mutant('subclass-namespace-identity', 'R15', 'fire',
           'spyne/interface/_base.py',
           in_func('Interface.add_class', "if child_ns == ns:",
                   "if child_ns is ns:"), 'namespace-identity'),
    Mutant('polymorphic-test-against-variant', 'R14', 'fire',
           'spyne/protocol/_base.py',
           in_func('ProtocolMixin.get_polymorphic_target',
                   "if not isinstance(inst, orig_cls):",
                   "if not isinstance(inst, cls):"), 'declared-variant'),
    Mutant('plain-namespace-cleanup', 'R13', 'fire', 'spyne/protocol/xml.py',
           in_func('XmlDocument.serialize',
                   "self._cleanup_namespaces(ctx.out_document)",
                   "etree.cleanup_namespaces(ctx.out_document)"),
           'cleanup-drops-type-prefix'),
    Mutant('soap-plain-namespace-cleanup', 'R13', 'fire',
           'spyne/protocol/soap/soap11.py',
           in_func('Soap11.serialize',
                   "self._cleanup_namespaces(ctx.out_document)",
                   "etree.cleanup_namespaces(ctx.out_document)"),
           'cleanup-drops-type-prefix'),
    Mutant('xsi-prefix-declaration-dropped', 'R11', 'fire',
           'spyne/protocol/xml.py',
           in_func('XmlDocument.gen_members_parent',
                   "        if isinstance(parent, etree._Element):\n",
                   "        if isinstance(parent, etree._Element):\n"
                   "            if nsmap is not None and cls.get_namespace() "
                   "in parent.nsmap.values():\n"
                   "                nsmap = None\n"),
           'declaration-dropped'),
    Mutant('xsi-prefix-not-declared', 'R11', 'fire', _X,
           in_func('XmlDocument.gen_members_parent',
                   r"elt = etree\.SubElement\(parent, tag_name, "
                   r"attrib=attrib,\s*nsmap=nsmap\)",
                   "elt = etree.SubElement(parent, tag_name, attrib=attrib)",
                   regex=True), 'prefix-undeclared'),
    Mutant('variants-register-as-subclasses', 'R9', 'fire', _C,
           in_func('ComplexModelMeta.__init__',
                   "if extends is not None and self.__orig__ is None:",
                   "if extends is not None and extends.__orig__ is None:"),
           'register'),
    Mutant('registry-reset-for-variants', 'R9', 'fire', _C,
           in_func('ComplexModelMeta.__init__',
                   "            if self.Attributes._subclasses is "
                   "eattr._subclasses:\n"
                   "                self.Attributes._subclasses = None\n",
                   "        if extends is not None:\n"
                   "            self.Attributes._subclasses = None\n"),
           'reset'),
    Mutant('polymorph-skips-falsy', 'R10', 'fire', _P,
           in_func('ProtocolMixin.get_polymorphic_target',
                   "        orig_cls = cls.__orig__ or cls\n",
                   "        if not inst:\n            return cls, False\n"
                   "        orig_cls = cls.__orig__ or cls\n"),
           'truthiness'),
    Mutant('xsi-type-rpartition', 'R10', 'fire', _X,
           in_func('XmlDocument.from_element',
                   r"                if \":\" in xsi_type:\n"
                   r"                    prefix, objtype = xsi_type\.split\("
                   r"':', 1\)\n                else:\n"
                   r"                    prefix, objtype = None, xsi_type\n",
                   "                prefix, _, objtype = xsi_type.rpartition("
                   "':')\n", regex=True), 'default-ns'),
    Mutant('wrapper-search-direct-children', 'R8', 'fire', _H,
           in_func('HierDictDocument._doc_to_object',
                   "subclasses = cls.get_subclasses()",
                   "subclasses = cls.Attributes._subclasses"),
           'direct-children'),
    Mutant('subclasses-only-for-originals', 'R6', 'fire', _I,
           in_func('Interface.add_class',
                   "if cls.Attributes._subclasses is not None:",
                   "if cls.__orig__ is None and cls.Attributes._subclasses "
                   "is not None:"), 'extra-guard'),
    Mutant('subclasses-none-test-rewritten', 'R6', 'benign', _I,
           in_func('Interface.add_class',
                   "if cls.Attributes._subclasses is not None:",
                   "if not (cls.Attributes._subclasses is None):"), None),
    Mutant('wrapper-key-two-namings', 'R7', 'fire', _H,
           in_func('HierDictDocument._doc_to_object',
                   "if cls.get_type_name() != class_name and",
                   "if self.get_class_name(cls) != class_name and"),
           'wrapper-naming'),
    Mutant('own-fields-first', 'R1', 'fire', _C,
           in_func('_get_flat_type_info',
                   r"    parent = getattr\(cls, '__extends__', None\)\n"
                   r"    if not \(parent is None\):\n"
                   r"        _get_flat_type_info\(parent, retval\)\n"
                   r"    retval\.update\(cls\._type_info\)\n",
                   "    retval.update(cls._type_info)\n"
                   "    parent = getattr(cls, '__extends__', None)\n"
                   "    if not (parent is None):\n"
                   "        _get_flat_type_info(parent, retval)\n",
                   regex=True), '_get_flat_type_info'),
    Mutant('grandchild-not-switched', 'R2', 'fire', _P,
           in_func('ProtocolMixin.get_polymorphic_target',
                   "        cls_attr = self.get_cls_attrs(cls)\n",
                   "        if inst.__class__ not in (orig_cls.Attributes."
                   "_subclasses or ()):\n            return cls, False\n\n"
                   "        cls_attr = self.get_cls_attrs(cls)\n"),
           'direct-children-only'),
    Mutant('grandchild-not-switched-via-local', 'R2', 'fire', _P,
           in_func('ProtocolMixin.get_polymorphic_target',
                   "        cls_attr = self.get_cls_attrs(cls)\n",
                   "        known = orig_cls.Attributes._subclasses\n"
                   "        if known is None or not (inst.__class__ in known):"
                   "\n            return cls, False\n\n"
                   "        cls_attr = self.get_cls_attrs(cls)\n"),
           'direct-children-only'),
    Mutant('switch-when-not-polymorphic', 'R2', 'fire', _P,
           in_func('ProtocolMixin.get_polymorphic_target',
                   "        if not self.polymorphic:", "        if False:"),
           'not-polymorphic'),
    Mutant('switch-without-isinstance', 'R2', 'fire', _P,
           in_func('ProtocolMixin.get_polymorphic_target',
                   "        if not isinstance(inst, orig_cls):",
                   "        if False:"), 'no-isinstance'),
    Mutant('resolver-key-format', 'R3', 'fire', _X,
           in_func('XmlDocument.from_element',
                   'classkey = "{%s}%s" % (ns, objtype)',
                   'classkey = "%s:%s" % (ns, objtype)'), 'class-key-format'),
    Mutant('partial-memo-invalidation', 'R4', 'fire', _C,
           in_func('_get_type_info', "b.get_subclasses.memo.clear()",
                   "b.get_subclasses.memo.pop((b,), None)"),
           'partial-memo-clear'),
    Mutant('subclass-not-registered', 'R4', 'fire', _C,
           in_func('ComplexModelMeta.__init__',
                   "            eattr._subclasses.append(self)\n", ""),
           'registration'),
    Mutant('builtin-issubclass-xml', 'R5', 'fire', _X,
           in_func('XmlDocument.from_element',
                   "if not self.is_substitutable(newclass, cls):",
                   "if not issubclass(newclass, cls):"), 'builtin-issubclass'),
    Mutant('builtin-issubclass-hier', 'R5', 'fire', _H,
           in_func('HierDictDocument._doc_to_object',
                   "if not self.issubclass(subcls, cls):",
                   "if not issubclass(subcls, cls):"), 'builtin-issubclass'),
]
