"""C17 - XML input is parsed with safe defaults.

R1  every XML parse call reachable (strong call edges) from the request-path
    entry points of the XML protocol family passes a parser that flows from
    ``XMLParser(**self.parser_kwargs)`` (followed through parameters to every
    caller, depth 4).  A parse with lxml's *default* parser on that path is a
    finding.
R2  the defaults folded from ``XmlDocument.__init__`` are the safe ones, each
    ``parser_kwargs`` key is bound to the same-named parameter, the subclasses
    forward their arguments unchanged, nothing else stores into
    ``parser_kwargs``.
"""
import ast

from ..core import (AnalysisError, dotted, unparse, calls_in, call_name,
                    walk_no_defs, FuncInfo)
from ..callgraph import CallGraph
from ..mutate import Mutant, in_func

ID = 'C17'
EXPLANATION = (
    'R1: who-may-parse - every lxml parse call (fromstring/XML/XMLID/parse/'
    'iterparse, html.fromstring) reachable through resolved call edges from '
    'create_in_document / decompose_incoming_envelope / deserialize of '
    'XmlDocument, Soap11, Soap12 must receive a parser that flows (through '
    'locals and parameters, all callers) from XMLParser(**self.parser_kwargs). '
    'R2: constant folding of the XmlDocument.__init__ defaults and of the '
    'parser_kwargs dict: safe values, same-name binding, no later store, '
    'subclass constructors forward unchanged. Not decided: what libxml2 does '
    'for a given option set; time and memory bounds.')
ASSUMPTIONS = [
    'lxml honours the XMLParser options (resolve_entities, load_dtd, '
    'no_network, huge_tree) as documented',
]

XML_CLASSES = ['spyne.protocol.xml:XmlDocument',
               'spyne.protocol.soap.soap11:Soap11',
               'spyne.protocol.soap.soap12:Soap12']
ENTRY_METHODS = ['create_in_document', 'decompose_incoming_envelope',
                 'deserialize', 'validate_body']

PARSE_FUNCS = {'fromstring', 'XML', 'XMLID', 'parse', 'iterparse',
               'fragment_fromstring', 'fragments_fromstring',
               'document_fromstring'}
LXML_MODULES = {'etree', 'html', 'objectify', 'lxml.etree', 'lxml.html',
                'lxml.objectify'}

SAFE_DEFAULTS = {
    'resolve_entities': False, 'load_dtd': False, 'no_network': True,
    'huge_tree': False, 'dtd_validation': False, 'attribute_defaults': False,
    'remove_pis': True,
}
SAFE_LITERALS = {'remove_comments': True}


def is_parse_call(f, call):
    fn = call.func
    if isinstance(fn, ast.Attribute) and fn.attr in PARSE_FUNCS:
        d = dotted(fn.value)
        if d is None:
            return False
        target = f.module.imports.get(d.split('.')[0], '')
        if d in LXML_MODULES or target.startswith('lxml'):
            return True
    if isinstance(fn, ast.Name) and fn.id in PARSE_FUNCS:
        target = f.module.imports.get(fn.id, '')
        return target.startswith('lxml')
    return False


def parser_arg(call):
    for kw in call.keywords:
        if kw.arg == 'parser':
            return kw.value
    if len(call.args) >= 2:
        return call.args[1]
    return None


def is_configured_parser(expr):
    """XMLParser(**<x>.parser_kwargs)"""
    if not isinstance(expr, ast.Call):
        return False
    if call_name(expr) != 'XMLParser':
        return False
    if expr.args:
        return False
    kws = expr.keywords
    if len(kws) != 1 or kws[0].arg is not None:
        return False
    v = kws[0].value
    return isinstance(v, ast.Attribute) and v.attr == 'parser_kwargs'


def local_assignments(fnode, name):
    out = []
    for n in walk_no_defs(fnode):
        if isinstance(n, ast.Assign):
            for t in n.targets:
                if isinstance(t, ast.Name) and t.id == name:
                    out.append(n.value)
    return out


def classify_parser(cg, f, expr, depth=0, seen=None):
    """-> ('configured'|'default'|'unknown', explanation)"""
    if expr is None:
        return 'default', 'no parser argument (lxml default parser)'
    if isinstance(expr, ast.Constant) and expr.value is None:
        return 'default', 'parser=None (lxml default parser)'
    if is_configured_parser(expr):
        return 'configured', unparse(expr)
    if isinstance(expr, ast.Call) and call_name(expr) == 'XMLParser' and \
            not expr.args and len(expr.keywords) == 1 and \
            expr.keywords[0].arg is None and isinstance(
            expr.keywords[0].value, ast.Name):
        # XMLParser(**local): the local must only ever alias parser_kwargs
        nm = expr.keywords[0].value.id
        vals = local_assignments(f.node, nm)
        touched = [n for n in walk_no_defs(f.node) if (
            isinstance(n, ast.Call) and isinstance(n.func, ast.Attribute) and
            isinstance(n.func.value, ast.Name) and n.func.value.id == nm and
            n.func.attr in ('update', 'setdefault', 'pop', '__setitem__'))
            or (isinstance(n, (ast.Assign, ast.AugAssign)) and any(
                isinstance(t, ast.Subscript) and isinstance(
                    t.value, ast.Name) and t.value.id == nm
                for t in (n.targets if isinstance(n, ast.Assign)
                          else [n.target])))]
        alias = vals and all(isinstance(v, ast.Attribute) and
                             v.attr == 'parser_kwargs' for v in vals)
        if alias and not touched:
            return 'configured', 'XMLParser(**%s), %s = %s' % (
                nm, nm, unparse(vals[0]))
        if vals and any('parser_kwargs' in unparse(v) for v in vals):
            over = [unparse(v)[:60] for v in vals if not (
                isinstance(v, ast.Attribute) and v.attr == 'parser_kwargs')]
            over += [unparse(n)[:60] for n in touched]
            return 'modified', 'XMLParser(**%s) where %s is a per-request ' \
                'copy of parser_kwargs with overrides: %s' % (nm, nm, over)
    if isinstance(expr, ast.Call) and call_name(expr) == 'XMLParser' and \
            'parser_kwargs' in unparse(expr):
        # XMLParser(**dict(self.parser_kwargs, k=v)), {**kwargs, k: v}, ...
        return 'modified', '%s derives the options from parser_kwargs but ' \
            'overrides some of them' % unparse(expr)[:80]
    if isinstance(expr, ast.Name):
        vals = local_assignments(f.node, expr.id)
        params = [a.arg for a in f.node.args.args + f.node.args.kwonlyargs]
        if expr.id in params and depth < 4:
            # default value of the parameter
            verdicts = []
            a = f.node.args
            pos = a.args
            defaults = [None] * (len(pos) - len(a.defaults)) + list(a.defaults)
            idx = [p.arg for p in pos].index(expr.id) if expr.id in \
                [p.arg for p in pos] else None
            callers = cg.callers(f)
            if not callers:
                dv = [d for p, d in zip(pos, defaults) if p.arg == expr.id]
                if dv and dv[0] is not None:
                    return classify_parser(cg, f, dv[0], depth + 1)
            if not callers and not verdicts:
                return 'unknown', 'parameter %s of %s has no resolved ' \
                    'callers' % (expr.id, f.qualname)
            for cf, call in callers:
                arg = None
                for kw in call.keywords:
                    if kw.arg == expr.id:
                        arg = kw.value
                if arg is None and idx is not None:
                    j = idx
                    if f.cls is not None and pos and pos[0].arg in (
                            'self', 'cls') and isinstance(
                            call.func, ast.Attribute):
                        j = idx - 1
                    if 0 <= j < len(call.args):
                        arg = call.args[j]
                if arg is None:
                    # caller relies on the default
                    dv = [d for p, d in zip(pos, defaults)
                          if p.arg == expr.id]
                    if dv and dv[0] is not None:
                        verdicts.append(classify_parser(cg, f, dv[0],
                                                        depth + 1))
                    else:
                        verdicts.append(('unknown', 'argument not found at '
                                         + cf.qualname))
                    continue
                verdicts.append(classify_parser(cg, cf, arg, depth + 1))
            for v in verdicts:
                if v[0] == 'default':
                    return v[0], '%s <- %s' % (expr.id, v[1])
            for kind in ('shared', 'modified', 'unknown'):
                for v in verdicts:
                    if v[0] == kind:
                        return v
            if vals:
                sub = [classify_parser(cg, f, v, depth + 1) for v in vals]
                for v in sub:
                    if v[0] != 'configured':
                        return v
            return 'configured', 'all %d callers pass a configured parser' % \
                len(callers)
        if vals:
            sub = [classify_parser(cg, f, v, depth + 1) for v in vals]
            for v in sub:
                if v[0] != 'configured':
                    return v
            return 'configured', 'local %s' % expr.id
    # parser obtained from a helper method or an attribute: follow it
    if isinstance(expr, ast.Call) and isinstance(expr.func, ast.Attribute) \
            and dotted(expr.func.value) == 'self' and not expr.args and \
            depth < 4:
        c = cg.static_class(f)
        m = cg.prog.find_method(c, expr.func.attr) if c is not None else None
        if m is not None:
            rets = [r.value for r in walk_no_defs(m.node)
                    if isinstance(r, ast.Return) and r.value is not None]
            verdicts = [classify_parser(cg, m, r, depth + 1) for r in rets]
            for v in verdicts:
                if v[0] != 'configured':
                    return v
            if verdicts:
                return 'configured', 'returned by ' + m.qualname
    if isinstance(expr, (ast.Attribute, ast.Subscript)) and depth < 4:
        root = expr
        chain_ = []
        while isinstance(root, (ast.Attribute, ast.Subscript)):
            if isinstance(root, ast.Attribute):
                chain_.append(root.attr)
            root = root.value
        if isinstance(root, ast.Name) and root.id == 'self':
            c = cg.static_class(f)
            first = chain_[-1]
            if c is not None:
                owner, val = cg.prog.find_attr(c, first)
                inst_assigned = any(
                    isinstance(n, ast.Assign) and any(
                        unparse(t) == 'self.' + first for t in n.targets)
                    for k in cg.prog.mro(c) if hasattr(k, 'methods')
                    for mm in k.methods.values()
                    for n in walk_no_defs(mm.node))
                if owner is not None and not inst_assigned and chain_:
                    return 'shared', 'self.%s lives on the class %s (%s): ' \
                        'one parser object, built with the options of ' \
                        'whichever instance stored it first, is shared by ' \
                        'all protocol instances' % (
                            '.'.join(reversed(chain_)), owner.name,
                            unparse(val)[:30])
                # instance-level cache: every store must be configured
                stores = []
                for k in cg.prog.mro(c):
                    if not hasattr(k, 'methods'):
                        continue
                    for mm in k.methods.values():
                        for n in walk_no_defs(mm.node):
                            if isinstance(n, ast.Assign) and any(
                                    unparse(t) == unparse(expr)
                                    for t in n.targets):
                                stores.append((mm, n.value))
                if stores:
                    for mm, v in stores:
                        r = classify_parser(cg, mm, v, depth + 1)
                        if r[0] != 'configured':
                            return r
                    return 'configured', 'instance attribute %s' % \
                        unparse(expr)
    return 'unknown', unparse(expr)


# ------------------------------------------------------------------- R7
def _literal_hardened(expr):
    """XMLParser(k=<const>, ...) with resolve_entities=False spelled out and
    no other option weakening lxml's defaults."""
    if not (isinstance(expr, ast.Call) and call_name(expr) == 'XMLParser' and
            not expr.args):
        return False, 'not an XMLParser(...) call'
    kws = {}
    for k in expr.keywords:
        if k.arg is None or not isinstance(k.value, ast.Constant):
            return False, 'option %s is not a literal' % (k.arg or '**')
        kws[k.arg] = k.value.value
    if kws.get('resolve_entities', 'internal') is not False:
        return False, 'resolve_entities is not False (lxml default expands ' \
                      'internal entities)'
    for k, v in SAFE_DEFAULTS.items():
        if k in kws and kws[k] != v and k != 'remove_pis':
            return False, '%s=%r' % (k, kws[k])
    return True, 'literal options %s' % sorted(kws.items())


def rule_r7(prog, res):
    res.rule('R7', 'value readers that parse client text as XML (AnyXml in '
             'attributes, tag bodies, non-XML protocols) use a hardened '
             'parser as well')
    import re
    n = 0
    for rel in ('spyne/protocol/_inbase.py', 'spyne/protocol/xml.py',
                'spyne/protocol/dictdoc/_base.py',
                'spyne/protocol/dictdoc/simple.py',
                'spyne/protocol/dictdoc/hier.py', 'spyne/protocol/http.py'):
        mod = prog.modules.get(rel) or next(
            (m for m in prog.modules.values() if m.relpath == rel), None)
        if mod is None:
            continue
        for f in mod.functions.values():
            if not re.search(r'_from_(bytes|unicode|string|element)$',
                             f.name):
                continue
            for call in calls_in(f.node):
                if not is_parse_call(f, call):
                    continue
                d = dotted(call.func.value) if isinstance(
                    call.func, ast.Attribute) else ''
                if d and (d == 'html' or d.endswith('.html')):
                    continue    # HTML parser: no DTD, no entity declarations
                n += 1
                arg = parser_arg(call)
                vals = [arg]
                if isinstance(arg, ast.Name):
                    vals = local_assignments(f.node, arg.id) or [None]
                where = '%s:%d' % (rel, call.lineno)
                why = None
                for v in vals:
                    if v is None or (isinstance(v, ast.Constant) and
                                     v.value is None):
                        why = 'the default lxml parser'
                        break
                    if is_configured_parser(v):
                        continue
                    ok_, w_ = _literal_hardened(v)
                    if not ok_:
                        why = w_
                        break
                res.ob('R7', where, '%s: %s' % (f.qualname,
                                                unparse(call)[:70]),
                       'VIOLATED' if why else 'ok')
                if why:
                    res.finding('R7', '%s|%s|value-parser' % (
                        f.qualname, unparse(call.func)), where, '%s parses '
                        'text taken from the request with %s: a DOCTYPE '
                        'inside that text declares entities that are '
                        'expanded and handed to user code, although the '
                        'outer document was parsed safely' % (f.qualname,
                                                              why))
    res.floor('R7', 'XML parses in value readers', n, 1)


# ------------------------------------------------------------------- R8
def rule_r8(prog, res):
    res.rule('R8', 'every request document passes the entity-declaration '
             'gate after it is parsed (libxml2 substitutes internal entities '
             'in attribute values even with resolve_entities off)')
    from .. import guardspec

    def about_the_dtd(t, scope, depth=0):
        """the condition speaks about the DTD / the entity list / the
        resolve_entities option, directly or through locals bound from
        them (a first-entity probe with a private sentinel)"""
        if any(k in t for k in ('internalDTD', 'iterentities',
                                'resolve_entities')) or \
                'dtd' in t.lower():
            return True
        if depth > 3:
            return False
        names = {y.id for y in ast.walk(ast.parse(t, mode='eval'))
                 if isinstance(y, ast.Name)}
        vals = []
        for nm in names:
            vs = [unparse(a.value) for a in walk_no_defs(scope)
                  if isinstance(a, ast.Assign) and any(
                      isinstance(tg, ast.Name) and tg.id == nm
                      for tg in a.targets)]
            if not vs:
                return False
            vals += vs
        return bool(vals) and all(
            v in ('object()', 'True', 'False', 'None') or
            about_the_dtd(v, scope, depth + 1) for v in vals) and any(
            about_the_dtd(v, scope, depth + 1) for v in vals
            if v not in ('object()', 'True', 'False', 'None'))

    def gate_raises(g):
        """raise statements of g that are conditioned on the internal DTD"""
        if not any(isinstance(y, ast.Attribute) and y.attr == 'internalDTD'
                   for y in ast.walk(g.node)):
            return []
        out = []
        for r in walk_no_defs(g.node):
            if isinstance(r, ast.Raise):
                atoms = guardspec.atoms_at(r, g.node)
                if any(about_the_dtd(t, g.node) for t, _ in atoms):
                    out.append((r, atoms))
        return out
    # the gate is found by what it does: a function of the XML protocol
    # modules that raises depending on the document's internal DTD
    gates = {}
    for m in prog.modules.values():
        if not m.name.startswith('spyne.protocol.'):
            continue
        for g in m.functions.values():
            rs = gate_raises(g)
            if rs:
                gates[g] = rs
    if not gates:
        raise AnalysisError('entity-declaration gate', 'not found')
    for gate, rs in sorted(gates.items(), key=lambda kv: kv[0].where):
        txt = unparse(gate.node)
        ok = 'iterentities' in txt or 'entities' in txt
        res.ob('R8', gate.where, 'the gate raises for a document whose '
               'internal subset declares entities', 'ok' if ok else
               'VIOLATED')
        if not ok:
            res.finding('R8', '%s|gate' % gate.qualname,
                        gate.where, 'the gate no longer refuses documents '
                        'that declare entities')
        # the only exemption is an explicit resolve_entities=True
        for r, atoms in rs:
            extra = [(t, p_) for t, p_ in atoms
                     if not about_the_dtd(t, gate.node)]
            res.ob('R8', '%s:%d' % (gate.module.relpath, r.lineno),
                   'gate condition: %s' % [t for t, _ in atoms],
                   'VIOLATED' if extra else 'ok')
            for t, p_ in extra[:1]:
                res.finding('R8', '%s|extra-condition' % gate.qualname,
                            '%s:%d' % (gate.module.relpath, r.lineno),
                            'the refusal additionally depends on "%s%s"' % (
                                '' if p_ else 'not ', t))
    gate_names = {g.name for g in gates}
    n = 0
    for cfq in XML_CLASSES:
        c = prog.cls(cfq)
        f = c.methods.get('create_in_document')
        if f is None or f.cls is not c:
            continue
        n += 1
        calls = [c_ for c_ in calls_in(f.node)
                 if call_name(c_) in gate_names]
        uncond = []
        for c_ in calls:
            st = c_
            while not isinstance(st, ast.stmt):
                st = st._parent
            if not guardspec.atoms_at(st, f.node):
                uncond.append(c_)
        # ... or the gate's statements stand in the function itself
        ok = bool(uncond) or f in gates
        res.ob('R8', f.where, '%s.create_in_document %s the gate' % (
            c.name, 'passes every parsed document through' if ok else
            'does not (always) call'), 'ok' if ok else 'VIOLATED')
        if not ok:
            res.finding('R8', '%s.create_in_document|gate-skipped' % c.name,
                        f.where, '%s.create_in_document does not hand every '
                        'parsed document to the entity-declaration gate: '
                        'internal entities declared in a DOCTYPE are '
                        'substituted in attribute values and reach user code, '
                        'and entity reference nodes crash the readers' %
                        c.name)
    res.floor('R8', 'create_in_document implementations of the XML family',
              n, 2)


def run(prog, res, tier):
    res.rule('R1', 'request-path XML parses use the configured safe parser')
    res.rule('R2', 'parser defaults are safe, bound by name, never rebound')
    cg = CallGraph(prog)

    # ---- R1 ---------------------------------------------------------------
    roots = []
    for cfq in XML_CLASSES:
        c = prog.cls(cfq)
        for mname in ENTRY_METHODS:
            m = prog.find_method(c, mname)
            if m is not None and m not in roots:
                roots.append(m)
    if len(roots) < 6:
        raise AnalysisError('C17-R1 entry points', 'found %d' % len(roots))

    def stop(f):
        # output-side helpers are not on the request path
        return False

    seen = cg.reachable(roots, strong_only=True)
    n_sites = 0
    n_req = 0
    for f in prog.all_functions():
        rel = f.module.relpath
        if not (rel.startswith('spyne/protocol') or
                rel.startswith('spyne/server')):
            continue
        for call in calls_in(f.node):
            if not is_parse_call(f, call):
                continue
            n_sites += 1
            verdict, why = classify_parser(cg, f, parser_arg(call))
            on_path = f in seen
            inst = '%s: %s' % (f.qualname, unparse(call)[:80])
            where = '%s:%d' % (rel, call.lineno)
            if not on_path:
                res.ob('R1', where, inst + ' [not reachable from XML request '
                       'entry points; parser=%s]' % verdict, 'ok',
                       nontrivial=False)
                if verdict == 'default' and 'from' in f.name:
                    res.note('%s parses with the default parser but is not '
                             'reachable from the XML protocols\' request '
                             'path (%s)' % (f.qualname, where))
                continue
            n_req += 1
            if verdict == 'configured':
                res.ob('R1', where, inst + ' <= ' + why, 'ok')
            elif verdict == 'shared':
                res.ob('R1', where, inst, 'VIOLATED')
                res.finding(
                    'R1', '%s|%s|shared-parser' % (f.qualname,
                                                   unparse(call.func)), where,
                    'the parser handed to %s comes from class-level state: %s'
                    % (unparse(call.func), why))
            elif verdict == 'modified':
                res.ob('R1', where, inst, 'VIOLATED')
                res.finding(
                    'R1', '%s|%s|modified-options' % (f.qualname,
                                                      unparse(call.func)),
                    where, 'the request decides the parser options: %s; the '
                    'limits the protocol was constructed with (huge_tree, '
                    'resolve_entities, ...) no longer hold for every '
                    'request' % why)
            elif verdict == 'default':
                res.ob('R1', where, inst, 'VIOLATED')
                res.finding(
                    'R1', '%s|%s' % (f.qualname, unparse(call.func)), where,
                    'XML parse on the request path (%s) uses %s instead of '
                    'XMLParser(**self.parser_kwargs)' % (
                        cg.path_to(seen, f), why))
            else:
                res.ob('R1', where, inst + ' parser=' + why, 'unclassified')
                res.unclass('R1', where, 'parser argument %s' % why)
    res.floor('R1', 'parse sites in protocol/server', n_sites, 10)
    res.floor('R1', 'parse sites on the request path', n_req, 3)

    # ---- R2 ---------------------------------------------------------------
    init = prog.method('spyne.protocol.xml:XmlDocument', '__init__')
    a = init.node.args
    pos = a.args
    defaults = [None] * (len(pos) - len(a.defaults)) + list(a.defaults)
    dmap = {p.arg: d for p, d in zip(pos, defaults)}
    for name, want in sorted(SAFE_DEFAULTS.items()):
        where = init.where
        d = dmap.get(name)
        if d is None:
            res.ob('R2', where, 'default of %s' % name, 'VIOLATED')
            res.finding('R2', 'XmlDocument.__init__|%s|missing' % name, where,
                        'parser option %s has no default in '
                        'XmlDocument.__init__' % name)
            continue
        if not isinstance(d, ast.Constant):
            res.unclass('R2', where, 'default of %s is %s' % (name,
                                                              unparse(d)))
            continue
        if d.value is not want:
            res.ob('R2', where, 'default %s=%r' % (name, d.value), 'VIOLATED')
            res.finding('R2', 'XmlDocument.__init__|%s|default' % name, where,
                        'unsafe parser default: %s=%r (must be %r)' % (
                            name, d.value, want))
        else:
            res.ob('R2', where, 'default %s=%r' % (name, d.value), 'ok')
    # the parser_kwargs dict
    stores = []
    for f in prog.all_functions():
        for n in walk_no_defs(f.node):
            tgt = []
            if isinstance(n, ast.Assign):
                tgt = n.targets
            elif isinstance(n, ast.AugAssign):
                tgt = [n.target]
            for t in tgt:
                base = t
                if isinstance(base, ast.Subscript):
                    base = base.value
                if isinstance(base, ast.Attribute) and \
                        base.attr == 'parser_kwargs':
                    stores.append((f, n, t))
            if isinstance(n, ast.Call) and isinstance(n.func, ast.Attribute) \
                    and n.func.attr in ('update', 'pop', 'setdefault', 'clear',
                                        '__setitem__') and isinstance(
                    n.func.value, ast.Attribute) and \
                    n.func.value.attr == 'parser_kwargs':
                stores.append((f, n, n.func))
    main = [s for s in stores if s[0] is init and isinstance(s[1], ast.Assign)
            and isinstance(s[2], ast.Attribute)]
    if len(main) != 1:
        # no fresh table per instance: class-level state updated in place?
        xc = prog.cls('spyne.protocol.xml:XmlDocument')
        cls_level = [a_ for a_ in xc.node.body if isinstance(a_, ast.Assign)
                     and any(isinstance(t, ast.Name) and
                             t.id == 'parser_kwargs' for t in a_.targets)]
        upd = [s_ for s_ in stores if s_[0] is init]
        if cls_level and not main:
            where = '%s:%d' % (init.module.relpath, cls_level[0].lineno)
            res.ob('R2', where, 'parser_kwargs is a class attribute updated '
                   'by __init__', 'VIOLATED')
            res.finding('R2', 'XmlDocument|parser_kwargs|class-level', where,
                        'parser_kwargs is defined on the class and updated '
                        'in place by __init__ (%s): every XmlDocument/Soap '
                        'instance of the process shares one option table, so '
                        'the protocol object constructed last decides the '
                        'parser flags of all endpoints' % (
                            unparse(upd[0][1])[:50] if upd else 'no store'))
            _tail(prog, res, tier)
            return
        raise AnalysisError('C17-R2 parser_kwargs', 'expected one assignment '
                            'in XmlDocument.__init__, found %d' % len(main))
    # the option table may be built in a local first; anything but a plain
    # alias of a literal table loses options
    mval = main[0][1].value
    if isinstance(mval, ast.Name):
        loc = local_assignments(init.node, mval.id)
        if len(loc) == 1:
            mval = loc[0]
    if not ((isinstance(mval, ast.Call) and call_name(mval) == 'dict' and
             not mval.args) or isinstance(mval, ast.Dict)):
        where = '%s:%d' % (init.module.relpath, main[0][1].lineno)
        res.ob('R2', where, 'parser_kwargs = %s' % unparse(mval)[:70],
               'VIOLATED')
        res.finding('R2', 'XmlDocument.__init__|parser_kwargs|derived', where,
                    'parser_kwargs is computed (%s) instead of being the '
                    'literal option table: options can be dropped or '
                    'changed on the way; filtering out falsy entries removes '
                    'every safe False setting (resolve_entities, load_dtd, '
                    'huge_tree, no_network=...), so lxml\'s own defaults '
                    'apply' % unparse(mval)[:70])
        _tail(prog, res, tier)
        return
    for f, n, t in stores:
        if (f, n, t) == main[0]:
            continue
        where = '%s:%d' % (f.module.relpath, n.lineno)
        res.ob('R2', where, 'store into parser_kwargs in ' + f.qualname,
               'VIOLATED')
        res.finding('R2', '%s|store|%s' % (f.qualname, unparse(t)), where,
                    'parser_kwargs is modified after construction: %s' %
                    unparse(n)[:100])
    val = mval
    pairs = {}
    if isinstance(val, ast.Call) and call_name(val) == 'dict' and not val.args:
        for kw in val.keywords:
            if kw.arg is None:
                res.unclass('R2', init.where, '**%s in parser_kwargs' %
                            unparse(kw.value))
            else:
                pairs[kw.arg] = kw.value
    elif isinstance(val, ast.Dict):
        for k, v in zip(val.keys, val.values):
            if isinstance(k, ast.Constant):
                pairs[k.value] = v
    else:
        raise AnalysisError('C17-R2 parser_kwargs', 'unsupported shape ' +
                            unparse(val)[:60])
    where = '%s:%d' % (init.module.relpath, main[0][1].lineno)
    # parameters rebound before the dict is built?
    rebound = set()
    for n in walk_no_defs(init.node):
        if isinstance(n, ast.Assign) and n.lineno < main[0][1].lineno:
            for t in n.targets:
                if isinstance(t, ast.Name):
                    rebound.add(t.id)
    for name, want in sorted(list(SAFE_DEFAULTS.items()) +
                             list(SAFE_LITERALS.items())):
        v = pairs.get(name)
        inst = 'parser_kwargs[%s] = %s' % (name, unparse(v) if v is not None
                                           else '<missing>')
        if v is None:
            res.ob('R2', where, inst, 'VIOLATED')
            res.finding('R2', 'XmlDocument.__init__|%s|not-passed' % name,
                        where, 'safe option %s is not passed to the parser' %
                        name)
        elif isinstance(v, ast.Constant):
            if v.value is want:
                res.ob('R2', where, inst, 'ok')
            else:
                res.ob('R2', where, inst, 'VIOLATED')
                res.finding('R2', 'XmlDocument.__init__|%s|literal' % name,
                            where, 'parser option %s is fixed to the unsafe '
                            'value %r' % (name, v.value))
        elif isinstance(v, ast.Name) and v.id == name and name in dmap and \
                name not in rebound:
            # an option that used to be a safe literal became a parameter:
            # its default must be that safe value
            d_ = dmap.get(name)
            if name in SAFE_LITERALS and not (
                    isinstance(d_, ast.Constant) and d_.value is want):
                res.ob('R2', where, inst + ' (default %s)' % (
                    unparse(d_) if d_ is not None else '-'), 'VIOLATED')
                res.finding('R2', 'XmlDocument.__init__|%s|default' % name,
                            where, 'parser option %s is now a constructor '
                            'argument whose default is %s (must be %r): '
                            'comments/processing instructions survive '
                            'parsing, leaf readers stop at the first comment '
                            'node (<n>25<!-- -->6</n> reads 25) and '
                            'structural readers meet nodes they cannot '
                            'handle' % (name, unparse(d_) if d_ is not None
                                        else 'missing', want))
            else:
                res.ob('R2', where, inst, 'ok')
        else:
            res.ob('R2', where, inst, 'VIOLATED')
            res.finding('R2', 'XmlDocument.__init__|%s|binding' % name, where,
                        'parser option %s is bound to %s, not to the '
                        'same-named constructor parameter' % (name,
                                                              unparse(v)))
    _tail(prog, res, tier)


# ------------------------------------------------------------------- R4
TEXT_HARVESTERS = ('xpath', 'itertext', 'text_content', 'tostring',
                   'tounicode', 'iterwalk')


def rule_r4(prog, res):
    res.rule('R4', 'leaf readers take element text from .text only: no '
             'string-value computation that would include entity nodes')
    x = prog.cls('spyne.protocol.xml:XmlDocument')
    n = 0
    for nm, f in sorted(x.methods.items()):
        if not nm.endswith('_from_element') or nm in (
                'complex_from_element', 'array_from_element',
                'iterable_from_element', 'xml_from_element',
                'html_from_element', 'dict_from_element',
                'schema_validation_from_element'):
            continue
        n += 1
        bad = [c for c in calls_in(f.node) if call_name(c) in TEXT_HARVESTERS
               and isinstance(c.func, ast.Attribute)]
        res.ob('R4', f.where, '%s: %s' % (f.qualname, 'reads .text only'
                                          if not bad else
                                          'harvests text with %s' %
                                          [unparse(c)[:30] for c in bad]),
               'VIOLATED' if bad else 'ok')
        for c in bad:
            res.finding('R4', '%s|text-harvest|%s' % (f.qualname,
                                                      call_name(c)),
                        '%s:%d' % (f.module.relpath, c.lineno),
                        '%s computes the value with %s: unlike .text this '
                        'includes the text of child and entity-reference '
                        'nodes, so a declared internal entity (kept '
                        'unresolved by resolve_entities=False) is '
                        'substituted into the value user code receives' % (
                            f.qualname, unparse(c)[:40]))
    # the element-to-dict converter behind AnyDict arguments
    ec = prog.module('spyne.util.etreeconv', required=False)
    if ec is not None:
        for nm in ('etree_to_dict', 'root_etree_to_dict'):
            f = ec.functions.get(nm)
            if f is None:
                continue
            n += 1
            bad = [c for c in calls_in(f.node)
                   if call_name(c) in TEXT_HARVESTERS and isinstance(
                       c.func, ast.Attribute)]
            res.ob('R4', f.where, '%s: %s' % (nm, 'reads .text only'
                                              if not bad else
                                              'harvests text with %s' %
                                              [unparse(c)[:30] for c in bad]),
                   'VIOLATED' if bad else 'ok')
            for c in bad:
                res.finding('R4', '%s|text-harvest|%s' % (nm, call_name(c)),
                            '%s:%d' % (ec.relpath, c.lineno),
                            '%s (the reader of AnyDict arguments) computes a '
                            'value with %s: libxml2\'s text serialisation '
                            'substitutes the replacement text of entity '
                            'reference nodes, so internal entities reach '
                            'user code although the parser resolved '
                            'nothing' % (nm, unparse(c)[:40]))
    res.floor('R4', 'primitive element readers', n, 4)


def rule_option_binding(prog, res, rule='R5'):
    """Every parser option is the constructor argument of the same name (or
    a literal): nothing derived, nothing taken from other state."""
    res.rule(rule, 'every XML parser option is bound to the constructor '
             'argument of the same name')
    init = prog.method('spyne.protocol.xml:XmlDocument', '__init__')
    params = set(init.params())
    val = None
    for n in walk_no_defs(init.node):
        if isinstance(n, ast.Assign) and any(
                isinstance(t, ast.Attribute) and t.attr == 'parser_kwargs'
                for t in n.targets):
            val = n.value
            if isinstance(val, ast.Name):
                loc = local_assignments(init.node, val.id)
                if len(loc) == 1:
                    val = loc[0]
    pairs = {}
    if isinstance(val, ast.Call) and call_name(val) == 'dict':
        for kw in val.keywords:
            if kw.arg is not None:
                pairs[kw.arg] = kw.value
    elif isinstance(val, ast.Dict):
        for k, v in zip(val.keys, val.values):
            if isinstance(k, ast.Constant):
                pairs[k.value] = v
    res.floor(rule, 'parser options passed to lxml', len(pairs), 8)
    rebound = set()
    for n in walk_no_defs(init.node):
        if isinstance(n, ast.Assign):
            for t in n.targets:
                if isinstance(t, ast.Name):
                    rebound.add(t.id)
    for name, v in sorted(pairs.items()):
        ok = isinstance(v, ast.Constant) or (
            isinstance(v, ast.Name) and v.id == name and name in params and
            name not in rebound)
        where = '%s:%d' % (init.module.relpath, v.lineno)
        res.ob(rule, where, 'parser_kwargs[%s] = %s' % (name, unparse(v)),
               'ok' if ok else 'VIOLATED')
        if not ok:
            res.finding(rule, 'XmlDocument.__init__|option-binding|%s|%s' % (
                name, unparse(v)[:30]), where,
                'parser option %s is bound to %s instead of the constructor '
                'argument %s: the option the deployer passed (or left at its '
                'default, e.g. encoding=None = "honour the document\'s own '
                'declaration") is replaced by other state' % (
                    name, unparse(v)[:40], name))



def rule_clean_tree(prog, res, rule='R6'):
    """Comments and processing instructions never reach the readers."""
    res.rule(rule, 'the parser hands the readers a tree without comments '
             'and processing instructions (effective option values)')
    init = prog.method('spyne.protocol.xml:XmlDocument', '__init__')
    a = init.node.args
    pos = a.args
    defaults = [None] * (len(pos) - len(a.defaults)) + list(a.defaults)
    dmap = {p_.arg: d for p_, d in zip(pos, defaults)}
    val = None
    for n in walk_no_defs(init.node):
        if isinstance(n, ast.Assign) and any(
                isinstance(t, ast.Attribute) and t.attr == 'parser_kwargs'
                for t in n.targets):
            val = n.value
        if isinstance(n, ast.Call) and isinstance(n.func, ast.Attribute) and \
                n.func.attr == 'update' and unparse(n.func.value).endswith(
                'parser_kwargs'):
            val = n
    pairs = {}
    if isinstance(val, ast.Call):
        for kw in val.keywords:
            if kw.arg:
                pairs[kw.arg] = kw.value
    elif isinstance(val, ast.Dict):
        for k, v in zip(val.keys, val.values):
            if isinstance(k, ast.Constant):
                pairs[k.value] = v
    n_ = 0
    for name in ('remove_comments', 'remove_pis'):
        v = pairs.get(name)
        eff = None
        if isinstance(v, ast.Constant):
            eff = v.value
        elif isinstance(v, ast.Name) and isinstance(dmap.get(v.id),
                                                    ast.Constant):
            eff = dmap[v.id].value
        n_ += 1
        ok = eff is True
        res.ob(rule, init.where, 'effective default of %s: %r' % (name, eff),
               'ok' if ok else 'VIOLATED')
        if not ok:
            res.finding(rule, 'XmlDocument.__init__|%s|effective|%r' % (
                name, eff), init.where,
                'with the default configuration the XML parser keeps %s '
                '(%s=%r): element.text stops at the first such node, so a '
                'value split by a comment is validated and delivered '
                'truncated, and structural readers meet nodes whose tag is '
                'not a string' % ('comments' if 'comments' in name else
                                  'processing instructions', name, eff))
    res.floor(rule, 'tree-cleaning options', n_, 2)



def _tail(prog, res, tier):
    res.run_rule(rule_clean_tree, prog, res)
    res.run_rule(rule_r4, prog, res)
    res.run_rule(rule_option_binding, prog, res)
    res.run_rule(rule_r7, prog, res)
    res.run_rule(rule_r8, prog, res)
    # subclasses forward *args/**kwargs unchanged
    xmldoc = prog.cls('spyne.protocol.xml:XmlDocument')
    n_sub = 0
    for c in prog.subclasses(xmldoc, strict=True):
        if '__init__' not in c.methods:
            continue
        if c.fq not in XML_CLASSES and tier == 'quick':
            continue
        f = c.methods['__init__']
        n_sub += 1
        sup = [x for x in calls_in(f.node) if call_name(x) == '__init__']
        bad = None
        names = set(SAFE_DEFAULTS)
        for call in sup:
            for kw in call.keywords:
                if kw.arg in names:
                    want = SAFE_DEFAULTS[kw.arg]
                    if not (isinstance(kw.value, ast.Constant) and
                            kw.value.value is want) and not (
                            isinstance(kw.value, ast.Name) and
                            kw.value.id == kw.arg):
                        bad = '%s=%s' % (kw.arg, unparse(kw.value))
        own = f.node.args
        odef = [None] * (len(own.args) - len(own.defaults)) + \
            list(own.defaults)
        for p, d in zip(own.args, odef):
            if p.arg in names and isinstance(d, ast.Constant) and \
                    d.value is not SAFE_DEFAULTS[p.arg]:
                bad = 'default %s=%r' % (p.arg, d.value)
        if bad:
            res.ob('R2', f.where, c.name + '.__init__ forwards ' + bad,
                   'VIOLATED')
            res.finding('R2', '%s.__init__|%s' % (c.name, bad), f.where,
                        'subclass constructor overrides a safe parser '
                        'default: ' + bad)
        else:
            res.ob('R2', f.where, c.name + '.__init__ forwards parser options '
                   'unchanged', 'ok')
    res.count('subclass_ctors', n_sub)
    # R3: syntax errors (also entity/nesting bombs rejected by libxml2) leave
    # the XML protocols only as client faults
    from . import c10
    from ..callgraph import CallGraph as _CG
    from ..excflow import ExcFlow
    from ..report import Result
    saved = c10.PARSING_PROTOCOLS
    c10.PARSING_PROTOCOLS = [p for p in saved if 'xml' in p or 'soap' in p]
    try:
        res.share('R3', 'XML syntax errors (including rejected bombs) '
                  'become Client faults on every path of create_in_document '
                  '(C10-R2)', 'C10', c10.rule_r2, prog, Result,
                  ExcFlow(prog, _CG(prog)))
    finally:
        c10.PARSING_PROTOCOLS = saved


_X = 'spyne/protocol/xml.py'
_S = 'spyne/protocol/soap/soap11.py'
_M = 'spyne/protocol/soap/mime.py'

MUTANTS = [
    Mutant('soap-skips-entity-gate', 'R8', 'fire',
           'spyne/protocol/soap/soap11.py',
           in_func('Soap11.create_in_document',
                   "self._reject_entity_declarations(ctx.in_document[0])",
                   "pass"), 'gate-skipped'),
    Mutant('entity-gate-only-for-soft-validation', 'R8', 'fire',
           'spyne/protocol/xml.py',
           in_func('XmlDocument._reject_entity_declarations',
                   "        if self.parser_kwargs.get('resolve_entities'):",
                   "        if self.parser_kwargs.get('resolve_entities') or "
                   "self.validator is None:"), 'extra-condition'),
    Mutant('huge-tree-second-chance', 'R1', 'fire', 'spyne/protocol/xml.py',
           in_func('XmlDocument.create_in_document',
                   "            except ValueError:\n",
                   "            except XMLSyntaxError as e:\n"
                   "                if 'XML_PARSE_HUGE' not in str(e):\n"
                   "                    raise\n"
                   "                ctx.in_document = etree.fromstring(string, "
                   "parser=XMLParser(\n"
                   "                    **dict(self.parser_kwargs, "
                   "huge_tree=True)))\n"
                   "            except ValueError:\n"), 'modified-options'),
    Mutant('anyxml-value-default-parser', 'R7', 'fire',
           'spyne/protocol/_inbase.py',
           in_func('InProtocolBase.any_xml_from_bytes',
                   "return etree.fromstring(string, parser=parser)",
                   "return etree.fromstring(string)"), 'value-parser'),
    Mutant('anyxml-value-parser-entities-on', 'R7', 'fire',
           'spyne/protocol/_inbase.py',
           in_func('InProtocolBase.any_xml_from_bytes',
                   "resolve_entities=False, ", ""), 'value-parser'),
    Mutant('anyxml-text-reparsed-in-element-reader', 'R7', 'fire',
           'spyne/protocol/xml.py',
           in_func('XmlDocument.xml_from_element',
                   "            retval = element.getchildren()[0]\n",
                   "            retval = element.getchildren()[0]\n"
                   "        elif element.text:\n"
                   "            retval = etree.fromstring(element.text)\n"),
           'value-parser'),
    Mutant('comments-kept-by-default', 'R6', 'fire', _X,
           lambda src: src.replace("            remove_comments=True,\n",
                                   "            remove_comments=False,\n"),
           'remove_comments'),
    Mutant('pis-kept-by-default', 'R6', 'fire', _X,
           lambda src: src.replace("                remove_pis=True,\n",
                                   "                remove_pis=False,\n"),
           'remove_pis'),
    Mutant('anydict-mixed-content-text', 'R4', 'fire',
           'spyne/util/etreeconv.py',
           in_func('etree_to_dict', "        retval = element.text\n",
                   "        retval = etree.tostring(element, method='text', "
                   "encoding='unicode')\n"), 'text-harvest'),
    Mutant('parser-encoding-from-self', 'R5', 'fire', _X,
           in_func('XmlDocument.__init__', "            encoding=encoding,\n",
                   "            encoding=self.encoding,\n"),
           'option-binding'),
    Mutant('options-filtered-truthy', 'R2', 'fire', _X,
           in_func('XmlDocument.__init__', "            encoding=encoding,\n"
                   "        )",
                   "            encoding=encoding,\n        )\n"
                   "        self.parser_kwargs = dict((k, v) for k, v in "
                   "self.parser_kwargs.items() if v)"), 'parser_kwargs'),
    Mutant('per-request-huge-tree', 'R1', 'fire', _S,
           in_func('Soap11.create_in_document',
                   r"ctx\.in_document = _parse_xml_string\(ctx\.in_string,\s*"
                   r"XMLParser\(\*\*self\.parser_kwargs\),",
                   "kw = dict(self.parser_kwargs, huge_tree=True)\n"
                   "        ctx.in_document = _parse_xml_string(ctx.in_string,"
                   " XMLParser(**kw),", regex=True), 'modified-options'),
    Mutant('parser-options-aliased', 'R1', 'benign', _S,
           in_func('Soap11.create_in_document',
                   r"ctx\.in_document = _parse_xml_string\(ctx\.in_string,\s*"
                   r"XMLParser\(\*\*self\.parser_kwargs\),",
                   "kw = self.parser_kwargs\n"
                   "        ctx.in_document = _parse_xml_string(ctx.in_string,"
                   " XMLParser(**kw),", regex=True), None),
    Mutant('unicode-string-value', 'R4', 'fire', _X,
           in_func('XmlDocument.unicode_from_element',
                   "        s = element.text\n",
                   "        s = element.xpath('string()')\n"),
           'text-harvest'),
    Mutant('default-resolve-entities', 'R2', 'fire', _X,
           in_func('XmlDocument.__init__', 'resolve_entities=False',
                   'resolve_entities=True'), 'resolve_entities'),
    Mutant('default-no-network', 'R2', 'fire', _X,
           in_func('XmlDocument.__init__', 'no_network=True,',
                   'no_network=False,'), 'no_network'),
    Mutant('default-load-dtd', 'R2', 'fire', _X,
           in_func('XmlDocument.__init__', 'load_dtd=False',
                   'load_dtd=True'), 'load_dtd'),
    Mutant('default-huge-tree', 'R2', 'fire', _X,
           in_func('XmlDocument.__init__', 'huge_tree=False',
                   'huge_tree=True'), 'huge_tree'),
    Mutant('kwargs-swap', 'R2', 'fire', _X,
           in_func('XmlDocument.__init__', 'resolve_entities=resolve_entities',
                   'resolve_entities=strip_cdata'), 'resolve_entities'),
    Mutant('kwargs-negate', 'R2', 'fire', _X,
           in_func('XmlDocument.__init__', 'no_network=no_network',
                   'no_network=not no_network'), 'no_network'),
    Mutant('kwargs-drop', 'R2', 'fire', _X,
           in_func('XmlDocument.__init__',
                   'resolve_entities=resolve_entities,\n', '\n'),
           'resolve_entities'),
    Mutant('comments-kept', 'R2', 'fire', _X,
           in_func('XmlDocument.__init__', 'remove_comments=True',
                   'remove_comments=False'), 'remove_comments'),
    Mutant('late-store', 'R2', 'fire', _X,
           in_func('XmlDocument.set_validator',
                   'self.validation_schema = None',
                   "self.validation_schema = None\n        "
                   "self.parser_kwargs['resolve_entities'] = True"), 'store'),
    Mutant('xml-default-parser', 'R1', 'fire', _X,
           in_func('XmlDocument.create_in_document',
                   'parser=XMLParser(**self.parser_kwargs))', ')', count=1),
           'XmlDocument.create_in_document'),
    Mutant('soap-default-parser', 'R1', 'fire', _S,
           in_func('Soap11.create_in_document',
                   'XMLParser(**self.parser_kwargs)', 'None'),
           '_join_attachment'),
    Mutant('soap-default-parser-both', 'R1', 'fire', _S,
           in_func('Soap11.create_in_document',
                   'XMLParser(**self.parser_kwargs)', 'None', count=2),
           '_parse_xml_string'),
    Mutant('mime-drop-parser', 'R1', 'fire', _M,
           in_func('_join_attachment', 'etree.fromstring(envelope, '
                   'parser=parser)', 'etree.fromstring(envelope)'),
           '_join_attachment'),
    Mutant('soap-fresh-unconfigured-parser', 'R1', 'fire', _S,
           in_func('_parse_xml_string',
                   'root, xmlids = etree.XMLID(string, parser)',
                   'root, xmlids = etree.XMLID(string)'),
           '_parse_xml_string'),
    Mutant('class-level-parser-cache', 'R1', 'fire', _X,
           in_func('XmlDocument',
                   r"    def create_in_document\(self, ctx, charset=None\):"
                   r"(.*?)parser=XMLParser\(\*\*self\.parser_kwargs\)\)",
                   lambda m_: "    _cache = {}\n\n"
                   "    def get_parser(self):\n"
                   "        if 'p' not in self._cache:\n"
                   "            self._cache['p'] = XMLParser(**self."
                   "parser_kwargs)\n        return self._cache['p']\n\n"
                   "    def create_in_document(self, ctx, charset=None):" +
                   m_.group(1) + "parser=self.get_parser())", regex=True),
           'shared-parser'),
    Mutant('twin-instance-level-parser-cache', 'R1', 'benign', _X,
           in_func('XmlDocument',
                   r"    def create_in_document\(self, ctx, charset=None\):"
                   r"(.*?)parser=XMLParser\(\*\*self\.parser_kwargs\)\)",
                   lambda m_: "    def get_parser(self):\n"
                   "        return XMLParser(**self.parser_kwargs)\n\n"
                   "    def create_in_document(self, ctx, charset=None):" +
                   m_.group(1) + "parser=self.get_parser())", regex=True),
           ''),
    Mutant('soap-flattened-try', 'R3', 'fire', _S,
           in_func('_parse_xml_string',
                   r"        try:\n            root, xmlids = etree\.XMLID\("
                   r"string, parser\)\n\n        except ValueError as e:\n"
                   r"(.*?)parser\)\n\n    except \(XMLSyntaxError, Unicode"
                   r"DecodeError, LookupError\) as e:",
                   "        root, xmlids = etree.XMLID(string, parser)\n\n"
                   "    except ValueError as e:\n"
                   "        root, xmlids = etree.XMLID(string.encode(charset),"
                   " parser)\n\n"
                   "    except (XMLSyntaxError, UnicodeDecodeError, "
                   "LookupError) as e:", regex=True), 'XMLSyntaxError'),
    Mutant('twin-parser-local', 'R1', 'benign', _X,
           in_func('XmlDocument.create_in_document',
                   "string = b''.join(ctx.in_string)",
                   "string = b''.join(ctx.in_string)\n        "
                   "prs = XMLParser(**self.parser_kwargs)"), ''),
    Mutant('twin-parser-local-used', 'R1', 'benign', _X,
           in_func('XmlDocument.create_in_document',
                   r"string = b''\.join\(ctx\.in_string\)(.*?)"
                   r"parser=XMLParser\(\*\*self\.parser_kwargs\)\)",
                   "string = b''.join(ctx.in_string)\n        "
                   "prs = XMLParser(**self.parser_kwargs)\\1parser=prs)",
                   regex=True), ''),
    Mutant('twin-soap-local', 'R1', 'benign', _S,
           in_func('Soap11.create_in_document',
                   r"ctx\.in_document = _parse_xml_string\(ctx\.in_string,\s*"
                   r"XMLParser\(\*\*self\.parser_kwargs\),",
                   "prs = XMLParser(**self.parser_kwargs)\n        "
                   "ctx.in_document = _parse_xml_string(ctx.in_string, prs,",
                   regex=True), ''),
]

LEVEL_TEXT = ('Static who-may-parse and constant-folding check: every lxml '
              'parse reachable from the XML protocols\' request entry points '
              'receives XMLParser(**self.parser_kwargs) (flow through locals/'
              'parameters over all resolved callers), and the folded defaults '
              'and dict bindings of the parser options are the safe ones. '
              'Decides the configuration clause for every path and subclass; '
              'does not decide libxml2 behaviour or resource bounds.')
LEVEL_NOTE = ('Trusted: lxml honours its parser options; call resolution '
              'over strong edges finds every request-path parse (handler '
              'tables and parameters are followed, dynamic getattr is not).')
TECHNIQUE = 'call-graph reachability + parameter flow + constant folding (ast)'
