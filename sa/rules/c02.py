"""C02 - dict-document wire fidelity (JSON, YAML, MessagePack).  Structural
clauses only."""
import ast

from ..core import (AnalysisError, dotted, unparse, calls_in, call_name,
                    walk_no_defs, parent, ancestors, ClassInfo, FuncInfo)
from ..flow import guards_at, flatten_guards
from ..constfold import try_fold
from ..tables import tables_of
from ..mutate import Mutant, in_func
from .. import guardspec
from . import c01, c18
from ..report import Result

ID = 'C02'
EXPLANATION = (
    'R1 result plumbing per body style (as C01-R1) for '
    'HierDictDocument.serialize and MessagePackRpc.serialize. R2 one field '
    'enumeration for reader and writer: the positional (list) reader and the '
    'member writer both derive the member sequence from the flattened type '
    'info (parents first) and apply the same exc filter; per-class data is '
    'never cached under the bare type name (two classes may share it). '
    'R3 pass-through table symmetry: per protocol class the model classes '
    'passed through unchanged on input equal those on output, they are a '
    'subset of {Integer, Double, Boolean}, Decimal is not among them. '
    'R4 the MessagePack integer window is folded from the source and equals '
    'msgpack\'s native range [-2^63, 2^64-1]. R5 absence tests on values '
    'that may be empty containers are identity tests with None (an empty '
    'array is a value). Not decided: value equality, Unicode coverage, key '
    'type handling of msgpack documents.')
ASSUMPTIONS = ['msgpack packs Python ints in [-2^63, 2^64-1] natively']
LEVEL_TEXT = (
    'Static finite-domain plumbing check, reader/writer enumeration '
    'agreement, handler-table symmetry, constant folding of the msgpack '
    'integer window, and None-identity discipline in the document writers. '
    'Decides these structural clauses for every dict protocol class.')
LEVEL_NOTE = 'Trusted: msgpack integer range; cdict lookup semantics.'
TECHNIQUE = ('finite-domain evaluation + table symmetry + constant folding + '
             'truthiness-vs-identity reading + propositional entailment over '
             'dominating guards (ast)')

HIER = 'spyne.protocol.dictdoc.hier:HierDictDocument'
PASS_OK = {'Integer', 'Double', 'Boolean'}


def rule_r1(prog, res):
    res.rule('R1', 'results are plumbed per body style in the dict protocols')
    n = 0
    for cfq in (HIER, 'spyne.protocol.msgpack:MessagePackRpc'):
        n += c01.check_plumbing(prog, res, 'R1', prog.cls(cfq))
    res.floor('R1', 'dict-protocol serialize implementations', n, 2)
    j = prog.cls('spyne.protocol.json:_SpyneJsonRpc1', required=False)
    if j is not None and 'serialize' in j.methods:
        res.note('_SpyneJsonRpc1.serialize treats every body style as wrapped '
                 '(experimental protocol outside the property\'s quantifier)')


def rule_r2(prog, res):
    res.rule('R2', 'reader and writer enumerate the same members; no cache '
             'keyed by the bare class name')
    h = prog.cls(HIER)
    rd = h.methods.get('_doc_to_object')
    wr = h.methods.get('_get_member_pairs')
    if rd is None or wr is None:
        raise AnalysisError('HierDictDocument reader/writer', 'not found')
    # reader: positional pairing zip(<names from flat type info, exc
    # filtered>, doc)
    zips = [c for c in calls_in(rd.node) if call_name(c) == 'zip']
    res.floor('R2', 'positional pairing in _doc_to_object', len(zips), 1)
    for z in zips:
        a0 = z.args[0]
        where = '%s:%d' % (rd.module.relpath, z.lineno)
        src = a0
        if isinstance(a0, ast.Name):
            defs = [n.value for n in walk_no_defs(rd.node)
                    if isinstance(n, ast.Assign) and any(
                        isinstance(t, ast.Name) and t.id == a0.id
                        for t in n.targets)]
            src = defs[-1] if defs else a0
        t = unparse(src)
        flat = 'flat_type_info.items()' in t or 'get_flat_type_info' in t
        exc = '.exc' in t
        cached = '.get(' in t or 'cache' in t.lower()
        ok = flat and exc and not cached
        res.ob('R2', where, 'reader pairs positional values with %s' %
               t[:70], 'ok' if ok else 'VIOLATED')
        if not flat:
            res.finding('R2', 'HierDictDocument._doc_to_object|not-flat',
                        where, 'positional documents are paired with %s '
                        'instead of the flattened (parents first) type info'
                        % t[:60])
        elif not exc and not cached:
            res.finding('R2', 'HierDictDocument._doc_to_object|no-exc-filter',
                        where, 'the positional reader does not skip excluded '
                        'members although the writer does: every later value '
                        'is bound to the wrong member')
    ft = [n for n in walk_no_defs(rd.node) if isinstance(n, ast.Assign) and
          unparse(n.targets[0]) == 'flat_type_info']
    ok = any(unparse(n.value) == 'cls.get_flat_type_info(cls)' for n in ft)
    res.ob('R2', rd.where, 'reader: flat_type_info = cls.get_flat_type_info('
           'cls)', 'ok' if ok else 'VIOLATED')
    if not ok:
        res.finding('R2', 'HierDictDocument._doc_to_object|type-info-source',
                    rd.where, 'the reader no longer uses the flattened type '
                    'info (inherited members would be dropped)')
    # writer
    loops = [n for n in walk_no_defs(wr.node) if isinstance(n, ast.For)]
    its = [unparse(l.iter) for l in loops]
    ok = any(i in ('self.sort_fields(cls)',
                   'cls.get_flat_type_info(cls).items()') for i in its)
    res.ob('R2', wr.where, 'writer iterates %s' % its, 'ok' if ok else
           'VIOLATED')
    if not ok:
        res.finding('R2', 'HierDictDocument._get_member_pairs|source|%s' %
                    its, wr.where, 'the member writer iterates %s, not the '
                    'flattened/sorted fields: inherited members are dropped '
                    'or reordered relative to the positional reader' % its)
    t = unparse(wr.node)
    ok = 'subattr.exc' in t and 'continue' in t
    res.ob('R2', wr.where, 'writer skips excluded members', 'ok' if ok else
           'VIOLATED')
    if not ok:
        res.finding('R2', 'HierDictDocument._get_member_pairs|exc', wr.where,
                    'the writer no longer skips excluded members')
    sf = prog.method('spyne.protocol._base:ProtocolMixin', 'sort_fields')
    t = unparse(sf.node)
    ok = 'cls.get_flat_type_info(cls).items()' in t
    res.ob('R2', sf.where, 'sort_fields starts from the flattened type info',
           'ok' if ok else 'VIOLATED')
    if not ok:
        res.finding('R2', 'ProtocolMixin.sort_fields|source', sf.where,
                    'sort_fields no longer starts from get_flat_type_info')
    # caches keyed by a class NAME
    n = 0
    for cfq in (HIER, 'spyne.protocol.dictdoc._base:DictDocument',
                'spyne.protocol.dictdoc.simple:SimpleDictDocument'):
        c = prog.cls(cfq)
        for f in c.methods.values():
            name_vars = set()
            for node in walk_no_defs(f.node):
                if isinstance(node, ast.Assign) and isinstance(
                        node.value, ast.Call) and call_name(node.value) in (
                        'get_class_name', 'get_type_name'):
                    for t_ in node.targets:
                        if isinstance(t_, ast.Name):
                            name_vars.add(t_.id)
            for node in walk_no_defs(f.node):
                tgt = None
                if isinstance(node, ast.Assign):
                    for t_ in node.targets:
                        if isinstance(t_, ast.Subscript) and isinstance(
                                t_.value, ast.Attribute) and dotted(
                                t_.value.value) == 'self':
                            tgt = t_
                if tgt is None:
                    continue
                n += 1
                key = tgt.slice
                by_name = (isinstance(key, ast.Name) and key.id in name_vars) \
                    or (isinstance(key, ast.Call) and call_name(key) in (
                        'get_class_name', 'get_type_name')) or (
                    isinstance(key, ast.Attribute) and key.attr == '__name__')
                where = '%s:%d' % (f.module.relpath, node.lineno)
                if by_name:
                    res.ob('R2', where, '%s stores %s' % (f.qualname,
                                                          unparse(tgt)),
                           'VIOLATED')
                    res.finding('R2', '%s|name-keyed-cache|%s' % (
                        f.qualname, unparse(tgt.value)), where,
                        'per-class data is cached in %s under the bare type '
                        'name: two classes with the same name in different '
                        'namespaces share the entry, so positional documents '
                        'of the second are decoded with the first one\'s '
                        'field list' % unparse(tgt.value))
    res.count('protocol_instance_stores', n)


def _targets(tab):
    out = {}
    for k, e in tab.items():
        if isinstance(e.target, FuncInfo):
            out[k] = e.target.name
    return out


def rule_r3(prog, res):
    res.rule('R3', 'pass-through tables are symmetric and limited to '
             'Integer/Double/Boolean')
    n = 0
    for cfq in ('spyne.protocol.json:JsonDocument',
                'spyne.protocol.yaml:YamlDocument',
                'spyne.protocol.msgpack:MessagePackDocument'):
        c = prog.cls(cfq)
        tabs = tables_of(prog, c)
        init = c.methods.get('__init__')
        # overrides made by this class's own constructor
        own = {}
        for tname in ('_from_unicode_handlers', '_to_unicode_handlers',
                      '_from_bytes_handlers', '_to_bytes_handlers'):
            own[tname] = {k: e for k, e in tabs.get(tname, {}).items()
                          if e.owner is c}
        for rt, wt in (('_from_unicode_handlers', '_to_unicode_handlers'),
                       ('_from_bytes_handlers', '_to_bytes_handlers')):
            rk, wk = set(own[rt]), set(own[wt])
            if not rk and not wk:
                continue
            n += 1
            where = init.where if init else c.where
            ok = rk == wk
            res.ob('R3', where, '%s: %s overrides %s, %s overrides %s' % (
                c.name, rt, sorted(rk), wt, sorted(wk)),
                'ok' if ok else 'VIOLATED')
            if not ok:
                res.finding('R3', '%s|asymmetric|%s|%s' % (
                    c.name, sorted(rk - wk), sorted(wk - rk)), where,
                    '%s passes %s through on input only and %s on output '
                    'only: the other side uses the text codec, so the value '
                    'changes kind on the wire' % (c.name, sorted(rk - wk),
                                                  sorted(wk - rk)))
            extra = (rk | wk) - PASS_OK
            if extra:
                res.ob('R3', where, '%s passes %s through' % (c.name,
                                                              sorted(extra)),
                       'VIOLATED')
                res.finding('R3', '%s|pass-through|%s' % (c.name,
                                                          sorted(extra)),
                            where, '%s is passed through the document '
                            'library unchanged: %s' % (
                                sorted(extra), 'a Decimal would go through a '
                                'binary float' if 'Decimal' in extra else
                                'only numbers and booleans have a native '
                                'form in these formats'))
    res.floor('R3', 'pass-through table pairs', n, 3)


def rule_r4(prog, res):
    res.rule('R4', 'MessagePack integer window equals msgpack\'s native '
             'range')
    c = prog.cls('spyne.protocol.msgpack:MessagePackDocument')
    f = c.methods.get('integer_to_bytes')
    if f is None:
        raise AnalysisError('MessagePackDocument.integer_to_bytes',
                            'not found')
    ifs = [n for n in walk_no_defs(f.node) if isinstance(n, ast.If)]
    found = False
    for n in ifs:
        t = n.test
        n_body, n_orelse = n.body, n.orelse
        if isinstance(t, ast.UnaryOp) and isinstance(t.op, ast.Not):
            # branches swapped under a negated window test
            t = t.operand
            n_body, n_orelse = n.orelse, n.body
        where = '%s:%d' % (f.module.relpath, n.lineno)
        if isinstance(t, ast.Compare) and len(t.ops) == 2 and unparse(
                t.comparators[0]) == 'value':
            found = True
            ok1, lo = try_fold(prog, f.module, t.left)
            ok2, hi = try_fold(prog, f.module, t.comparators[1])
            lo_ok = ok1 and ((isinstance(t.ops[0], ast.LtE) and lo == -2 ** 63)
                             or (isinstance(t.ops[0], ast.Lt) and
                                 lo == -2 ** 63 - 1))
            hi_ok = ok2 and ((isinstance(t.ops[1], ast.Lt) and hi == 2 ** 64)
                             or (isinstance(t.ops[1], ast.LtE) and
                                 hi == 2 ** 64 - 1))
            native = any(isinstance(s, ast.Return) and unparse(s.value) ==
                         'value' for s in n_body)
            fallback = any(isinstance(s, ast.Return) and 'integer_to_bytes'
                           in unparse(s.value) for s in n_orelse)
            ok = lo_ok and hi_ok and native and fallback
            res.ob('R4', where, 'integer_to_bytes: native iff %s (folds to '
                   '[%s, %s]); else text form' % (unparse(t), lo, hi),
                   'ok' if ok else 'VIOLATED')
            if not ok:
                res.finding('R4', 'MessagePackDocument.integer_to_bytes|'
                            'window|%s' % unparse(t), where, 'integers are '
                            'handed to msgpack natively iff %s, which folds '
                            'to lower=%s upper=%s; msgpack packs exactly '
                            '[-2^63, 2^64-1] and the rest must fall back to '
                            'the text form' % (unparse(t), lo, hi))
    if not found:
        res.ob('R4', f.where, 'integer_to_bytes: no constant window test',
               'VIOLATED')
        res.finding('R4', 'MessagePackDocument.integer_to_bytes|no-window',
                    f.where, 'the native/text decision is not a comparison of '
                    'the value with constant bounds (%s): e.g. '
                    'value.bit_length() <= 64 also admits (-2^64, -2^63), '
                    'which msgpack cannot pack' % [unparse(n.test)
                                                   for n in ifs][:2])


def rule_r5(prog, res):
    res.rule('R5', 'absence of a value is tested with "is None", not '
             'truthiness')
    h = prog.cls(HIER)
    n = 0
    for nm in ('_object_to_doc', '_get_member_pairs', '_to_dict_value',
               '_complex_to_doc', '_complex_to_dict', '_complex_to_list'):
        f = h.methods.get(nm)
        if f is None:
            continue
        values = {'inst', 'subinst', 'val', 'value', 'subvalue', 'retval'}
        for node in walk_no_defs(f.node):
            if not isinstance(node, (ast.If, ast.IfExp, ast.While)):
                continue
            t = node.test
            atoms = []
            todo = [t]
            while todo:
                e = todo.pop()
                if isinstance(e, ast.BoolOp):
                    todo.extend(e.values)
                elif isinstance(e, ast.UnaryOp) and isinstance(e.op, ast.Not):
                    todo.append(e.operand)
                else:
                    atoms.append(e)
            for a in atoms:
                if isinstance(a, ast.Name) and a.id in values:
                    n += 1
                    where = '%s:%d' % (f.module.relpath, node.lineno)
                    res.ob('R5', where, '%s tests the truthiness of %s' % (
                        f.qualname, a.id), 'VIOLATED')
                    res.finding('R5', '%s|truthiness|%s' % (f.qualname, a.id),
                                where, '%s decides presence by the truthiness '
                                'of %s: an empty array (or 0, "", False) is '
                                'written as null / omitted instead of as the '
                                'value that was returned' % (f.qualname,
                                                             a.id))
                elif isinstance(a, ast.Compare) and isinstance(
                        a.left, ast.Name) and a.left.id in values and \
                        isinstance(a.ops[0], (ast.Is, ast.IsNot)):
                    n += 1
                    res.ob('R5', '%s:%d' % (f.module.relpath, node.lineno),
                           '%s: %s' % (f.qualname, unparse(a)), 'ok')
    res.floor('R5', 'presence tests in the document writers', n, 3)
    f = h.methods.get('deserialize')
    if f is not None:
        from .. import guardspec as _gs
        _gs.presence_rule(res, 'R5', [f], ('doc', 'message_doc'),
                          'a message that is 0, "", False, [] or {} is taken '
                          'for a missing one: the bare argument (or the '
                          'defaults of an empty wrapped call) is lost')


# ------------------------------------------------------------------- R6
MUTATORS = ('add', 'update', 'discard', 'remove', 'clear', 'pop',
            'difference_update', 'intersection_update',
            'symmetric_difference_update', 'append', 'extend')


def rule_r6(prog, res):
    res.rule('R6', 'the cycle guard set is extended by copy: siblings never '
             'see each other\'s instances')
    n = 0
    for cfq in (HIER, 'spyne.protocol.xml:XmlDocument',
                'spyne.protocol.cloth.to_parent:ToParentMixin'):
        c = prog.cls(cfq, required=False)
        if c is None:
            continue
        for nm, f in sorted(c.methods.items()):
            if 'tags' not in f.params():
                continue
            n += 1
            bad = []
            for node in walk_no_defs(f.node):
                if isinstance(node, ast.Call) and isinstance(
                        node.func, ast.Attribute) and isinstance(
                        node.func.value, ast.Name) and \
                        node.func.value.id == 'tags' and \
                        node.func.attr in MUTATORS:
                    bad.append((node, 'tags.%s()' % node.func.attr))
                if isinstance(node, ast.AugAssign) and isinstance(
                        node.target, ast.Name) and node.target.id == 'tags':
                    bad.append((node, 'tags %s=' % type(node.op).__name__))
            # a rebinding before the mutation makes it a private copy
            rebinds = [x.lineno for x in walk_no_defs(f.node)
                       if isinstance(x, ast.Assign) and any(
                           isinstance(t, ast.Name) and t.id == 'tags'
                           for t in x.targets) and isinstance(
                           x.value, (ast.BinOp, ast.Call, ast.Set))]
            bad = [(b, w) for b, w in bad
                   if not any(l < b.lineno for l in rebinds)]
            res.ob('R6', f.where, '%s: parameter tags %s' % (
                f.qualname, 'mutated in place' if bad else
                'only read or rebound to a copy'),
                'VIOLATED' if bad else 'ok')
            for b, w in bad:
                res.finding('R6', '%s|tags-mutated|%s' % (f.qualname, w),
                            '%s:%d' % (f.module.relpath, b.lineno),
                            '%s mutates the caller\'s cycle-guard set (%s): '
                            'an object referenced from two sibling members '
                            'or two array items is taken for a cycle and '
                            'dropped (or the assertion fails) the second '
                            'time' % (f.qualname, w))
    res.floor('R6', 'functions carrying the cycle guard', n, 3)


# ------------------------------------------------------------------- R7
def rule_r7(prog, res):
    res.rule('R7', 'readers take the member table from the class they '
             'instantiate (same binding of cls)')
    n = 0
    for cfq, names in ((HIER, ('_doc_to_object',)),
                       ('spyne.protocol.xml:XmlDocument',
                        ('complex_from_element',))):
        c = prog.cls(cfq, required=False)
        if c is None:
            continue
        for nm in names:
            f = c.methods.get(nm)
            if f is None:
                continue
            uses = []
            for call in calls_in(f.node):
                if call_name(call) in ('get_flat_type_info',
                                       'get_deserialization_instance',
                                       'get_simple_type_info',
                                       'get_simple_type_info_with_prot') and \
                        isinstance(call.func, ast.Attribute) and isinstance(
                        call.func.value, ast.Name):
                    uses.append(call)
            if not uses:
                continue
            uses.sort(key=lambda x: x.lineno)
            var = uses[0].func.value.id
            rebinds = [x for x in walk_no_defs(f.node)
                       if isinstance(x, (ast.Assign, ast.For)) and any(
                           isinstance(t, ast.Name) and t.id == var
                           for tt in (x.targets if isinstance(x, ast.Assign)
                                      else [x.target])
                           for t in ast.walk(tt))]
            n += 1
            late = [r for r in rebinds if r.lineno > uses[0].lineno]
            mixed = [u for u in uses if u.func.value.id != var]
            where = '%s:%d' % (f.module.relpath, uses[0].lineno)
            ok = not late and not mixed
            res.ob('R7', where, '%s: %s all read %s; rebindings of %s at '
                   'lines %s' % (f.qualname,
                                 sorted({call_name(u) for u in uses}), var,
                                 var, [r.lineno for r in rebinds]),
                   'ok' if ok else 'VIOLATED', nontrivial=True)
            for r in late:
                res.finding('R7', '%s|stale-class|%s' % (
                    f.qualname, call_name(uses[0])),
                    '%s:%d' % (f.module.relpath, r.lineno),
                    '%s derives %s from %s at line %d and rebinds %s '
                    'afterwards (line %d): the member table belongs to the '
                    'declared class while the instance is of the class named '
                    'in the document, so the subclass\'s own members are '
                    'dropped' % (f.qualname, call_name(uses[0]), var,
                                 uses[0].lineno, var, r.lineno))
            for u in mixed:
                res.finding('R7', '%s|mixed-class|%s' % (
                    f.qualname, call_name(u)),
                    '%s:%d' % (f.module.relpath, u.lineno),
                    '%s reads %s from %s while the instance comes from %s' %
                    (f.qualname, call_name(u), u.func.value.id, var))
    res.floor('R7', 'reader functions pairing table and instance', n, 2)


# ------------------------------------------------------------------- R8
def rule_r8(prog, res):
    res.rule('R8', 'request bytes are joined before they are decoded (no '
             'per-chunk decode)')
    n = 0
    for c in prog.all_classes():
        if not c.module.name.startswith('spyne.protocol'):
            continue
        f = c.methods.get('create_in_document')
        if f is None:
            continue
        n += 1
        bad = []
        for node in walk_no_defs(f.node):
            loopvars = set()
            if isinstance(node, (ast.GeneratorExp, ast.ListComp,
                                 ast.SetComp)):
                for g in node.generators:
                    if 'in_string' in unparse(g.iter):
                        loopvars |= {t.id for t in ast.walk(g.target)
                                     if isinstance(t, ast.Name)}
                body = [node.elt]
            elif isinstance(node, ast.For) and 'in_string' in unparse(
                    node.iter):
                loopvars = {t.id for t in ast.walk(node.target)
                            if isinstance(t, ast.Name)}
                body = node.body
            else:
                continue
            for b in body:
                for call in ast.walk(b):
                    if isinstance(call, ast.Call) and isinstance(
                            call.func, ast.Attribute) and call.func.attr in (
                            'decode',) and isinstance(
                            call.func.value, ast.Name) and \
                            call.func.value.id in loopvars:
                        bad.append(call)
                    if isinstance(call, ast.Call) and call_name(call) in (
                            'str', 'text_type', 'unicode') and len(
                            call.args) >= 2 and isinstance(
                            call.args[0], ast.Name) and \
                            call.args[0].id in loopvars:
                        bad.append(call)
        res.ob('R8', f.where, '%s: %s' % (
            f.qualname, 'decodes chunk by chunk' if bad else
            'no decode inside an iteration over ctx.in_string'),
            'VIOLATED' if bad else 'ok')
        for call in bad:
            res.finding('R8', '%s|per-chunk-decode' % f.qualname,
                        '%s:%d' % (f.module.relpath, call.lineno),
                        '%s decodes every chunk of ctx.in_string on its own '
                        '(%s): a multi-byte character split across two '
                        'transport chunks raises or is corrupted' % (
                            f.qualname, unparse(call)[:50]))
    res.floor('R8', 'create_in_document implementations', n, 5)


# ------------------------------------------------------------------- R9
def rule_r9(prog, res):
    res.rule('R9', 'the MessagePack big-integer reader accepts both text '
             'kinds the writer and peers can send (str and bytes)')
    c = prog.cls('spyne.protocol.msgpack:MessagePackDocument')
    f = c.methods.get('integer_from_bytes')
    if f is None:
        raise AnalysisError('MessagePackDocument.integer_from_bytes',
                            'not found')
    n = 0
    for call in calls_in(f.node):
        if call_name(call) != 'isinstance' or len(call.args) != 2:
            continue
        n += 1
        t = call.args[1]
        names = [(dotted(e) or unparse(e)).split('.')[-1]
                 for e in (t.elts if isinstance(t, ast.Tuple) else [t])]
        has_bytes = any(x in ('binary_type', 'bytes') for x in names)
        has_text = any(x in ('text_type', 'str', 'string_types', 'unicode')
                       for x in names)
        ok = has_bytes and has_text
        where = '%s:%d' % (f.module.relpath, call.lineno)
        res.ob('R9', where, 'integer_from_bytes: text form recognised by %s'
               % unparse(call)[:60], 'ok' if ok else 'VIOLATED')
        if not ok:
            res.finding('R9', 'MessagePackDocument.integer_from_bytes|kinds|'
                        '%s' % names, where, 'the reader takes only %s for '
                        'the decimal text form of integers outside msgpack\'s '
                        'native window, but integer_to_bytes writes that '
                        'form as bytes (msgpack bin): the server cannot read '
                        'back what it emits' % names)
    res.floor('R9', 'kind tests in integer_from_bytes', n, 1)


def rule_r10(prog, res):
    from . import c08, c16
    res.share('R10', 'binary members are encoded over the joined chunks '
              '(C08-R5); the wrapper-key search uses the transitive subclass '
              'list (C16-R8)', 'C08', c08.rule_b64_joined, prog, Result,
              'R5')
    res.share('R10', 'binary members are encoded over the joined chunks '
              '(C08-R5); the wrapper-key search uses the transitive subclass '
              'list (C16-R8)', 'C16', c16.rule_r8, prog, Result)
    res.share('R10', 'binary members are encoded over the joined chunks '
              '(C08-R5); the wrapper-key search uses the transitive subclass '
              'list (C16-R8)', 'C08', c08.rule_r14, prog, Result)
    res.share('R10', 'binary members are encoded over the joined chunks '
              '(C08-R5); the wrapper-key search uses the transitive subclass '
              'list (C16-R8)', 'C08', c08.rule_r16, prog, Result)
    txt = ('bounds of the fixed-width integers are inclusive (C05-R3); the '
           'duration writer keeps days, seconds and microseconds (C08-R3); '
           'the polymorphic switch looks at the original of the declared '
           'class (C16-R14)')
    res.share('R10', txt, 'C08', c08.rule_r13, prog, Result)
    res.share('R10', txt, 'C08', c08.rule_r3, prog, Result)
    res.share('R10', txt, 'C16', c16.rule_r14, prog, Result)


# ------------------------------------------------------------------ R11
FORWARDING_CLASSES = (
    'spyne.protocol.json:JsonDocument', 'spyne.protocol.json:JsonP',
    'spyne.protocol.yaml:YamlDocument',
    'spyne.protocol.msgpack:MessagePackDocument',
    'spyne.protocol.msgpack:MessagePackRpc', 'spyne.protocol.http:HttpRpc',
    'spyne.protocol.dictdoc.simple:SimpleDictDocument',
    'spyne.protocol.dictdoc.hier:HierDictDocument',
    'spyne.protocol.xml:XmlDocument', 'spyne.protocol.soap.soap11:Soap11',
    'spyne.protocol.soap.soap12:Soap12')


def _init_params(f):
    a = f.node.args
    return [x.arg for x in a.args] + [x.arg for x in a.kwonlyargs]


def rule_r11(prog, res):
    res.rule('R11', 'protocol constructors forward every option they share '
             'with their parent constructor')
    from ..core import ClassInfo
    n = 0
    for cfq in FORWARDING_CLASSES:
        c = prog.cls(cfq, required=False)
        if c is None:
            continue
        f = c.methods.get('__init__')
        if f is None:
            continue
        sup = [x for x in calls_in(f.node) if call_name(x) == '__init__']
        if not sup:
            continue
        parent = None
        for k in prog.mro(c)[1:]:
            if isinstance(k, ClassInfo) and '__init__' in k.methods:
                parent = k
                break
        if parent is None:
            continue
        n += 1
        pp = _init_params(parent.methods['__init__'])
        cp = _init_params(f)
        call = sup[0]
        unbound = isinstance(call.func, ast.Attribute) and isinstance(
            call.func.value, ast.Name) and call.func.value.id[:1].isupper()
        off = 0 if unbound else 1
        passed = {}
        star = False
        for i, a in enumerate(call.args):
            if isinstance(a, ast.Starred):
                star = True
                continue
            j = i + off
            if j < len(pp):
                passed[pp[j]] = a
        for k_ in call.keywords:
            if k_.arg:
                passed[k_.arg] = k_.value
            else:
                star = True
        where = '%s:%d' % (f.module.relpath, call.lineno)
        shared = [p_ for p_ in cp if p_ in pp and p_ != 'self']
        missing = [p_ for p_ in shared if p_ not in passed]
        # **kwargs / *args forwarding covers the rest only when the child
        # does not name the option itself
        res.ob('R11', where, '%s.__init__ -> %s.__init__: %d shared options, '
               '%d forwarded%s' % (c.name, parent.name, len(shared),
                                   len(shared) - len(missing),
                                   ' (+ star forwarding)' if star else ''),
               'VIOLATED' if missing else 'ok')
        for p_ in missing:
            res.finding('R11', '%s.__init__|not-forwarded|%s' % (c.name, p_),
                        where, '%s.__init__ accepts the option %s but does '
                        'not pass it to %s.__init__, which falls back to its '
                        'default: %s(%s=...) is silently ignored while the '
                        'sibling protocols honour it' % (
                            c.name, p_, parent.name, c.name, p_))
    res.floor('R11', 'protocol constructors calling their parent', n, 6)


# ------------------------------------------------------------------ R12
def rule_r12(prog, res):
    res.rule('R12', 'stream decoders are created per request (no decoder '
             'state on the protocol instance)')
    n = 0
    for c in prog.all_classes():
        if not c.module.name.startswith('spyne.protocol'):
            continue
        f = c.methods.get('create_in_document')
        if f is None:
            continue
        n += 1
        bad = []
        for call in calls_in(f.node):
            if isinstance(call.func, ast.Attribute) and call.func.attr in (
                    'feed', 'unpack', 'send') and unparse(
                    call.func.value).startswith('self.'):
                bad.append(call)
        for node in walk_no_defs(f.node):
            if isinstance(node, ast.comprehension) and unparse(
                    node.iter).startswith('self.') and 'unpacker' in unparse(
                    node.iter).lower():
                bad.append(node.iter)
        res.ob('R12', f.where, '%s: %s' % (f.qualname, 'feeds a decoder kept '
               'on the protocol instance' if bad else 'decoders are locals'),
               'VIOLATED' if bad else 'ok')
        for b in bad[:1]:
            res.finding('R12', '%s|instance-decoder|%s' % (
                f.qualname, unparse(b)[:30]),
                '%s:%d' % (f.module.relpath, b.lineno),
                '%s feeds request bytes into %s, a decoder that lives on the '
                'protocol instance: bytes left over from a truncated or '
                'over-long request are prepended to the next request, which '
                'is then refused although it is well-formed' % (
                    f.qualname, unparse(b)[:40]))
    res.floor('R12', 'create_in_document implementations', n, 5)


# ------------------------------------------------------------------ R13
def rule_r13(prog, res):
    res.rule('R13', 'None travels as null and back: every kind check of a '
             'dict-document protocol exempts a null for a nullable member, '
             'and a null complex member is read as None, not as an empty '
             'message')
    from .. import guardspec
    h = prog.cls('spyne.protocol.dictdoc.hier:HierDictDocument')
    n = 0
    for c in [h] + list(prog.subclasses(h, strict=True)):
        f = c.methods.get('validate')
        if f is None or f.cls is not c:
            continue
        ps = [p_ for p_ in f.params() if p_ != 'self']
        if len(ps) < 3:
            continue
        val = ps[2]
        for r in walk_no_defs(f.node):
            if not isinstance(r, ast.Raise):
                continue
            n += 1
            atoms = guardspec.atoms_at(r, f.node)
            ok = any(('%s is None' % val) in t or ('%s is not None' % val)
                     in t for t, _ in atoms)
            where = '%s:%d' % (f.module.relpath, r.lineno)
            res.ob('R13', where, '%s.validate rejects under %s' % (
                c.name, [t for t, _ in atoms][:4]), 'ok' if ok else 'VIOLATED')
            if not ok:
                res.finding('R13', '%s.validate|null-not-exempt' % c.name,
                            where, '%s.validate can reject without having '
                            'looked at whether the value is None: the null '
                            'the writer emits for a None member of a nullable '
                            'type is refused under soft validation' % c.name)
    res.floor('R13', 'rejections in dict-document kind checks', n, 2)
    f = h.methods['_from_dict_value']
    k = 0
    for call in calls_in(f.node):
        if call_name(call) != '_doc_to_object':
            continue
        st = call
        while not isinstance(st, ast.stmt):
            st = st._parent
        atoms = guardspec.atoms_at(st, f.node)
        if not any('ComplexModelBase' in t and pol for t, pol in atoms):
            continue
        k += 1
        ok = any(t == 'inst is None' and not pol for t, pol in atoms)
        where = '%s:%d' % (f.module.relpath, call.lineno)
        res.ob('R13', where, '_from_dict_value reads a complex member %s' % (
            'only when it is not null' if ok else 'even when it is null'),
            'ok' if ok else 'VIOLATED')
        if not ok:
            res.finding('R13', 'HierDictDocument._from_dict_value|null-'
                        'member-as-message', where, 'a null complex member is '
                        'handed to _doc_to_object, which answers "no '
                        'document" with an empty argument list: the member '
                        'is delivered as [] where None was sent')
    res.floor('R13', 'complex member reads', k, 1)


# ------------------------------------------------------------------ R14
def rule_r14(prog, res):
    res.rule('R14', 'the writer removes one level of array wrapping per level '
             'of list nesting (arrays of arrays keep their shape)')
    h = prog.cls('spyne.protocol.dictdoc.hier:HierDictDocument')
    f = h.methods.get('_object_to_doc')
    if f is None:
        raise AnalysisError('HierDictDocument._object_to_doc', 'not found')
    loops = [w for w in walk_no_defs(f.node) if isinstance(w, ast.While) and
             '_wrapper' in unparse(w.test)]
    res.floor('R14', 'wrapper-skipping loops in _object_to_doc', len(loops), 1)
    for w in loops:
        rebinds = [a for st in w.body for a in ast.walk(st)
                   if isinstance(a, ast.Assign) and any(
                       'cls' in [y.id for y in ast.walk(t)
                                 if isinstance(y, ast.Name)]
                       for t in a.targets)]
        breaks = [b for st in w.body for b in ast.walk(st)
                  if isinstance(b, ast.Break)]
        stops = False
        for b in breaks:
            atoms = guardspec.atoms_at(b, w)
            names = set()
            for t, pol in atoms:
                if pol:
                    names |= {y.id for y in ast.walk(ast.parse(t, mode='eval'))
                              if isinstance(y, ast.Name)}
            arrayish = any('Array' in t and pol for t, pol in atoms)
            for a in walk_no_defs(f.node):
                if isinstance(a, ast.Assign) and any(
                        isinstance(t, ast.Name) and t.id in names
                        for t in a.targets) and 'Array' in unparse(a.value):
                    arrayish = True
            if arrayish:
                stops = True
        array_in_test = 'Array' in unparse(w.test)
        ok = stops or array_in_test
        where = '%s:%d' % (f.module.relpath, w.lineno)
        res.ob('R14', where, '_object_to_doc: the wrapper-skipping loop %s '
               'after an Array' % ('stops' if ok else 'does not stop'),
               'ok' if ok else 'VIOLATED')
        if not ok:
            res.finding('R14', 'HierDictDocument._object_to_doc|nested-'
                        'arrays-flattened', where, 'the loop that skips '
                        'single-member wrappers runs through every nested '
                        'Array in one go: for Array(Array(P)) the outer list '
                        'is iterated with P as item type, so [[P(x=1)], '
                        '[P(x=2)]] is answered with a Server fault or '
                        'mangled into [{"x": [1]}, ...]')


def rule_r15(prog, res):
    res.rule('R15', 'the dict writer renders a None of a complex type as a '
             'null: the object renderer is only reached with an instance')
    from ..flow import entails, guards_at, flatten_guards
    h = prog.cls('spyne.protocol.dictdoc.hier:HierDictDocument')
    f = h.methods.get('_to_dict_value')
    if f is None:
        raise AnalysisError('HierDictDocument._to_dict_value', 'not found')
    ps = f.params()
    inst = ps[2] if len(ps) > 2 else 'inst'
    n = 0
    for c in calls_in(f.node):
        if call_name(c) not in ('_complex_to_doc', '_complex_to_dict',
                                '_complex_to_list'):
            continue
        if len(c.args) < 2 or unparse(c.args[1]) != inst:
            continue
        st = c
        while not isinstance(st, ast.stmt):
            st = st._parent
        g = flatten_guards(guards_at(st, stop=f.node))
        if any(isinstance(x, ast.Call) and call_name(x) == 'isinstance' and
               x.args and unparse(x.args[0]) == inst
               for ex, _ in g for x in ast.walk(ex)) and entails(
                g, 'isinstance(%s, cls_orig_attrs.type)' % inst):
            continue        # the File branch: an instance of the value class
        n += 1
        ok = entails(g, '%s is not None' % inst)
        # the test must read the value the renderer gets
        last_bind = max([a.lineno for a in walk_no_defs(f.node)
                         if isinstance(a, ast.Assign) and any(
                             isinstance(t, ast.Name) and t.id == inst
                             for t in a.targets)] or [0])
        tests = [x.lineno for ex, _ in g for x in ast.walk(ex)
                 if isinstance(x, ast.Compare) and unparse(x.left) == inst]
        if ok and tests and min(tests) < last_bind < st.lineno:
            ok = False
        where = '%s:%d' % (f.module.relpath, c.lineno)
        res.ob('R15', where, '_to_dict_value renders the object %s' % (
            'only when there is one' if ok else 'also for None'),
            'ok' if ok else 'VIOLATED')
        if not ok:
            res.finding('R15', 'HierDictDocument._to_dict_value|none-as-'
                        'empty-object', where, 'a None of a complex type '
                        'reaches %s, which builds an empty instance: a None '
                        'result or array item is written as {} (or [null, '
                        '...]) and reads back as an empty object, not as '
                        'None' % call_name(c))
    res.floor('R15', 'object renderings in _to_dict_value', n, 1)


def rule_r16(prog, res):
    res.rule('R16', 'the dict entry point takes the message from under its '
             'name whenever the reader it hands it to does not unwrap: for '
             'every bare argument that is not a plain object (primitive, '
             'array), whatever ignore_wrappers says')
    from ..flow import entails
    h = prog.cls('spyne.protocol.dictdoc.hier:HierDictDocument')
    f = h.methods.get('deserialize')
    if f is None:
        raise AnalysisError('HierDictDocument.deserialize', 'not found')
    unwraps = [a for a in walk_no_defs(f.node) if isinstance(a, ast.Assign)
               and isinstance(a.value, ast.Call) and call_name(a.value) ==
               'get' and len(a.targets) == 1 and isinstance(
                   a.targets[0], ast.Name) and isinstance(
                   a.value.func.value, ast.Name) and a.value.args and
               unparse(a.value.args[0]) == 'class_name']
    res.floor('R16', 'message unwrapping in HierDictDocument.deserialize',
              len(unwraps), 1)
    for a in unwraps:
        par = a._parent
        where = '%s:%d' % (f.module.relpath, a.lineno)
        if not isinstance(par, ast.If) or a not in par.body:
            res.ob('R16', where, 'deserialize unwraps the message '
                   'unconditionally', 'ok')
            continue
        test = par.test
        cases = [('not issubclass(body_class, ComplexModelBase)',
                  'primitive', '{"bare_int": 5} is read as the value'),
                 ('issubclass(body_class, Array)', 'array',
                  'the array reader iterates over the keys of the request')]
        for cond, what, effect in cases:
            ok = entails([(ast.parse(cond, mode='eval').body, True)], test)
            res.ob('R16', where, 'deserialize unwraps a bare %s message '
                   '%s' % (what, 'always' if ok else 'only under %s' %
                           unparse(test)), 'ok' if ok else 'VIOLATED')
            if not ok:
                res.finding('R16', 'HierDictDocument.deserialize|bare-%s-'
                            'not-unwrapped' % what, where, 'the message of a '
                            'bare method with a %s argument is only taken '
                            'from under the method name when %s: with '
                            'ignore_wrappers=False %s and no request document '
                            'can invoke the method' % (what, unparse(test),
                                                       effect))

    # sibling agreement on the form of keys: the member reader accepts bytes
    # keys when the protocol has a key encoding, so the entry point must find
    # the message under a bytes key as well
    g_ = h.methods.get('_doc_to_object')
    member_side = g_ is not None and any(
        isinstance(c, ast.Call) and call_name(c) == 'decode' and
        'key_encoding' in unparse(c) for c in ast.walk(g_.node))
    entry_side = any(
        isinstance(c, ast.Call) and call_name(c) == 'get' and c.args and
        isinstance(c.args[0], ast.Call) and call_name(c.args[0]) == 'encode'
        and 'key_encoding' in unparse(c.args[0]) and
        'class_name' in unparse(c.args[0]) for c in ast.walk(f.node))
    ok = entry_side or not member_side
    res.ob('R16', f.where, 'bytes keys: member reader decodes them: %s, entry '
           'point looks the message up under the encoded name: %s' % (
               member_side, entry_side), 'ok' if ok else 'VIOLATED')
    if not ok:
        res.finding('R16', 'HierDictDocument.deserialize|bytes-keyed-message',
                    f.where, '_doc_to_object decodes bytes member keys with '
                    'key_encoding but deserialize looks the message up under '
                    'the text name only: a MessagePackDocument request whose '
                    'keys were packed as bytes ({b"locate": ...}) is read as '
                    '"no arguments" and the function is called with None')


def rule_r17(prog, res):
    from . import c08
    from ..report import Result
    res.share('R17', 'the date-time reader shared by the dict documents takes '
              'the sign of a UTC offset from its text (C08-R4)', 'C08',
              c08.rule_r4, prog, Result)


def rule_r18(prog, res):
    from . import c06, c16
    from ..report import Result
    res.share('R18', 'length facets are inclusive in the shared text readers '
              '(C06-R11)', 'C06', c06.rule_r11, prog, Result)
    res.share('R18', 'the wrapper-key subclass test goes through the '
              'protocol\'s issubclass, which lets a customised variant stand '
              'for its original (C16-R5)', 'C16', c16.rule_r5, prog, Result)


def rule_r19(prog, res):
    from . import c18
    from ..report import Result
    res.share('R19', 'a nil message is expanded into missing members only '
              'for the body styles that have members (C18-R7)', 'C18',
              c18.rule_r7, prog, Result)


def rule_r20(prog, res):
    res.rule('R20', 'the binary writers fall back on the protocol\'s own '
             'binary_encoding when the caller suggests none (the attribute '
             'and modifier handlers call to_unicode without one)')
    o = prog.cls('spyne.protocol._outbase:OutProtocolBase')
    import re
    n = 0
    for nm, f in sorted(o.methods.items()):
        if not re.match(r'(byte_array|file)_to_(bytes|unicode)$', nm):
            continue
        params = [a.arg for a in f.node.args.args]
        if 'suggested_encoding' not in params:
            continue
        usedef = [i for i in walk_no_defs(f.node) if isinstance(i, ast.If)
                  and 'BINARY_ENCODING_USE_DEFAULT' in unparse(i.test)]
        if not usedef:
            continue
        falls = [a for a in walk_no_defs(f.node) if isinstance(a, ast.Assign)
                 and any(isinstance(t, ast.Name) and t.id == 'encoding'
                         for t in a.targets)
                 and 'self.binary_encoding' in unparse(a.value)]
        ok = bool(falls)
        if nm == 'file_to_unicode' and not ok:
            res.ob('R20', f.where, 'OutProtocolBase.%s has no fall-back '
                   '(as on the pinned tree; File text is not reachable '
                   'without a suggested encoding)' % nm, 'info')
            continue
        n += 1
        res.ob('R20', f.where, 'OutProtocolBase.%s: %s' % (nm, (
            'falls back on self.binary_encoding' if ok else
            'uses the suggested encoding only')), 'ok' if ok else 'VIOLATED')
        if not ok:
            res.finding('R20', 'OutProtocolBase.%s|no-protocol-encoding' % nm,
                        f.where, '%s takes the encoding from its caller '
                        'only: a ByteArray reached without a suggested '
                        'encoding (XmlAttribute(ByteArray) through '
                        'xmlattribute_to_unicode) has encoding None and the '
                        'response can not be written although the request '
                        'was read' % nm)
    res.floor('R20', 'binary writers with a protocol fall-back', n, 3)


def rule_r21(prog, res):
    res.rule('R21', 'where the hierarchical dict codec handles the binary '
             'kinds (ByteArray, Uuid, File) it passes the protocol\'s '
             'binary encoding on: not every leaf codec has a fall-back of '
             'its own')
    h = prog.cls('spyne.protocol.dictdoc.hier:HierDictDocument')
    n = 0
    for nm, g in sorted(h.methods.items()):
        for c in calls_in(g.node):
            if not (isinstance(c.func, ast.Attribute) and
                    unparse(c.func.value) == 'self' and c.func.attr in (
                        '_from_leaf', 'to_serstr', 'from_serstr',
                        'from_unicode', 'to_unicode', 'to_bytes',
                        'from_bytes')):
                continue
            gs = [unparse(e) for e, pol in flatten_guards(guards_at(
                c, stop=g.node)) if pol]
            if not any('issubclass' in t and ('ByteArray' in t or
                                              'Uuid' in t) for t in gs):
                continue
            n += 1
            ok = any(unparse(a) == 'self.binary_encoding' for a in c.args) \
                or any(unparse(k.value) == 'self.binary_encoding'
                       for k in c.keywords)
            where = '%s:%d' % (g.module.relpath, c.lineno)
            res.ob('R21', where, 'HierDictDocument.%s: %s' % (
                nm, unparse(c)[:60]), 'ok' if ok else 'VIOLATED')
            if not ok:
                res.finding('R21', 'HierDictDocument.%s|binary-encoding-not-'
                            'passed|%s' % (nm, c.func.attr), where, '%s is '
                            'called for ByteArray/Uuid values without '
                            'self.binary_encoding: the Uuid codecs have no '
                            'fall-back of their own, so Uuid(serialize_as='
                            '"bytes") is no longer base64-decoded and the '
                            'conformant request is refused' % c.func.attr)
    res.floor('R21', 'binary leaf codec calls in HierDictDocument', n, 2)


def run(prog, res, tier):
    res.run_rule(rule_r1, prog, res)
    res.run_rule(rule_r2, prog, res)
    res.run_rule(rule_r3, prog, res)
    res.run_rule(rule_r4, prog, res)
    res.run_rule(rule_r5, prog, res)
    res.run_rule(rule_r6, prog, res)
    res.run_rule(rule_r7, prog, res)
    res.run_rule(rule_r8, prog, res)
    res.run_rule(rule_r9, prog, res)
    res.run_rule(rule_r10, prog, res)
    res.run_rule(rule_r11, prog, res)
    res.run_rule(rule_r12, prog, res)
    res.run_rule(rule_r13, prog, res)
    res.run_rule(rule_r14, prog, res)
    res.run_rule(rule_r15, prog, res)
    res.run_rule(rule_r16, prog, res)
    res.run_rule(rule_r17, prog, res)
    res.run_rule(rule_r18, prog, res)
    res.run_rule(rule_r19, prog, res)
    res.run_rule(rule_r20, prog, res)
    res.run_rule(rule_r21, prog, res)


_H = 'spyne/protocol/dictdoc/hier.py'
_M = 'spyne/protocol/msgpack.py'
_J = 'spyne/protocol/json.py'
_Y = 'spyne/protocol/yaml.py'

MUTANTS = [
    Mutant('dict-binary-leaf-without-encoding', 'R21', 'fire',
           'spyne/protocol/dictdoc/hier.py',
           in_func('HierDictDocument._from_dict_value',
                   "retval = self._from_leaf(key, cls, inst,\n"
                   "                                                           "
                   "self.binary_encoding)",
                   "retval = self._from_leaf(key, cls, inst)"),
           'binary-encoding-not-passed'),
    Mutant('byte-array-text-without-protocol-encoding', 'R20', 'fire',
           'spyne/protocol/_outbase.py',
           in_func('OutProtocolBase.byte_array_to_unicode',
                   "            if suggested_encoding is None:\n"
                   "                encoding = self.binary_encoding\n"
                   "            else:\n"
                   "                encoding = suggested_encoding\n",
                   "            encoding = suggested_encoding\n"),
           'no-protocol-encoding'),
    Mutant('byte-array-text-encoding-or', 'R20', 'twin',
           'spyne/protocol/_outbase.py',
           in_func('OutProtocolBase.byte_array_to_unicode',
                   "            if suggested_encoding is None:\n"
                   "                encoding = self.binary_encoding\n"
                   "            else:\n"
                   "                encoding = suggested_encoding\n",
                   "            encoding = suggested_encoding\n"
                   "            if encoding is None:\n"
                   "                encoding = self.binary_encoding\n"),
           None),
    Mutant('falsy-message-looked-up-again', 'R5', 'fire', _H,
           in_func('HierDictDocument.deserialize',
                   "if message_doc is None and self.key_encoding is not None:",
                   "if not message_doc and self.key_encoding is not None:"),
           'truthiness'),
    Mutant('bytes-key-fallback-removed', 'R16', 'fire', _H,
           in_func('HierDictDocument.deserialize',
                   r"                if message_doc is None and self\.key_"
                   r"encoding is not None:\n(.*?)                doc = "
                   r"message_doc\n", "                doc = message_doc\n",
                   regex=True), 'bytes-keyed-message'),
    Mutant('bare-leaf-unwrapped-only-without-wrappers', 'R16', 'fire', _H,
           in_func('HierDictDocument.deserialize',
                   "            if self.ignore_wrappers or issubclass("
                   "body_class, Array) \\\n                             or not "
                   "issubclass(body_class, ComplexModelBase):\n",
                   "            if self.ignore_wrappers:\n"),
           'not-unwrapped'),
    Mutant('bare-array-not-unwrapped', 'R16', 'fire', _H,
           in_func('HierDictDocument.deserialize',
                   "            if self.ignore_wrappers or issubclass("
                   "body_class, Array) \\\n",
                   "            if self.ignore_wrappers \\\n"),
           'bare-array-not-unwrapped'),
    Mutant('none-complex-as-empty-object', 'R15', 'fire', _H,
           in_func('HierDictDocument._to_dict_value',
                   "        if inst is None and issubclass(cls, "
                   "ComplexModelBase) \\\n", "        if False and "
                   "issubclass(cls, ComplexModelBase) \\\n"),
           'none-as-empty-object'),
    Mutant('none-complex-only-when-not-polymorphic', 'R15', 'fire', _H,
           in_func('HierDictDocument._to_dict_value',
                   "        if inst is None and issubclass(cls, "
                   "ComplexModelBase) \\\n", "        if inst is None and "
                   "not switched and self.ignore_wrappers and issubclass(cls, "
                   "ComplexModelBase) \\\n"),
           'none-as-empty-object'),
    Mutant('none-complex-test-order', 'R15', 'benign', _H,
           in_func('HierDictDocument._to_dict_value',
                   "        if inst is None and issubclass(cls, "
                   "ComplexModelBase) \\\n", "        if issubclass(cls, "
                   "ComplexModelBase) and inst is None \\\n"), None),
    Mutant('nested-arrays-unwrapped-in-one-go', 'R14', 'fire', _H,
           in_func('HierDictDocument._object_to_doc',
                   "                if is_array:\n", "                if False:"
                   "\n"), 'nested-arrays-flattened'),
    Mutant('json-kind-check-rejects-null', 'R13', 'fire', _J,
           in_func('JsonDocument.validate',
                   "        if val is None and self.get_cls_attrs(cls)."
                   "nullable:\n            return\n", ""),
           'null-not-exempt'),
    Mutant('null-member-read-as-message', 'R13', 'fire', _H,
           in_func('HierDictDocument._from_dict_value',
                   "                if inst is None:\n"
                   "                    # a null member is None, not an empty "
                   "message\n                    retval = None\n"
                   "                else:\n"
                   "                    retval = self._doc_to_object(ctx, cls,"
                   " inst, validator)\n",
                   "                retval = self._doc_to_object(ctx, cls, "
                   "inst, validator)\n"), 'null-member-as-message'),
    Mutant('yaml-drops-polymorphic', 'R11', 'fire', _Y,
           in_func('YamlDocument.__init__',
                   "ignore_uncap, ignore_wrappers, complex_as, ordered, "
                   "polymorphic)",
                   "ignore_uncap, ignore_wrappers, complex_as, ordered)"),
           'polymorphic'),
    Mutant('yaml-forwards-by-keyword', 'R11', 'benign', _Y,
           in_func('YamlDocument.__init__',
                   "ignore_uncap, ignore_wrappers, complex_as, ordered, "
                   "polymorphic)",
                   "ignore_uncap, ignore_wrappers, complex_as, ordered, "
                   "polymorphic=polymorphic)"), None),
    Mutant('msgpack-unpacker-on-instance', 'R12', 'fire', _M,
           in_func('MessagePackDocument.create_in_document',
                   "            unpacker = self.mw_unpacker(**self."
                   "kwargs_unpacker)\n            unpacker.feed(",
                   "            self.unpacker.feed("), 'instance-decoder'),
    Mutant('bigint-reader-str-only', 'R9', 'fire', _M,
           in_func('MessagePackDocument.integer_from_bytes',
                   "isinstance(value, (six.text_type, six.binary_type))",
                   "isinstance(value, six.string_types)"), 'kinds'),
    Mutant('bigint-reader-builtin-names', 'R9', 'benign', _M,
           in_func('MessagePackDocument.integer_from_bytes',
                   "isinstance(value, (six.text_type, six.binary_type))",
                   "isinstance(value, (str, bytes))"), None),
    Mutant('cycle-guard-shared', 'R6', 'fire', _H,
           in_func('HierDictDocument._get_member_pairs',
                   "tags = tags | {id(inst)}", "tags.add(id(inst))"),
           'tags-mutated'),
    Mutant('cycle-guard-copied-then-added', 'R6', 'benign', _H,
           in_func('HierDictDocument._get_member_pairs',
                   "tags = tags | {id(inst)}",
                   "tags = set(tags)\n        tags.add(id(inst))"), None),
    Mutant('member-table-before-wrapper', 'R7', 'fire', _H,
           in_func('HierDictDocument._doc_to_object',
                   "        cls_attrs = self.get_cls_attrs(cls)\n"
                   "        if not self.ignore_wrappers",
                   "        flat_type_info = cls.get_flat_type_info(cls)\n"
                   "        cls_attrs = self.get_cls_attrs(cls)\n"
                   "        if not self.ignore_wrappers"), 'stale-class'),
    Mutant('yaml-per-chunk-decode', 'R8', 'fire', _Y,
           in_func('YamlDocument.create_in_document',
                   "s = b''.join(ctx.in_string).decode(in_string_encoding)",
                   "s = u''.join(c.decode(in_string_encoding) "
                   "for c in ctx.in_string)"), 'per-chunk-decode'),
    Mutant('yaml-join-by-loop', 'R8', 'benign', _Y,
           in_func('YamlDocument.create_in_document',
                   "s = b''.join(ctx.in_string).decode(in_string_encoding)",
                   "s = b''.join(c for c in ctx.in_string)"
                   ".decode(in_string_encoding)"), None),
    Mutant('hier-bare-indexed', 'R1', 'fire', _H,
           in_func('HierDictDocument.serialize',
                   r"        if ctx\.descriptor\.is_out_bare\(\):\n"
                   r"            out_instance, = ctx\.out_object\n\n"
                   r"        else:\n(.*?)(\n        ctx\.out_document = )",
                   lambda m_: "        if True:\n" + m_.group(1) +
                   m_.group(2), regex=True), ''),
    Mutant('msgpackrpc-bare-indexed', 'R1', 'fire', _M,
           in_func('MessagePackRpc.serialize',
                   "if message is self.RESPONSE and ctx.descriptor."
                   "is_out_bare():", "if False:"), ''),
    Mutant('reader-own-fields-only', 'R2', 'fire', _H,
           in_func('HierDictDocument._doc_to_object',
                   "flat_type_info = cls.get_flat_type_info(cls)",
                   "flat_type_info = cls._type_info"), 'type-info-source'),
    Mutant('reader-no-exc-filter', 'R2', 'fire', _H,
           in_func('HierDictDocument._doc_to_object',
                   r"items = zip\(\[k for k, v in flat_type_info\.items\(\)\n"
                   r"\s*if not self\.get_cls_attrs\(v\)\.exc\], doc\)",
                   "items = zip([k for k, v in flat_type_info.items()], doc)",
                   regex=True), 'no-exc-filter'),
    Mutant('writer-own-fields-only', 'R2', 'fire', _H,
           in_func('HierDictDocument._get_member_pairs',
                   "for k, v in self.sort_fields(cls):",
                   "for k, v in cls._type_info.items():"), 'source'),
    Mutant('positional-keys-cached-by-name', 'R2', 'fire', _H,
           in_func('HierDictDocument._doc_to_object',
                   r"            try:\n                items = zip\(\[k for k,"
                   r" v in flat_type_info\.items\(\)\n\s*if not self\."
                   r"get_cls_attrs\(v\)\.exc\], doc\)",
                   "            class_name = self.get_class_name(cls)\n"
                   "            keys = self.__dict__.setdefault('_pk', {})."
                   "get(class_name)\n            if keys is None:\n"
                   "                keys = self._pk[class_name] = [k for k, v "
                   "in flat_type_info.items() if not self.get_cls_attrs(v)."
                   "exc]\n            try:\n                items = zip(keys, "
                   "doc)", regex=True), 'name-keyed-cache'),
    Mutant('decimal-passed-through', 'R3', 'fire', _J,
           in_func('JsonDocument.__init__',
                   "        self._to_unicode_handlers[Integer] = self._ret\n",
                   "        self._to_unicode_handlers[Integer] = self._ret\n"
                   "        self._to_unicode_handlers[Decimal] = self._ret\n"
                   "        self._from_unicode_handlers[Decimal] = "
                   "self._ret_number\n"), 'pass-through'),
    Mutant('yaml-integer-output-only-text', 'R3', 'fire', _Y,
           in_func('YamlDocument.__init__',
                   "        self._to_unicode_handlers[Integer] = self._ret\n",
                   ""), 'asymmetric'),
    Mutant('msgpack-window-bit-length', 'R4', 'fire', _M,
           in_func('MessagePackDocument.integer_to_bytes',
                   "if -1<<63 <= value < 1<<64:",
                   "if value.bit_length() <= 64:"), 'no-window'),
    Mutant('msgpack-window-inclusive-upper', 'R4', 'fire', _M,
           in_func('MessagePackDocument.integer_to_bytes',
                   "if -1<<63 <= value < 1<<64:",
                   "if -1<<63 <= value <= 1<<64:"), 'window'),
    Mutant('empty-array-as-null', 'R5', 'fire', _H,
           in_func('HierDictDocument._object_to_doc',
                   "            if inst is not None:\n                retval = "
                   "[]", "            if inst:\n                retval = []"),
           'truthiness'),
    Mutant('twin-window-constants', 'R4', 'benign', _M,
           in_func('MessagePackDocument.integer_to_bytes',
                   "if -1<<63 <= value < 1<<64:",
                   "if -2**63 <= value <= 2**64 - 1:"), ''),
]
