"""C08 - primitive text forms are lossless and lie in the XSD lexical space.
Structural clauses only."""
import ast
import re

from ..core import (AnalysisError, dotted, unparse, calls_in, call_name,
                    walk_no_defs, parent, ancestors, ClassInfo, FuncInfo)
from ..flow import guards_at, flatten_guards, always_raises
from ..callgraph import CallGraph
from ..excflow import ExcFlow, named_groups
from ..tables import tables_of
from ..constfold import try_fold
from ..mutate import Mutant, in_func
from .. import guardspec
from . import c10
from ..report import Result

ID = 'C08'
EXPLANATION = (
    'Necessary conditions whose violation provably breaks values. R1 table '
    'agreement: every primitive with a dedicated writer in '
    '_to_unicode/_to_bytes_handlers resolves (cdict semantics) to a reader of '
    'the same family in _from_unicode/_from_bytes_handlers, for ProtocolBase '
    'and each protocol override. R2 None-discipline on regex matches in the '
    'readers. R3 an integer sub-second field formatted after a literal "." is '
    'zero-padded to the width of its unit, and the duration writer returns '
    'early only where the microseconds are known to be zero. R4 when a signed '
    'regex group is combined arithmetically with a sibling magnitude group, '
    'the sign is taken from the group TEXT (int("-00") loses it) and applied '
    'to the magnitude. R5 the default return expression of each writer is a '
    'conversion that stays in the lexical space of the advertised xs: type; '
    'base64 is computed over the joined bytes, not per chunk. R6 every '
    'reader of a restricted lexical space has a rejecting path. R7 '
    'exception-escape analysis of the reader tables (shared with C10-R3). '
    'Not decided: round-trip equality over the value space, the exhaustive '
    'offset sweep.')
ASSUMPTIONS = ['str(int), isoformat(), lower-cased str(bool) are in the '
               'lexical spaces of xs:integer, xs:date/time/dateTime, '
               'xs:boolean',
               'str(Decimal) may produce exponent notation, which xs:decimal '
               'does not admit']
LEVEL_TEXT = (
    'Static table-agreement, format-string, sign-flow, lexical-space and '
    'exception-escape checks over the primitive codecs. Decides structural '
    'necessary conditions of losslessness for every table entry and protocol '
    'override; it does not compute round trips.')
LEVEL_NOTE = ('Trusted: the whitelist of conversions per xs: type; regex '
              'group classes are read from the folded pattern sources.')
TECHNIQUE = ('handler-table reading + format-literal and sign dataflow '
             'checks + exception-escape analysis (ast)')

PROTOS = ['spyne.protocol._base:ProtocolBase',
          'spyne.protocol.xml:XmlDocument',
          'spyne.protocol.soap.soap11:Soap11',
          'spyne.protocol.json:JsonDocument',
          'spyne.protocol.yaml:YamlDocument',
          'spyne.protocol.msgpack:MessagePackDocument',
          'spyne.protocol.http:HttpRpc']

PRIMS = ['Time', 'Date', 'DateTime', 'Duration', 'Decimal', 'Double',
         'Integer', 'Boolean', 'Uuid', 'ByteArray', 'Unicode']


def stem(name):
    for sep in ('_to_', '_from_'):
        if sep in name:
            return name.split(sep)[0]
    return name


# ------------------------------------------------------------------- R1
def rule_r1(prog, res):
    res.rule('R1', 'writer and reader tables agree per primitive')
    from ..tables import model_class, cdict_lookup
    n = 0
    for cfq in PROTOS:
        c = prog.cls(cfq, required=False)
        if c is None:
            continue
        tabs = tables_of(prog, c)
        for wt, rt in (('_to_unicode_handlers', '_from_unicode_handlers'),
                       ('_to_bytes_handlers', '_from_bytes_handlers')):
            w = tabs.get(wt, {})
            r = tabs.get(rt, {})
            if not w or not r:
                continue
            for prim in PRIMS:
                mc = model_class(prog, prim)
                if mc is None:
                    continue
                we = cdict_lookup(prog, w, mc)
                re_ = cdict_lookup(prog, r, mc)
                if we is None or re_ is None:
                    res.ob('R1', c.where, '%s: %s writer=%s reader=%s' % (
                        c.name, prim, we, re_), 'VIOLATED')
                    res.finding('R1', '%s|%s|%s|missing' % (c.name, wt, prim),
                                c.where, '%s has no %s for %s' % (
                                    c.name, 'writer' if we is None
                                    else 'reader', prim))
                    continue
                n += 1
                wn = we.target.name if isinstance(we.target, FuncInfo) else \
                    None
                rn = re_.target.name if isinstance(re_.target, FuncInfo) \
                    else None
                where = '%s:%d' % (re_.owner.module.relpath, re_.node.lineno)
                inst = '%s: %s %s=%s %s=%s' % (c.name, prim, wt, wn or
                                               unparse(we.value)[:25], rt,
                                               rn or unparse(re_.value)[:25])
                if wn is None or rn is None:
                    res.ob('R1', where, inst, 'unclassified',
                           nontrivial=False)
                    continue
                if wn.startswith('_ret') or rn.startswith('_ret'):
                    # pass-through pair (numbers/bools of dict documents)
                    ok = wn.startswith('_ret') == rn.startswith('_ret') or \
                        wn == 'integer_to_bytes' or rn == 'integer_from_bytes'
                    res.ob('R1', where, inst + ' [pass-through]',
                           'ok' if ok else 'VIOLATED')
                    if not ok:
                        res.finding('R1', '%s|%s|%s|half-pass-through' % (
                            c.name, wt, prim), where, '%s is passed through '
                            'unchanged on one side only (%s / %s)' % (
                                prim, wn, rn))
                    continue
                ws, rs = stem(wn), stem(rn)
                fam_w = ws.replace('_iso', '')
                fam_r = rs.replace('_iso', '')
                # a writer dedicated to the primitive needs a dedicated reader
                dedicated_w = we.key == prim
                dedicated_r = re_.key == prim
                ok = fam_w == fam_r or (not dedicated_w and not dedicated_r)
                res.ob('R1', where, inst, 'ok' if ok else 'VIOLATED')
                if not ok:
                    res.finding('R1', '%s|%s|%s|%s-vs-%s' % (c.name, wt, prim,
                                                             wn, rn), where,
                                '%s of %s is written by %s but read by %s '
                                '(different codec families)' % (prim, c.name,
                                                                wn, rn))
    res.floor('R1', 'writer/reader pairs', n, 40)


# ------------------------------------------------------------------- R3
def rule_r3(prog, res):
    res.rule('R3', 'sub-second fractions are zero-padded; early returns keep '
             'the microseconds')
    m = prog.module('spyne.protocol._outbase')
    n = 0
    for f in m.functions.values():
        if not re.search(r'(time|duration|date)', f.name):
            continue
        for node in walk_no_defs(f.node):
            if isinstance(node, ast.Constant) and isinstance(node.value, str):
                for mm in re.finditer(r'\.%(0?)(\d*)([ids])', node.value):
                    n += 1
                    zero, width, conv = mm.group(1), mm.group(2), mm.group(3)
                    where = '%s:%d' % (m.relpath, node.lineno)
                    ok = zero == '0' and width in ('6', '3', '9')
                    res.ob('R3', where, '%s: fraction format %r' % (
                        f.qualname, node.value), 'ok' if ok else 'VIOLATED')
                    if not ok:
                        res.finding('R3', '%s|fraction|%s' % (f.qualname,
                                                              node.value),
                                    where, 'an integer sub-second field is '
                                    'formatted after "." without zero padding '
                                    '(%r): 5 microseconds print as ".5"' %
                                    node.value)
    res.floor('R3', 'fraction formats', n, 1)
    out = prog.cls('spyne.protocol._outbase:OutProtocolBase')
    f = out.methods.get('duration_to_unicode')
    if f is None:
        raise AnalysisError('OutProtocolBase.duration_to_unicode', 'not found')
    # which local carries the microseconds
    usec = set()
    for node in walk_no_defs(f.node):
        if isinstance(node, ast.Assign) and 'microseconds' in unparse(
                node.value):
            for t in node.targets:
                if isinstance(t, ast.Name):
                    usec.add(t.id)
    frac_line = None
    for node in walk_no_defs(f.node):
        if isinstance(node, ast.Constant) and isinstance(node.value, str) \
                and re.search(r'\.%0?\d*[ids]', node.value):
            frac_line = node.lineno
    rets = sorted([r for r in walk_no_defs(f.node)
                   if isinstance(r, ast.Return)], key=lambda r: r.lineno)
    for r in rets:
        if frac_line is None or r.lineno > frac_line:
            continue
        g = flatten_guards(guards_at(r, stop=f.node))
        ok = False
        for e, pol in g:
            t = unparse(e).replace(' ', '')
            if pol and any(t in ('%s==0' % u, 'not%s' % u, '0==%s' % u)
                           for u in usec | {'value.microseconds'}):
                ok = True
            if not pol and any(t in ('%s>0' % u, '%s!=0' % u, u)
                               for u in usec | {'value.microseconds'}):
                ok = True
        where = '%s:%d' % (f.module.relpath, r.lineno)
        res.ob('R3', where, 'duration_to_unicode returns early only when the '
               'microseconds are zero', 'ok' if ok else 'VIOLATED')
        if not ok:
            res.finding('R3', 'OutProtocolBase.duration_to_unicode|early-'
                        'return', where, 'the duration writer returns before '
                        'the fraction is written without testing that the '
                        'microseconds are zero: P1DT0.5S is written as P1D')
    # the sign comes from the timedelta's own sign
    neg = [n_ for n_ in walk_no_defs(f.node) if isinstance(n_, ast.If) and
           any(isinstance(x, ast.Assign) and unparse(x) == 'value = -value'
               for x in n_.body)]
    for n_ in neg:
        test_ = n_.test
        if isinstance(test_, ast.Name):
            # a boolean flag standing for a condition computed before
            from ..flow import flag_condition
            c_ = flag_condition(f.node, test_.id, before=n_.lineno)
            if c_ is not None:
                test_ = c_
        t = unparse(test_).replace(' ', '')
        ok = t in ('value.days<0', 'value<timedelta(0)', 'value<timedelta()')
        where = '%s:%d' % (f.module.relpath, n_.lineno)
        res.ob('R3', where, 'duration_to_unicode: negative when %s' % t,
               'ok' if ok else 'VIOLATED')
        if not ok:
            res.finding('R3', 'OutProtocolBase.duration_to_unicode|sign|%s' %
                        t, where, 'the sign of a duration must be decided by '
                        'value.days < 0 (timedelta normalises negatives into '
                        'days); %s misses e.g. -0.5 s, whose fields are then '
                        'printed verbatim as P-1DT23H59M59.5S' % t)


# ------------------------------------------------------------------- R4
def rule_r4(prog, res):
    res.rule('R4', 'the sign of a signed regex group is taken from its text '
             'and applied to the sibling magnitude')
    inb = prog.cls('spyne.protocol._inbase:InProtocolBase')
    cg = CallGraph(prog)
    ef = ExcFlow(prog, cg)
    n = 0
    for f in inb.methods.values():
        # locals assigned from int(match.group(G)) (also via comprehension)
        signed, mags = {}, {}
        for node in walk_no_defs(f.node):
            if not isinstance(node, ast.Assign):
                continue
            tg = node.targets[0]
            v = node.value
            pairs = []
            if isinstance(tg, ast.Tuple) and isinstance(v, ast.ListComp) and \
                    isinstance(v.generators[0].iter, (ast.Tuple, ast.List)):
                names = [e.value for e in v.generators[0].iter.elts
                         if isinstance(e, ast.Constant)]
                inner = v.elt
                if isinstance(inner, ast.Call) and call_name(inner) == 'int' \
                        and len(names) == len(tg.elts):
                    a = inner.args[0]
                    if isinstance(a, ast.Call) and call_name(a) == 'group' \
                            and isinstance(a.func.value, ast.Name):
                        for t_, g_ in zip(tg.elts, names):
                            if isinstance(t_, ast.Name):
                                pairs.append((t_.id, a.func.value.id, g_))
            elif isinstance(tg, ast.Name) and isinstance(v, ast.Call) and \
                    call_name(v) == 'int' and v.args and isinstance(
                    v.args[0], ast.Call) and call_name(v.args[0]) == 'group' \
                    and isinstance(v.args[0].func.value, ast.Name) and \
                    v.args[0].args and isinstance(v.args[0].args[0],
                                                  ast.Constant):
                pairs.append((tg.id, v.args[0].func.value.id,
                              v.args[0].args[0].value))
            for var, mvar, gname in pairs:
                pats = ef.match_patterns(f, mvar)
                bodies = [named_groups(p).get(gname) for p in pats]
                bodies = [b for b in bodies if b]
                if bodies and all(re.match(r'^(\[\+-\]|\[-\+\]|[-+]\??)', b)
                                  for b in bodies):
                    signed[var] = (mvar, gname, node)
                elif bodies:
                    mags[var] = (mvar, gname, node)
        if not signed:
            continue
        # arithmetic combination signed*k + magnitude
        for node in walk_no_defs(f.node):
            if not (isinstance(node, ast.BinOp) and isinstance(
                    node.op, (ast.Add, ast.Sub))):
                continue
            names = {x.id for x in ast.walk(node) if isinstance(x, ast.Name)}
            sv = [s_ for s_ in signed if s_ in names]
            mv = [m_ for m_ in mags if m_ in names]
            if not sv or not mv:
                continue
            n += 1
            s_, m_ = sv[0], mv[0]
            mvar, gname, _ = signed[s_]
            where = '%s:%d' % (f.module.relpath, node.lineno)
            # a negation of the magnitude guarded by the TEXT of the group
            status = 'missing'
            for a in walk_no_defs(f.node):
                if isinstance(a, ast.Assign) and isinstance(
                        a.targets[0], ast.Name) and a.targets[0].id == m_ \
                        and isinstance(a.value, ast.UnaryOp) and isinstance(
                        a.value.op, ast.USub) and a.lineno < node.lineno:
                    g = flatten_guards(guards_at(a, stop=f.node))
                    for e, pol in g:
                        t = unparse(e)
                        if "group('%s')" % gname in t.replace('"', "'") and (
                                'startswith' in t or "== '-'" in t or
                                '[0]' in t) and pol:
                            status = 'text'
                        elif any(isinstance(x, ast.Name) and x.id == s_
                                 for x in ast.walk(e)) and status != 'text':
                            status = 'number'
            inst = '%s: %s combines signed %s with magnitude %s' % (
                f.qualname, unparse(node), s_, m_)
            if status == 'text':
                res.ob('R4', where, inst + ' [sign from group text]', 'ok')
            elif status == 'number':
                res.ob('R4', where, inst, 'VIOLATED')
                res.finding('R4', '%s|sign-from-number|%s' % (f.qualname, s_),
                            where, 'the sign applied to %s is derived from '
                            'the converted number %s: int("-00") is 0, so '
                            'offsets -00:01 .. -00:59 lose their sign' % (m_,
                                                                          s_))
            else:
                res.ob('R4', where, inst, 'VIOLATED')
                res.finding('R4', '%s|sign-not-applied|%s' % (f.qualname, m_),
                            where, 'the magnitude %s is added to the signed '
                            '%s without receiving its sign: -04:49 is read '
                            'as -03:11' % (m_, s_))
    res.floor('R4', 'signed/magnitude combinations', n, 1)


# ------------------------------------------------------------------- R5
def default_return(f):
    """The last return of the function (the no-custom-format path)."""
    rets = sorted([r for r in walk_no_defs(f.node)
                   if isinstance(r, ast.Return)], key=lambda r: r.lineno)
    return rets[-1] if rets else None


def rule_r5(prog, res):
    res.rule('R5', 'default writer conversions stay in the advertised '
             'lexical space')
    out = prog.cls('spyne.protocol._outbase:OutProtocolBase')
    table = {
        'boolean_to_unicode': ('xs:boolean', lambda t: t.endswith('.lower()')
                               and 'bool(' in t,
                               'str(bool(value)).lower()'),
        'boolean_to_bytes': ('xs:boolean', lambda t: '.lower()' in t and
                             'bool(' in t, 'lower-cased str(bool)'),
        'integer_to_unicode': ('xs:integer', lambda t: t in (
            'str(value)', "'%d' % value", 'str(int(value))'), 'str(int)'),
        'time_to_unicode': ('xs:time', lambda t: t.endswith('.isoformat()'),
                            'isoformat()'),
    }
    for nm, (xs, test, want) in sorted(table.items()):
        f = out.methods.get(nm)
        if f is None:
            raise AnalysisError('OutProtocolBase.' + nm, 'not found')
        r = default_return(f)
        t = unparse(r.value) if r is not None else ''
        ok = test(t)
        res.ob('R5', f.where, '%s default returns %s (%s)' % (nm, t, xs),
               'ok' if ok else 'VIOLATED')
        if not ok:
            res.finding('R5', 'OutProtocolBase.%s|%s' % (nm, t[:40]), f.where,
                        'the default text form of %s is %s; the lexical '
                        'space of %s needs %s' % (nm, t, xs, want))
    # decimal: str(Decimal) is not xs:decimal for large/small exponents
    f = out.methods.get('decimal_to_unicode')
    r = default_return(f)
    t = unparse(r.value) if r is not None else ''
    if t in ('str(value)', 'repr(value)', "'%s' % value"):
        res.ob('R5', f.where, 'decimal_to_unicode default returns %s' % t,
               'VIOLATED')
        res.finding('R5', 'OutProtocolBase.decimal_to_unicode|%s' % t,
                    f.where, 'str(Decimal) switches to exponent notation '
                    '(Decimal("2.8E+10") -> "2.8E+10"), which is not in the '
                    'lexical space of xs:decimal')
    elif 'format(' in t or "'f'" in t or '%f' in t or ':f' in t:
        res.ob('R5', f.where, 'decimal_to_unicode default returns %s' % t,
               'ok')
    else:
        res.unclass('R5', f.where, 'decimal_to_unicode returns ' + t)
    rule_b64_joined(prog, res, 'R5')


def rule_b64_joined(prog, res, rule='R5'):
    # base64 over the joined bytes
    if rule != 'R5':
        res.rule(rule, 'binary text forms are computed over the joined '
                 'chunks')
    ba = prog.cls('spyne.model.binary:ByteArray')
    for nm in ('to_base64', 'to_urlsafe_base64', 'to_hex'):
        f = ba.methods.get(nm)
        if f is None:
            continue
        for c in calls_in(f.node):
            if call_name(c) in ('b64encode', 'urlsafe_b64encode', 'hexlify'):
                inside = None
                for a in ancestors(c):
                    if isinstance(a, (ast.GeneratorExp, ast.ListComp,
                                      ast.For)):
                        inside = a
                        break
                    if isinstance(a, (ast.FunctionDef,)):
                        break
                where = '%s:%d' % (f.module.relpath, c.lineno)
                per_chunk = inside is not None and call_name(c) != 'hexlify'
                res.ob(rule, where, 'ByteArray.%s: %s' % (nm,
                                                          unparse(c)[:50]),
                       'VIOLATED' if per_chunk else 'ok')
                if per_chunk:
                    res.finding(rule, 'ByteArray.%s|per-chunk' % nm, where,
                                'base64 is computed per chunk and then '
                                'joined: padding lands in the middle of the '
                                'text whenever a non-final chunk is not a '
                                'multiple of 3 bytes')


# ------------------------------------------------------------------- R6
def rule_r6(prog, res):
    res.rule('R6', 'readers of restricted lexical spaces can reject')
    inb = prog.cls('spyne.protocol._inbase:InProtocolBase')
    cg = CallGraph(prog)
    need = ['boolean_from_bytes', 'integer_from_bytes', 'double_from_bytes',
            'decimal_from_unicode', 'time_from_unicode',
            'date_from_unicode_iso', 'datetime_from_unicode_iso',
            'duration_from_unicode', 'uuid_from_unicode', 'date_from_unicode',
            'enum_base_from_bytes']
    n = 0
    for nm in need:
        f = inb.methods.get(nm)
        if f is None:
            raise AnalysisError('InProtocolBase.' + nm, 'not found')
        n += 1
        raises = [r for r in ast.walk(f.node) if isinstance(r, ast.Raise) and
                  r.exc is not None and 'ValidationError' in unparse(r.exc)]
        if not raises:
            # one level of helpers
            for c in calls_in(f.node):
                for g, s in cg.resolve(f, c):
                    if s == 'strong' and any(
                            isinstance(r, ast.Raise) and r.exc is not None
                            and 'ValidationError' in unparse(r.exc)
                            for r in ast.walk(g.node)):
                        raises.append(c)
        ok = bool(raises)
        res.ob('R6', f.where, '%s has %d rejecting paths' % (nm, len(raises)),
               'ok' if ok else 'VIOLATED')
        if not ok:
            res.finding('R6', 'InProtocolBase.%s|never-rejects' % nm, f.where,
                        '%s never raises ValidationError: every string is '
                        'mapped to some value of the type' % nm)
    res.floor('R6', 'readers examined', n, 10)


def rule_r2_r7(prog, res, tier):
    # shared analyses, reported under this property's rule ids
    res.rule('R2', 'regex matches are None-tested before use (shared with '
             'C10-R4)')
    res.rule('R7', 'leaf readers raise only Faults on malformed text (shared '
             'with C10-R3)')
    from ..report import Result
    tmp = Result('C10')
    cg = CallGraph(prog)
    ef = ExcFlow(prog, cg)
    tmp.run_rule(c10.rule_r3, prog, tmp, ef, tier)
    tmp.run_rule(c10.rule_r4, prog, tmp, tier)
    for (r, w, i, v, nt) in tmp.obligations:
        res.ob({'R3': 'R7', 'R4': 'R2'}.get(r, r), w, i, v, nt)
    for f in tmp.findings:
        res.finding({'R3': 'R7', 'R4': 'R2'}.get(f.rule, f.rule), f.key,
                    f.where, f.message)
    res.errors.extend(tmp.errors)
    for u in tmp.unclassified:
        res.unclassified.append(u)
    for k, v in tmp.counts.items():
        res.counts[k] = v


# ------------------------------------------------------------------- R8
def rule_r8(prog, res):
    res.rule('R8', 'as_timezone is applied by conversion to aware values and '
             'by attachment to naive ones')
    inb = prog.cls('spyne.protocol._inbase:InProtocolBase')
    n = 0
    for nm, f in sorted(inb.methods.items()):
        if not nm.startswith('datetime_from'):
            continue
        for a in walk_no_defs(f.node):
            if not (isinstance(a, ast.Assign) and isinstance(
                    a.value, ast.Call) and call_name(a.value) in (
                    '_parse_datetime_iso_match',) and len(a.targets) == 1 and
                    isinstance(a.targets[0], ast.Name)):
                continue
            var = a.targets[0].id
            aware = any(k.arg == 'tz' for k in a.value.keywords) or \
                len(a.value.args) > 1
            blk = parent(a)
            body = None
            for fld in ('body', 'orelse', 'finalbody'):
                if a in getattr(blk, fld, []):
                    body = getattr(blk, fld)
            if body is None:
                continue
            n += 1
            after = body[body.index(a) + 1:]
            ops = []
            for st in after:
                for c in calls_in(st):
                    if isinstance(c.func, ast.Attribute) and isinstance(
                            c.func.value, ast.Name) and \
                            c.func.value.id == var:
                        if c.func.attr == 'astimezone':
                            ops.append(('astimezone', c))
                        elif c.func.attr == 'replace' and any(
                                k.arg == 'tzinfo' for k in c.keywords):
                            ops.append(('replace(tzinfo=)', c))
            where = '%s:%d' % (f.module.relpath, a.lineno)
            bad = [(o, c) for o, c in ops if (o == 'astimezone') != aware]
            res.ob('R8', where, '%s: %s value (%s) then %s' % (
                nm, 'aware' if aware else 'naive', unparse(a.value)[:50],
                [o for o, _ in ops] or 'no zone operation'),
                'VIOLATED' if bad else 'ok', nontrivial=True)
            for o, c in bad:
                res.finding('R8', '%s|%s|%s' % (
                    f.qualname, 'aware' if aware else 'naive', o),
                    '%s:%d' % (f.module.relpath, c.lineno),
                    '%s applies %s to the %s value parsed from the literal: '
                    '%s' % (f.qualname, o, 'aware' if aware else 'naive',
                            'astimezone() on a naive datetime reads it in '
                            'the server\'s local zone, so the wall-clock '
                            'fields of an offset-less literal change'
                            if not aware else
                            'replace(tzinfo=) discards the offset the '
                            'literal carried'))
    res.floor('R8', 'parsed datetime values with a zone decision', n, 3)


# ------------------------------------------------------------------- R9
B64_READERS = ('b64decode', 'urlsafe_b64decode', 'a2b_base64',
               'standard_b64decode', 'decodebytes')


def rule_r9(prog, res):
    res.rule('R9', 'base64 readers accept the whole XSD lexical space '
             '(embedded whitespace): no strict-alphabet mode')
    n = 0
    for mq in ('spyne.model.binary', 'spyne.protocol._inbase',
               'spyne.protocol.soap.mime'):
        m = prog.module(mq, required=False)
        if m is None:
            continue
        for f in m.functions.values():
            for c in calls_in(f.node):
                if call_name(c) not in B64_READERS:
                    continue
                n += 1
                strict = [k for k in c.keywords if k.arg in (
                    'validate', 'strict_mode') and not (
                    isinstance(k.value, ast.Constant) and
                    k.value.value is False)]
                where = '%s:%d' % (m.relpath, c.lineno)
                res.ob('R9', where, '%s: %s' % (f.qualname, unparse(c)[:60]),
                       'VIOLATED' if strict else 'ok')
                if strict:
                    res.finding('R9', '%s|%s|strict' % (
                        f.qualname, call_name(c)), where,
                        '%s decodes base64 with %s: line breaks and spaces, '
                        'which xs:base64Binary allows and MIME-style '
                        'encoders emit every 76 characters, are rejected' % (
                            f.qualname, unparse(strict[0])))
    res.floor('R9', 'base64 decode sites', n, 3)


def rule_r10(prog, res):
    from . import c02
    res.share('R10', 'the binary sibling codec keeps integers in msgpack\'s '
              'native window (C02-R4)', 'C02', c02.rule_r4, prog, Result)


# ------------------------------------------------------------------ R11
def rule_r11(prog, res):
    res.rule('R11', 'the date/time lexical patterns admit the whole XSD '
             'value space of offsets, months, days, hours, minutes, seconds')
    m = prog.module('spyne.model.primitive.datetime')
    pats = {}
    for nm in ('OFFSET_PATTERN', 'DATE_PATTERN', 'TIME_PATTERN'):
        v = m.consts.get(nm)
        if v is None:
            raise AnalysisError('spyne.model.primitive.datetime.' + nm,
                                'constant not found')
        ok, val = try_fold(prog, m, v)
        if not ok or not isinstance(val, str):
            res.unclass('R11', m.relpath, '%s does not fold to a string' % nm)
            continue
        pats[nm] = val
    # finite domains of the groups (decided by evaluating the constant
    # pattern over the domain: nothing of spyne is executed)
    domains = {
        'tz_hr': ['%s%02d' % (s_, h) for s_ in '+-' for h in range(15)],
        'tz_min': ['%02d' % x for x in range(60)],
        'month': ['%02d' % x for x in range(1, 13)],
        'day': ['%02d' % x for x in range(1, 32)],
        'hr': ['%02d' % x for x in range(25)],
        'min': ['%02d' % x for x in range(60)],
        'sec': ['%02d' % x for x in range(60)],
        'year': ['0001', '1999', '2024', '9999'],
    }
    n = 0
    for nm, val in sorted(pats.items()):
        groups = named_groups(val)
        for g, body in sorted(groups.items()):
            if g not in domains:
                continue
            n += 1
            try:
                rx = re.compile('(?:%s)\\Z' % body)
            except re.error as e:
                res.unclass('R11', m.relpath, 'group %s of %s: %s' % (g, nm,
                                                                       e))
                continue
            missing = [x for x in domains[g] if not rx.match(x)]
            where = '%s:%d' % (m.relpath, m.consts[nm].lineno)
            res.ob('R11', where, '%s group %s = %s admits %d/%d values of its '
                   'XSD domain' % (nm, g, body, len(domains[g]) - len(missing),
                                   len(domains[g])),
                   'VIOLATED' if missing else 'ok', nontrivial=True)
            if missing:
                res.finding('R11', '%s|%s|domain' % (nm, g), where,
                            'the lexical pattern of %s (%s) rejects %s ... '
                            '(%d of %d values of the XSD domain): such '
                            'literals fall through to a laxer pattern or are '
                            'refused, e.g. a +14:00 offset is dropped' % (
                                g, body, missing[:4], len(missing),
                                len(domains[g])))
    res.floor('R11', 'pattern groups with a finite XSD domain', n, 7)


# ------------------------------------------------------------------ R12
BINARY_TYPE_NAMES = {'BINARY_ENCODING_BASE64': 'base64Binary',
                     'BINARY_ENCODING_HEX': 'hexBinary',
                     'BINARY_ENCODING_URLSAFE_BASE64': 'string'}


def rule_r12(prog, res):
    res.rule('R12', 'each binary encoding is advertised as the XSD type whose '
             'lexical space its alphabet fits')
    c = prog.cls('spyne.model.binary:ByteArray')
    f = c.methods.get('__new__')
    if f is None:
        raise AnalysisError('ByteArray.__new__', 'not found')
    n = 0
    for node in walk_no_defs(f.node):
        if not isinstance(node, ast.If):
            continue
        for blk in (node.body,):
            enc = None
            tn = None
            for st in blk:
                if isinstance(st, ast.Assign) and "kwargs['encoding']" in \
                        unparse(st.targets[0]) and isinstance(
                        st.value, ast.Name):
                    enc = st.value.id
                if isinstance(st, ast.Assign) and unparse(
                        st.targets[0]) == 'tn' and isinstance(
                        st.value, ast.Constant):
                    tn = st.value.value
            if enc in BINARY_TYPE_NAMES:
                n += 1
                want = BINARY_TYPE_NAMES[enc]
                ok = tn == want
                where = '%s:%d' % (f.module.relpath, node.lineno)
                res.ob('R12', where, 'ByteArray(encoding=%s) is advertised '
                       'as xs:%s' % (enc, tn), 'ok' if ok else 'VIOLATED')
                if not ok:
                    res.finding('R12', 'ByteArray.__new__|%s|%s' % (enc, tn),
                                where, 'values encoded with %s are published '
                                'as xs:%s (expected xs:%s): the alphabet the '
                                'writer uses (- and _ for urlsafe base64) is '
                                'outside that type\'s lexical space, so '
                                'spyne\'s own output fails its own schema' % (
                                    enc, tn, want))
    res.floor('R12', 'encoding branches in ByteArray.__new__', n, 3)


def rule_r13(prog, res):
    from . import c05
    res.share('R13', 'fixed-width integers: max_str_len fits the longest '
              'literal, sign included (C05-R3)', 'C05', c05.rule_r3, prog,
              Result)


# ------------------------------------------------------------------ R14
def rule_r14(prog, res):
    res.rule('R14', 'fractions of a second become microseconds by rounding '
             'the product (int(round(x * 1e6))), never by truncation or by '
             'rounding before the multiplication')
    inb = prog.module('spyne.protocol._inbase')
    n = 0
    for f in inb.functions.values():
        for c in calls_in(f.node):
            if not (isinstance(c.func, ast.Name) and c.func.id == 'int' and
                    len(c.args) == 1):
                continue
            a = c.args[0]
            txt = unparse(a)
            if '1e6' not in txt.lower().replace('1000000.0', '1e6') and \
                    '1000000' not in txt:
                continue
            n += 1
            ok = isinstance(a, ast.Call) and call_name(a) == 'round' and \
                a.args and isinstance(a.args[0], ast.BinOp) and isinstance(
                a.args[0].op, ast.Mult) and len(a.args) == 1
            where = '%s:%d' % (inb.relpath, c.lineno)
            res.ob('R14', where, '%s: %s' % (f.qualname, unparse(c)[:60]),
                   'ok' if ok else 'VIOLATED')
            if not ok:
                res.finding('R14', '%s|microseconds|%s' % (f.qualname,
                                                           txt[:40]), where,
                            '%s computes microseconds as %s: the product of '
                            'a decimal fraction and 1e6 is not exact in '
                            'binary floating point (0.000249 * 1e6 = '
                            '248.99999...), so without rounding the product '
                            'itself one microsecond is lost for a large '
                            'share of the values' % (f.qualname,
                                                     unparse(c)[:60]))
    res.floor('R14', 'microsecond conversions', n, 3)


# ------------------------------------------------------------------ R15
def rule_r15(prog, res):
    res.rule('R15', 'the decimal writer does no context-dependent '
             'arithmetic; date/time writers and readers use the same format '
             'attributes')
    out = prog.cls('spyne.protocol._outbase:OutProtocolBase')
    inb = prog.cls('spyne.protocol._inbase:InProtocolBase')
    f = out.methods.get('decimal_to_unicode')
    if f is None:
        raise AnalysisError('OutProtocolBase.decimal_to_unicode', 'not found')
    bad = [c for c in calls_in(f.node) if isinstance(c.func, ast.Attribute)
           and c.func.attr in ('normalize', 'quantize', 'to_integral',
                               'to_integral_value', 'scaleb', 'fma',
                               'to_integral_exact', 'remainder_near')]
    bad += [b for b in walk_no_defs(f.node) if isinstance(b, ast.BinOp) and
            isinstance(b.op, (ast.Add, ast.Sub, ast.Mult, ast.Div)) and
            'value' in unparse(b) and not isinstance(b.left, ast.Constant)]
    res.ob('R15', f.where, 'decimal_to_unicode: %s' % (
        'context arithmetic: %s' % [unparse(b)[:30] for b in bad] if bad
        else 'no arithmetic on the value'), 'VIOLATED' if bad else 'ok')
    for b in bad[:2]:
        res.finding('R15', 'OutProtocolBase.decimal_to_unicode|context-'
                    'arithmetic|%s' % unparse(b)[:30],
                    '%s:%d' % (f.module.relpath, b.lineno),
                    'decimal_to_unicode applies %s to the value: decimal '
                    'arithmetic rounds to the active context precision (28 '
                    'digits), so values with more significant digits are '
                    'written as a different number' % unparse(b)[:40])
    # ... and the reader builds the number from the literal exactly
    CTX = ('create_decimal', 'create_decimal_from_float', 'getcontext',
           'localcontext', 'setcontext', 'Context', 'BasicContext',
           'ExtendedContext', 'normalize', 'quantize')
    nr = 0
    for nm in ('decimal_from_unicode', 'decimal_from_bytes'):
        fr = inb.methods.get(nm)
        if fr is None:
            continue
        nr += 1
        hits = [c for c in calls_in(fr.node) if call_name(c) in CTX]
        hits += [b for b in walk_no_defs(fr.node) if isinstance(b, ast.BinOp)
                 and isinstance(b.op, (ast.Add, ast.Sub, ast.Mult, ast.Div))
                 and any(isinstance(x, ast.Call) and call_name(x) in (
                     'D', 'Decimal') for x in ast.walk(b))]
        res.ob('R15', fr.where, '%s: %s' % (nm, (
            'context-dependent construction: %s' % [unparse(h)[:40]
                                                    for h in hits])
            if hits else 'exact construction from the literal'),
            'VIOLATED' if hits else 'ok')
        for h in hits[:1]:
            res.finding('R15', 'InProtocolBase.%s|context-construction|%s' %
                        (nm, call_name(h) if isinstance(h, ast.Call)
                         else 'arithmetic'),
                        '%s:%d' % (fr.module.relpath, h.lineno),
                        '%s builds the value with %s, which rounds to the '
                        'precision of the active decimal context (28 '
                        'significant digits by default): a longer literal '
                        'spyne wrote exactly reads back as a different '
                        'number' % (nm, unparse(h)[:50]))
    res.floor('R15', 'decimal readers', nr, 1)
    ACC = ('_get_time_format', '_get_date_format', '_get_datetime_format',
           'time_format', 'date_format', 'dt_format', 'out_format')
    n = 0
    for w, r in (('time_to_unicode', 'time_from_unicode'),
                 ('date_to_unicode', 'date_from_unicode'),
                 ('datetime_to_unicode', 'datetime_from_unicode')):
        fw, fr = out.methods.get(w), inb.methods.get(r)
        if fw is None or fr is None:
            continue
        n += 1

        def acc(fn):
            got = set()
            for x in ast.walk(fn.node):
                if isinstance(x, ast.Attribute) and x.attr in ACC:
                    got.add(x.attr)
            return got
        aw, ar = acc(fw), acc(fr)
        norm = lambda s_: {a.replace('_get_', '').replace('datetime', 'dt')
                           for a in s_} - {'out_format'}
        extra = norm(aw) - norm(ar)
        res.ob('R15', fw.where, '%s reads %s; %s reads %s' % (
            w, sorted(aw) or 'no format attribute', r,
            sorted(ar) or 'no format attribute'),
            'VIOLATED' if extra else 'ok')
        if extra:
            res.finding('R15', 'OutProtocolBase.%s|format-asymmetry|%s' % (
                w, sorted(extra)), fw.where,
                '%s formats with %s but %s does not read that attribute: a '
                'type customised with a format is written in a form '
                'spyne\'s own reader rejects or reads as a different '
                'value' % (w, sorted(extra), r))
    res.floor('R15', 'date/time writer-reader pairs', n, 3)


# ------------------------------------------------------------------ R16
def rule_r16(prog, res):
    res.rule('R16', 'XML readers of text-carried binary members (tag body, '
             'attributes) decode with the protocol\'s binary encoding, as the '
             'writers encode')
    x = prog.cls('spyne.protocol.xml:XmlDocument')
    f = x.methods.get('complex_from_element')
    if f is None:
        raise AnalysisError('XmlDocument.complex_from_element', 'not found')
    groups = {}
    for c in calls_in(f.node):
        if call_name(c) in ('_validated_from_unicode', 'from_unicode') and \
                c.args:
            groups.setdefault(unparse(c.args[0]), []).append(c)
    need = ('xtba_type.type', 'member.type')
    n = 0
    for t in need:
        cs = groups.get(t, [])
        if not cs:
            continue
        n += 1
        good = []
        for c in cs:
            if len(c.args) >= 3 and unparse(c.args[2]) == \
                    'self.binary_encoding':
                st = c
                while not isinstance(st, ast.stmt):
                    st = st._parent
                atoms = guardspec.atoms_at(st, f.node)
                if any(tx.startswith('issubclass(%s' % t) and 'ByteArray' in
                       tx and pol for tx, pol in atoms):
                    good.append(c)
        where = '%s:%d' % (f.module.relpath, cs[0].lineno)
        res.ob('R16', where, 'complex_from_element reads %s with %d calls, %d '
               'of them pass self.binary_encoding for binary types' % (
                   t, len(cs), len(good)), 'ok' if good else 'VIOLATED')
        if not good:
            res.finding('R16', 'XmlDocument.complex_from_element|%s|'
                        'binary-encoding' % t, where, 'the text carried for '
                        '%s is decoded without the protocol\'s binary '
                        'encoding: byte_array_from_bytes has no fallback and '
                        'takes the identity decoder, so a ByteArray/File '
                        'member comes back as the base64 text that was on '
                        'the wire instead of the bytes that were sent' % t)
    res.floor('R16', 'text carriers of typed members', n, 2)


# ------------------------------------------------------------------ R17
def rule_r17(prog, res):
    res.rule('R17', 'the duration writer reads the fields of the value it '
             'formats: nothing computed from the value before its negation '
             'is used afterwards')
    out = prog.cls('spyne.protocol._outbase:OutProtocolBase')
    f = out.methods.get('duration_to_unicode')
    if f is None:
        raise AnalysisError('OutProtocolBase.duration_to_unicode',
                            'not found')
    v = [p_ for p_ in f.params() if p_ not in ('self', 'cls')][0]
    rebinds = [a for a in walk_no_defs(f.node) if isinstance(a, ast.Assign)
               and any(isinstance(t, ast.Name) and t.id == v
                       for t in a.targets)]
    res.floor('R17', 'rebindings of the duration value', len(rebinds), 1)
    last = max(a.lineno for a in rebinds)
    stale = []
    for a in walk_no_defs(f.node):
        if isinstance(a, ast.Assign) and a.lineno < last and a not in rebinds \
                and any(isinstance(x, ast.Name) and x.id == v
                        for x in ast.walk(a.value)):
            for t in a.targets:
                if not isinstance(t, ast.Name):
                    continue
                used_after = [x for x in walk_no_defs(f.node) if isinstance(
                    x, ast.Name) and x.id == t.id and isinstance(
                        x.ctx, ast.Load) and x.lineno > last]
                redefined = [b for b in walk_no_defs(f.node) if isinstance(
                    b, ast.Assign) and b.lineno > last and any(
                        isinstance(tt, ast.Name) and tt.id == t.id
                        for tt in b.targets)]
                if used_after and not redefined:
                    stale.append((a, t.id))
    res.ob('R17', f.where, 'duration_to_unicode: %d values computed before '
           'the negation and used after it' % len(stale),
           'VIOLATED' if stale else 'ok')
    for a, nm in stale:
        res.finding('R17', 'OutProtocolBase.duration_to_unicode|stale|%s' %
                    nm, '%s:%d' % (f.module.relpath, a.lineno),
                    '%s is computed from the value before it is negated '
                    '(%s) and used afterwards: a negative timedelta stores '
                    'negative days plus non-negative seconds and '
                    'microseconds, so the field taken before negation is the '
                    'complement of the one that belongs to the magnitude '
                    '(-0.25 s is written -PT0.750000S)' % (nm, unparse(a)))


def rule_r18(prog, res):
    from . import c06
    from ..report import Result
    res.share('R18', 'published lexical patterns stay in the syntax XSD and '
              'Python share (C06-R15)', 'C06', c06.rule_r15, prog, Result)


# ------------------------------------------------------------------ R19
def rule_r19(prog, res):
    res.rule('R19', 'a protocol that overrides the reader of a date/time '
             'type with the ISO reader overrides its writer too (and the '
             'other way round)')
    n = 0
    for cfq in ('spyne.protocol.soap.soap11:Soap11',):
        c = prog.cls(cfq)
        f = c.methods.get('__init__')
        got = {'_to_unicode_handlers': set(), '_from_unicode_handlers': set()}
        for a in walk_no_defs(f.node):
            if isinstance(a, ast.Assign):
                for t in a.targets:
                    if isinstance(t, ast.Subscript) and isinstance(
                            t.value, ast.Attribute) and \
                            t.value.attr in got and unparse(t.slice) in (
                                'Date', 'Time', 'DateTime'):
                        got[t.value.attr].add(unparse(t.slice))
        n += len(got['_to_unicode_handlers'] | got['_from_unicode_handlers'])
        # Time has no format-dependent reader: only Date/DateTime matter there
        rd = got['_from_unicode_handlers']
        wr = got['_to_unicode_handlers']
        missing_w = sorted(rd - wr)
        missing_r = sorted((wr - rd) - {'Time'})
        ok = not missing_w and not missing_r
        res.ob('R19', f.where, '%s overrides writers %s and readers %s' % (
            c.name, sorted(wr), sorted(rd)), 'ok' if ok else 'VIOLATED')
        for t in missing_w:
            res.finding('R19', '%s.__init__|writer-not-overridden|%s' % (
                c.name, t), f.where, '%s reads %s with the ISO reader but '
                'writes it with the default writer, which honours the '
                'type\'s custom format: %s(date_format="%%d/%%m/%%Y") is '
                'sent as 31/12/2020 and neither the schema nor its own '
                'reader accept it' % (c.name, t, t))
        for t in missing_r:
            res.finding('R19', '%s.__init__|reader-not-overridden|%s' % (
                c.name, t), f.where, '%s writes %s in ISO form but reads it '
                'with the format-dependent reader' % (c.name, t))
    res.floor('R19', 'date/time handler overrides', n, 3)


# ------------------------------------------------------------------ R20
def rule_r20(prog, res):
    res.rule('R20', 'edge literals: an empty element is the empty string / '
             'byte string for the types that have one; non-finite doubles '
             'are written INF, -INF, NaN; a naive dateTime enters a pytz zone '
             'through localize()')
    x = prog.cls('spyne.protocol.xml:XmlDocument')
    n = 0
    for nm in ('unicode_from_element', 'byte_array_from_element'):
        f = x.methods.get(nm)
        if f is None:
            continue
        n += 1
        fu = [c for c in calls_in(f.node) if call_name(c) == 'from_unicode'
              and len(c.args) >= 2]
        ok = False
        for c in fu:
            a = c.args[1]
            if isinstance(a, ast.Name):
                for st in walk_no_defs(f.node):
                    if isinstance(st, ast.Assign) and any(
                            isinstance(t, ast.Name) and t.id == a.id
                            for t in st.targets) and isinstance(
                            st.value, ast.Constant) and st.value.value == '' \
                            and any('%s is None' % a.id == t and pol
                                    for t, pol in guardspec.atoms_at(st,
                                                                     f.node)):
                        ok = True
        res.ob('R20', f.where, '%s %s' % (nm, 'substitutes the empty string '
               'for the None of an empty element' if ok else 'decodes '
               'element.text as it is'), 'ok' if ok else 'VIOLATED')
        if not ok:
            res.finding('R20', 'XmlDocument.%s|empty-element' % nm, f.where,
                        '%s hands element.text to the decoder unchanged: the '
                        'empty value, which spyne writes as an empty non-nil '
                        'element, is read back as None' % nm)
    res.floor('R20', 'readers of types with an empty value', n, 2)
    out = prog.cls('spyne.protocol._outbase:OutProtocolBase')
    f = out.methods.get('double_to_unicode')
    consts = {r.value.value for r in walk_no_defs(f.node)
              if isinstance(r, ast.Return) and isinstance(
                  r.value, ast.Constant)}
    ok = {'INF', '-INF', 'NaN'} <= consts
    res.ob('R20', f.where, 'double_to_unicode returns the literals %s for '
           'non-finite values' % sorted(c for c in consts if isinstance(
               c, str)), 'ok' if ok else 'VIOLATED')
    if not ok:
        res.finding('R20', 'OutProtocolBase.double_to_unicode|non-finite',
                    f.where, 'non-finite doubles fall through to repr(): '
                    '"inf", "-inf" and "nan" are not xs:double literals '
                    '(INF, -INF, NaN)')
    inb = prog.cls('spyne.protocol._inbase:InProtocolBase')
    g = inb.methods.get('datetime_from_unicode_iso')
    reps = [c for c in calls_in(g.node) if call_name(c) == 'replace' and any(
        k.arg == 'tzinfo' and unparse(k.value) == 'astz' for k in c.keywords)]
    for c in reps:
        st = c
        while not isinstance(st, ast.stmt):
            st = st._parent
        atoms = guardspec.atoms_at(st, g.node)
        ok = any("hasattr(astz, 'localize')" in t and not pol
                 for t, pol in atoms)
        where = '%s:%d' % (g.module.relpath, c.lineno)
        res.ob('R20', where, 'replace(tzinfo=astz) %s' % (
            'only for zones without localize()' if ok else
            'for every zone'), 'ok' if ok else 'VIOLATED')
        if not ok:
            res.finding('R20', 'InProtocolBase.datetime_from_unicode_iso|'
                        'pytz-replace', where, 'the as_timezone zone is '
                        'attached with replace(tzinfo=astz) whatever its '
                        'kind: for a pytz zone that selects the zone\'s '
                        'first historical offset (Istanbul: +01:56), so an '
                        'offset-less literal comes back 1:04:00 off')
    res.floor('R20', 'zone attachments of naive values', len(reps), 1)


def rule_r21(prog, res):
    from . import c06
    from ..report import Result
    res.share('R21', 'the binary writer resolves the encoding in the order the '
              'reader and the schema use: class attribute first (C06-R6)',
              'C06', c06.rule_r6, prog, Result)


# ------------------------------------------------------------------ R22
def rule_r22(prog, res):
    res.rule('R22', 'the lexical patterns of the duration and time readers '
             'admit every digit-length class of the seconds fraction that '
             'XSD allows (evaluated over the constant patterns)')
    import re as _re
    from ..constfold import try_fold
    frac = ['1', '12', '123456', '1234567', '123456789', '1234567890123']
    n = 0
    for modname, constname, group, samples in (
            ('spyne.protocol._inbase', '_duration_re', 'seconds',
             ['7'] + ['7.' + f for f in frac]),
            ('spyne.model.primitive.datetime', 'TIME_PATTERN', 'sec_frac',
             ['.' + f for f in frac])):
        m = prog.module(modname)
        v = m.consts.get(constname)
        if v is None:
            raise AnalysisError('%s.%s' % (modname, constname), 'not found')
        src = v
        if isinstance(v, ast.Call) and call_name(v) == 'compile' and v.args:
            src = v.args[0]
        if isinstance(src, ast.Constant):
            val = src.value
        else:
            okf, val = try_fold(prog, m, src)
            if not okf:
                val = None
        if not isinstance(val, str):
            res.unclass('R22', m.relpath, '%s is not a constant pattern' %
                        constname)
            continue
        body = named_groups(val).get(group)
        if body is None:
            raise AnalysisError('%s.%s' % (modname, constname),
                                'group %s not found' % group)
        n += 1
        rx = _re.compile('(?:%s)\\Z' % body)
        missing = [x for x in samples if not rx.match(x)]
        where = '%s:%d' % (m.relpath, v.lineno)
        res.ob('R22', where, '%s group %s = %s admits %d/%d fraction lengths'
               % (constname, group, body, len(samples) - len(missing),
                  len(samples)), 'VIOLATED' if missing else 'ok')
        if missing:
            res.finding('R22', '%s|%s|fraction-length' % (constname, group),
                        where, 'the %s group of %s (%s) does not match %s: a '
                        'valid literal with that many fraction digits is '
                        'either refused or, with the unanchored match() of '
                        'the reader, loses its seconds silently '
                        '(PT1.5000000S read as 0 seconds)' % (
                            group, constname, body, missing[:3]))
    res.floor('R22', 'fraction groups evaluated', n, 2)


# ------------------------------------------------------------------ R23
def rule_r23(prog, res):
    res.rule('R23', 'the date-time writer and reader consult the same format '
             'aliases (dt_format, out_format, format), and the url-safe '
             'base64 reader decodes with the url-safe alphabet in its order')
    pm = prog.cls('spyne.protocol._base:ProtocolMixin')
    ib = prog.cls('spyne.protocol._inbase:InProtocolBase')
    w = pm.methods.get('_get_datetime_format')
    r = ib.methods.get('_datetime_from_unicode')
    if w is None or r is None:
        raise AnalysisError('_get_datetime_format/_datetime_from_unicode',
                            'not found')
    need = {'dt_format', 'out_format', 'format'}

    def aliases(f):
        got = {a.attr for a in walk_no_defs(f.node)
               if isinstance(a, ast.Attribute) and a.attr.endswith('format')
               and unparse(a.value) == 'cls_attrs'}
        # getattr(cls_attrs, name) over a table of names
        tables = []
        used = {y.id for y in walk_no_defs(f.node) if isinstance(y, ast.Name)}
        used |= {y.attr for y in walk_no_defs(f.node)
                 if isinstance(y, ast.Attribute)}
        for nm, v in f.module.consts.items():
            if nm in used:
                tables.append(v)
        if f.cls is not None:
            for st in f.cls.node.body:
                if isinstance(st, ast.Assign) and any(
                        isinstance(t, ast.Name) and t.id in used
                        for t in st.targets):
                    tables.append(st.value)
        tables.append(f.node)
        if any(isinstance(c, ast.Call) and call_name(c) == 'getattr' and
               c.args and unparse(c.args[0]) == 'cls_attrs'
               for c in calls_in(f.node)):
            for t in tables:
                for y in ast.walk(t):
                    if isinstance(y, ast.Constant) and isinstance(
                            y.value, str) and y.value.endswith('format'):
                        got.add(y.value)
        return got
    for f, what in ((w, 'writer'), (r, 'reader')):
        got = aliases(f)
        miss = sorted(need - got)
        res.ob('R23', f.where, 'the date-time %s consults %s' % (
            what, sorted(got)), 'VIOLATED' if miss else 'ok')
        if miss:
            res.finding('R23', '%s|format-alias|%s' % (f.qualname,
                                                       ','.join(miss)),
                        f.where, 'the %s no longer consults %s while its '
                        'sibling does: DateTime(%s="%%d.%%m.%%Y") is written '
                        'one way and read the other, so the text Spyne wrote '
                        'does not read back' % (what, miss, miss[0]))
    b = prog.cls('spyne.model.binary:ByteArray')
    f = b.methods.get('from_urlsafe_base64')
    if f is None:
        raise AnalysisError('ByteArray.from_urlsafe_base64', 'not found')
    n = 0
    for c in calls_in(f.node):
        nm = call_name(c)
        if nm == 'urlsafe_b64decode':
            n += 1
            res.ob('R23', '%s:%d' % (f.module.relpath, c.lineno),
                   'from_urlsafe_base64 decodes with urlsafe_b64decode', 'ok')
        elif nm == 'b64decode':
            n += 1
            alt = [k.value for k in c.keywords if k.arg == 'altchars'] + \
                list(c.args[1:2])
            ok = bool(alt) and isinstance(alt[0], ast.Constant) and \
                alt[0].value in (b'-_', '-_')
            where = '%s:%d' % (f.module.relpath, c.lineno)
            res.ob('R23', where, 'from_urlsafe_base64 decodes with altchars '
                   '%s' % (unparse(alt[0]) if alt else 'none'),
                   'ok' if ok else 'VIOLATED')
            if not ok:
                res.finding('R23', 'ByteArray.from_urlsafe_base64|altchars',
                            where, 'the url-safe reader decodes with altchars '
                            '%s: "-" stands for 62 and "_" for 63 (b"-_"); '
                            'in the other order the two 6-bit groups are '
                            'swapped and text containing them is read as '
                            'other bytes' % (unparse(alt[0]) if alt else
                                             'missing'))
    res.floor('R23', 'decoder calls in from_urlsafe_base64', n, 1)


def rule_r24(prog, res):
    from . import c06
    from ..report import Result
    res.share('R24', 'length caps of the text readers are inclusive: a '
              'literal of exactly max_str_len characters is read (C06-R11)',
              'C06', c06.rule_r11, prog, Result)


def rule_r25(prog, res):
    res.rule('R25', 'the SOAP family writes dates and times as ISO literals '
             'whatever display format the type carries, the way its readers '
             'parse them')
    k = prog.cls('spyne.protocol.soap.soap11:Soap11')
    f = k.methods.get('__init__')
    if f is None:
        raise AnalysisError('Soap11.__init__', 'not found')

    def iso_writer(v):
        if isinstance(v, ast.Lambda):
            return isinstance(v.body, ast.Call) and call_name(
                v.body) == 'isoformat'
        fn = None
        if isinstance(v, ast.Attribute) and isinstance(
                v.value, ast.Name) and v.value.id == 'self':
            fn = prog.find_method(k, v.attr)
        elif isinstance(v, ast.Name):
            fn = k.module.functions.get(v.id) or k.module.functions.get(
                'Soap11.__init__.' + v.id)
        if fn is None:
            return None
        rets = [r for r in walk_no_defs(fn.node) if isinstance(r, ast.Return)]
        return bool(rets) and all(
            isinstance(r.value, ast.Call) and
            call_name(r.value) == 'isoformat' for r in rets)
    writers, readers = {}, {}
    for a in walk_no_defs(f.node):
        if isinstance(a, ast.Assign) and isinstance(
                a.targets[0], ast.Subscript) and isinstance(
                a.targets[0].value, ast.Attribute):
            tbl = a.targets[0].value.attr
            key = unparse(a.targets[0].slice)
            if tbl == '_to_unicode_handlers':
                writers[key] = a
            elif tbl == '_from_unicode_handlers':
                readers[key] = a
    n = 0
    for key in sorted(set(readers) | {'Date', 'Time', 'DateTime'}):
        a = writers.get(key)
        where = '%s:%d' % (f.module.relpath, (a or f.node).lineno)
        iso = iso_writer(a.value) if a is not None else False
        if a is not None:
            n += 1
        ok = iso is True
        res.ob('R25', where, 'Soap11 writes %s with %s' % (key, unparse(
            a.value)[:50] if a is not None else 'the generic handler'),
            'ok' if ok else ('unclassified' if iso is None else 'VIOLATED'))
        if iso is None:
            res.unclass('R25', where, 'writer for %s: %s' % (key, unparse(
                a.value)[:60]))
        elif not ok:
            res.finding('R25', 'Soap11.__init__|%s|writer-honours-display-'
                        'format' % key, where, 'the SOAP writer for %s is %s: '
                        'a display format declared on the type (date_format, '
                        'dt_format, ...) reaches the wire, which is neither '
                        'in the lexical space of the advertised xs type nor '
                        'what the ISO readers of the same protocol parse' % (
                            key, unparse(a.value)[:60] if a is not None
                            else 'not overridden'))
    res.floor('R25', 'ISO writer overrides in Soap11.__init__', n, 3)


# ------------------------------------------------------------------ R26
def rule_r26(prog, res):
    res.rule('R26', 'the chunk joiner of the binary writers treats a bytes '
             'value as one chunk: in the Python 3 _bytes_join every use of '
             'the elements of val (index, join, iteration) stands under "val '
             'is not bytes" - an element of a bytes object is an int')
    m = prog.module('spyne.util')
    defs = [d for d in ast.walk(m.tree) if isinstance(d, ast.FunctionDef) and
            d.name == '_bytes_join']
    n = 0
    for d in defs:
        outer = flatten_guards(guards_at(d))
        if any(pol and unparse(e).endswith('PY2') for e, pol in outer):
            continue            # the Python 2 twin: str chunks, str value
        if not d.args.args:
            continue
        v = d.args.args[0].arg
        uses = []
        for x in walk_no_defs(d):
            if isinstance(x, ast.Subscript) and unparse(x.value) == v:
                uses.append(x)
            elif isinstance(x, ast.Call) and call_name(x) == 'join' and any(
                    unparse(a) == v for a in x.args):
                uses.append(x)
            elif isinstance(x, (ast.For, ast.comprehension)) and unparse(
                    x.iter) == v:
                uses.append(x)
        for u in uses:
            n += 1
            g = flatten_guards(guards_at(u, stop=d))
            ok = any((not pol) and isinstance(e, ast.Call) and call_name(e)
                     == 'isinstance' and unparse(e.args[0]) == v and (
                         'binary_type' in unparse(e.args[1]) or 'bytes' in
                         unparse(e.args[1])) for e, pol in g)
            where = '%s:%d' % (m.relpath, getattr(u, 'lineno', d.lineno))
            res.ob('R26', where, '_bytes_join: %s only for a sequence of '
                   'chunks' % unparse(u)[:50], 'ok' if ok else 'VIOLATED')
            if not ok:
                res.finding('R26', '_bytes_join|element-of-bytes|%s' %
                            type(u).__name__, where, '%s is reached for a '
                            'bytes value too: its elements are ints, so a '
                            'ByteArray given as plain bytes has no hex / '
                            'base64 text form for some lengths' %
                            unparse(u)[:60])
    res.floor('R26', 'element uses in _bytes_join (py3)', n, 1)


def run(prog, res, tier):
    res.run_rule(rule_r1, prog, res)
    res.run_rule(rule_r2_r7, prog, res, tier)
    res.run_rule(rule_r3, prog, res)
    res.run_rule(rule_r4, prog, res)
    res.run_rule(rule_r5, prog, res)
    res.run_rule(rule_r6, prog, res)
    res.run_rule(rule_r8, prog, res)
    res.run_rule(rule_r9, prog, res)
    res.run_rule(rule_r10, prog, res)
    res.run_rule(rule_r11, prog, res)
    res.run_rule(rule_r12, prog, res)
    res.run_rule(rule_r13, prog, res)
    res.run_rule(rule_r14, prog, res)
    res.run_rule(rule_r15, prog, res)
    res.run_rule(rule_r16, prog, res)
    res.run_rule(rule_r17, prog, res)
    res.run_rule(rule_r18, prog, res)
    res.run_rule(rule_r19, prog, res)
    res.run_rule(rule_r20, prog, res)
    res.run_rule(rule_r21, prog, res)
    res.run_rule(rule_r22, prog, res)
    res.run_rule(rule_r23, prog, res)
    res.run_rule(rule_r24, prog, res)
    res.run_rule(rule_r25, prog, res)
    res.run_rule(rule_r26, prog, res)


_I = 'spyne/protocol/_inbase.py'
_O = 'spyne/protocol/_outbase.py'
_B = 'spyne/model/binary.py'
_S = 'spyne/protocol/soap/soap11.py'

MUTANTS = [
    Mutant('bytes-join-single-chunk-shortcut', 'R26', 'fire',
           'spyne/util/__init__.py',
           in_func(None, "    def _bytes_join(val, joiner=b''):\n",
                   "    def _bytes_join(val, joiner=b''):\n        if len(val)"
                   " == 1:\n            return val[0]\n"),
           'element-of-bytes'),
    Mutant('decimal-length-cap-exclusive', 'R24', 'fire',
           'spyne/protocol/_inbase.py',
           in_func('InProtocolBase.decimal_from_unicode',
                   "len(string) > \\\n", "len(string) >= \\\n"),
           'bound-not-inclusive'),
    Mutant('soap-date-writer-generic', 'R25', 'fire',
           'spyne/protocol/soap/soap11.py',
           in_func('Soap11.__init__',
                   "self._to_unicode_handlers[Date] = lambda cls, value: "
                   "value.isoformat()",
                   "self._to_unicode_handlers[Date] = self.date_to_unicode"),
           'writer-honours-display-format'),
    Mutant('writer-ignores-format-alias', 'R23', 'fire',
           'spyne/protocol/_base.py',
           in_func('ProtocolMixin._get_datetime_format',
                   "        if dt_format is None:\n"
                   "            dt_format = cls_attrs.format\n", ""),
           'format-alias'),
    Mutant('urlsafe-altchars-swapped', 'R23', 'fire', _B,
           in_func('ByteArray.from_urlsafe_base64',
                   r"            if isinstance\(value, \(list, tuple\)\):\n"
                   r"(.*?)return \(urlsafe_b64decode\(value\),\)\n",
                   "            return (b64decode(_bytes_join(value), "
                   "altchars=b'_-'),)\n", regex=True), 'altchars'),
    Mutant('duration-fraction-capped', 'R22', 'fire',
           'spyne/protocol/_inbase.py',
           in_func(None, r"(?P<seconds>\d+(\.\d+)?)S",
                   r"(?P<seconds>\d+(\.\d{1,6})?)S"), 'fraction-length'),
    Mutant('empty-bytes-read-as-none', 'R20', 'fire', 'spyne/protocol/xml.py',
           in_func('XmlDocument.byte_array_from_element',
                   "retval = self.from_unicode(cls, s, self.binary_encoding)",
                   "retval = self.from_unicode(cls, element.text, "
                   "self.binary_encoding)"), 'empty-element'),
    Mutant('double-non-finite-repr', 'R20', 'fire',
           'spyne/protocol/_outbase.py',
           in_func('OutProtocolBase.double_to_unicode',
                   "            return 'INF'", "            return repr(value)"),
           'non-finite'),
    Mutant('pytz-zone-attached-with-replace', 'R20', 'fire',
           'spyne/protocol/_inbase.py',
           in_func('InProtocolBase.datetime_from_unicode_iso',
                   "if hasattr(astz, 'localize'):", "if False:"),
           'pytz-replace'),
    Mutant('soap-date-writer-not-overridden', 'R19', 'fire',
           'spyne/protocol/soap/soap11.py',
           in_func('Soap11.__init__',
                   "        self._to_unicode_handlers[Date] = lambda cls, "
                   "value: value.isoformat()\n", ""),
           'writer-not-overridden'),
    Mutant('duration-fraction-read-before-negation', 'R17', 'fire',
           'spyne/protocol/_outbase.py',
           in_func('OutProtocolBase.duration_to_unicode',
                   r"(    def duration_to_unicode\(self, cls, value, \*\*_\):\n)"
                   r"(.*?)(        useconds = value\.microseconds\n)",
                   lambda m_: m_.group(1) + m_.group(3) + m_.group(2),
                   regex=True), 'stale'),
    Mutant('decimal-reader-uses-context', 'R15', 'fire',
           'spyne/protocol/_inbase.py',
           in_func('InProtocolBase.decimal_from_unicode',
                   "return D(string)",
                   "return decimal.getcontext().create_decimal(string)"),
           'context-construction'),
    Mutant('xmldata-binary-read-without-encoding', 'R16', 'fire',
           'spyne/protocol/xml.py',
           in_func('XmlDocument.complex_from_element',
                   "elt.text, self.binary_encoding)", "elt.text)"),
           'binary-encoding'),
    Mutant('xmlattr-binary-read-without-encoding', 'R16', 'fire',
           'spyne/protocol/xml.py',
           in_func('XmlDocument.complex_from_element',
                   "value = self._validated_from_unicode(member.type, "
                   "value_str,\n                                              "
                   "             self.binary_encoding)",
                   "value = self._validated_from_unicode(member.type, "
                   "value_str)"),
           'binary-encoding'),
    Mutant('microseconds-round-before-multiply', 'R14', 'fire', _I,
           in_func('_parse_datetime_iso_match',
                   "int(round(float(usecond) * 1e6))",
                   "int(round(float(usecond), 6) * 1e6)"), 'microseconds'),
    Mutant('duration-microseconds-truncated', 'R14', 'fire', _I,
           in_func('InProtocolBase.duration_from_unicode',
                   "microseconds = int(round(1e6 * f))",
                   "microseconds = int(1e6 * f)"), 'microseconds'),
    Mutant('decimal-normalised', 'R15', 'fire', _O,
           in_func('OutProtocolBase.decimal_to_unicode',
                   "        return str(value)",
                   "        value = D(value).normalize()\n"
                   "        return str(value)"), 'context-arithmetic'),
    Mutant('time-writer-honours-format', 'R15', 'fire', _O,
           in_func('OutProtocolBase.time_to_unicode',
                   "        return value.isoformat()",
                   "        tf = self._get_time_format(self.get_cls_attrs("
                   "cls))\n        if tf is not None:\n"
                   "            return value.strftime(tf)\n"
                   "        return value.isoformat()"), 'format-asymmetry'),
    Mutant('offset-hours-capped-at-12', 'R11', 'fire',
           'spyne/model/primitive/datetime.py',
           lambda src: src.replace(
               "OFFSET_PATTERN = r'(?P<tz_hr>[+-]\\d{2}):(?P<tz_min>\\d{2})'",
               "OFFSET_PATTERN = r'(?P<tz_hr>[+-](?:0\\d|1[0-2])):"
               "(?P<tz_min>[0-5]\\d)'"), 'tz_hr'),
    Mutant('offset-minutes-class', 'R11', 'benign',
           'spyne/model/primitive/datetime.py',
           lambda src: src.replace(
               "OFFSET_PATTERN = r'(?P<tz_hr>[+-]\\d{2}):(?P<tz_min>\\d{2})'",
               "OFFSET_PATTERN = r'(?P<tz_hr>[+-][0-9]{2}):"
               "(?P<tz_min>[0-5][0-9])'"), None),
    Mutant('urlsafe-advertised-as-base64', 'R12', 'fire', _B,
           in_func('ByteArray.__new__', "                tn = 'string'\n",
                   "                tn = 'base64Binary'\n"), 'ByteArray'),
    Mutant('naive-literal-converted', 'R8', 'fire', _I,
           in_func('InProtocolBase.datetime_from_unicode_iso',
                   "retval = retval.replace(tzinfo=astz)",
                   "retval = retval.astimezone(astz)"), 'naive|astimezone'),
    Mutant('aware-literal-retagged', 'R8', 'fire', _I,
           in_func('InProtocolBase.datetime_from_unicode_iso',
                   "retval = retval.astimezone(astz)",
                   "retval = retval.replace(tzinfo=astz)"),
           'aware|replace'),
    Mutant('naive-literal-none-test', 'R8', 'benign', _I,
           in_func('InProtocolBase.datetime_from_unicode_iso',
                   "                if astz:\n",
                   "                if astz is not None:\n"), None),
    Mutant('base64-strict-alphabet', 'R9', 'fire', _B,
           in_func('ByteArray.from_base64', "b64decode(joiner.join(value))",
                   "b64decode(joiner.join(value), validate=True)"),
           'strict'),
    Mutant('base64-explicit-lenient', 'R9', 'benign', _B,
           in_func('ByteArray.from_base64', "b64decode(joiner.join(value))",
                   "b64decode(joiner.join(value), validate=False)"), None),
    Mutant('time-reader-is-date-reader', 'R1', 'fire', _I,
           in_func('InProtocolBase.__init__',
                   "self._from_unicode_handlers[Time] = self.time_from_unicode",
                   "self._from_unicode_handlers[Time] = self.date_from_unicode"
                   ), 'Time'),
    Mutant('duration-reader-dropped', 'R1', 'fire', _I,
           in_func('InProtocolBase.__init__',
                   "        self._from_unicode_handlers[Duration] = "
                   "self.duration_from_unicode\n", ""), 'Duration'),
    Mutant('duration-none-deref', 'R2', 'fire', _I,
           in_func('InProtocolBase.duration_from_unicode',
                   r"        match = _duration_re\.match\(string\)\n"
                   r"        if match is None:\n(.*?)\n\n"
                   r"        duration = match\.groupdict\(0\)\n",
                   "        duration = _duration_re.match(string).groupdict(0)"
                   "\n", regex=True), 'duration_from_unicode'),
    Mutant('fraction-unpadded', 'R3', 'fire', _O,
           in_func('OutProtocolBase.duration_to_unicode', '".%06i" % useconds',
                   '".%i" % useconds'), 'fraction'),
    Mutant('early-return-loses-usec', 'R3', 'fire', _O,
           in_func('OutProtocolBase.duration_to_unicode',
                   "if tot_sec != 0 and tot_sec % 86400 == 0 and "
                   "useconds == 0:",
                   "if value.days != 0 and value.seconds == 0:"),
           'early-return'),
    Mutant('duration-sign-from-truncated-seconds', 'R3', 'fire', _O,
           in_func('OutProtocolBase.duration_to_unicode',
                   "if value.days < 0:",
                   "if int(value.total_seconds()) < 0:"), 'sign'),
    Mutant('offset-sign-dropped', 'R4', 'fire', _I,
           in_func('InProtocolBase.datetime_from_unicode_iso',
                   "                if match.group(\"tz_hr\").startswith('-'):"
                   "\n                    tz_min = -tz_min\n", ""),
           'sign-not-applied'),
    Mutant('offset-sign-from-int', 'R4', 'fire', _I,
           in_func('InProtocolBase.datetime_from_unicode_iso',
                   "if match.group(\"tz_hr\").startswith('-'):",
                   "if tz_hr < 0:"), 'sign-from-number'),
    Mutant('twin-offset-sign-first-char', 'R4', 'benign', _I,
           in_func('InProtocolBase.datetime_from_unicode_iso',
                   "if match.group(\"tz_hr\").startswith('-'):",
                   "if match.group('tz_hr')[0] == '-':"), ''),
    Mutant('boolean-capitalised', 'R5', 'fire', _O,
           in_func('OutProtocolBase.boolean_to_unicode',
                   "return str(bool(value)).lower()",
                   "return str(bool(value))"), 'boolean_to_unicode'),
    Mutant('base64-per-chunk', 'R5', 'fire', _B,
           in_func('ByteArray.to_base64',
                   "return b64encode(b''.join(value))",
                   "return b''.join(b64encode(chunk) for chunk in value)"),
           'per-chunk'),
    Mutant('boolean-never-rejects', 'R6', 'fire', _I,
           in_func('InProtocolBase.boolean_from_bytes',
                   r"        value = string\.strip\(\)\.lower\(\).*"
                   r"raise ValidationError\(string\)",
                   "        return string.lower() in ('true', '1')",
                   regex=True), 'boolean_from_bytes'),
    Mutant('time-ctor-unguarded', 'R7', 'fire', _I,
           in_func('InProtocolBase.time_from_unicode',
                   r"        try:\n            return time\((.*?)microsec\)\n"
                   r"        except ValueError:\n            raise "
                   r"ValidationError\(string\)",
                   r"        return time(\1microsec)", regex=True),
           'time_from_unicode'),
]
