"""C01 - XML/SOAP wire fidelity.  Structural clauses only: the plumbing between
the application and the XML protocol family for every body style, and the
agreement of the codec tables."""
import ast

from ..core import (AnalysisError, dotted, unparse, calls_in, call_name,
                    walk_no_defs, parent, ancestors, ClassInfo, FuncInfo)
from ..flow import (guards_at, flatten_guards, SeqFlow, RETURN,
                    always_exits)
from .. import guardspec
from ..tables import tables_of, cdict_lookup
from ..mutate import Mutant, in_func
from . import c18, c14, c16, c06, c08, c15
from ..report import Result

ID = 'C01'
EXPLANATION = (
    'Decides that the request/response plumbing is right for every body '
    'style and protocol class. R1 result plumbing: in every serialize of the '
    'XML family the branch taken for BODY_STYLE_WRAPPED (decided by abstract '
    'evaluation of the source test over the five body styles) consumes '
    'ctx.out_object positionally against the out message\'s _type_info in its '
    'own order; the branch taken for the four non-wrapped styles unwraps the '
    'one-element list that Application.process_request builds (that wrapping '
    'site is located and required). R2 body-style coverage tables of every '
    'dispatch on body_style (evidence only). R3 codec-table agreement: for '
    'every model class, the writer found in serialization_handlers and the '
    'reader found in deserialization_handlers (cdict lookup semantics) belong '
    'to the same family. R4 the user function runs exactly once (C14-R2). '
    'R6 the primitive text codecs satisfy the structural rules of C08 (zero-padded fractions, duration sign/early return, offset sign, lexical-space table). R7 appending fields clears the whole flattened-type-info memo so reader and writer see the same members (C15-R2). R5 wire order is declaration order, parents first, members under the '
    'namespace of the declaring class (C16-R1, C06-R3). Not decided: equality '
    'of values through the codecs (C08 partially), third-party client '
    'interop, validator interaction.')
ASSUMPTIONS = ['the five body-style constants are the whole domain',
               'cdict resolves a class to the nearest registered base']
LEVEL_TEXT = (
    'Static finite-domain evaluation of the body-style dispatch in every '
    'XML-family serialize plus handler-table family agreement and the shared '
    'ordering/exactly-once rules. Decides the plumbing clause for all body '
    'styles and protocol classes; values are not computed.')
LEVEL_NOTE = ('Trusted: process_request is the only producer of '
              'ctx.out_object on the server path.')
TECHNIQUE = ('finite-domain abstract evaluation of body-style tests + '
             'handler-table agreement (ast)')

XML_FAMILY = ['spyne.protocol.xml:XmlDocument',
              'spyne.protocol.soap.soap11:Soap11']

WRITER_READER_FAMILY = {
    # writer stem -> acceptable reader stems
    'modelbase': {'base', 'unicode'},
    'complex': {'complex', 'array', 'iterable'},
    'byte_array': {'byte_array'},
    'enum': {'enum'},
    'fault': {'fault'},
    'schema_validation_error': {'fault'},
    'any_xml': {'xml'},
    'any': {'xml'},
    'any_html': {'html'},
    'any_dict': {'dict'},
    'xmlattribute': {'base', 'unicode', 'byte_array', 'enum'},
    'xmldata': {'base', 'unicode', 'byte_array', 'enum'},
}


def _style_part(test):
    """Drop conjuncts that do not talk about the body style (e.g. ``message
    is self.RESPONSE``: the response direction is the one analysed)."""
    if isinstance(test, ast.BoolOp) and isinstance(test.op, ast.And):
        keep = [v for v in test.values if 'body_style' in unparse(v) or
                'is_out_bare' in unparse(v)]
        if len(keep) == 1:
            return keep[0]
        if keep:
            return ast.BoolOp(op=ast.And(), values=keep)
    return test


def style_partition(prog, test):
    """{style: bool|None} truth of a body-style test for each constant."""
    test = _style_part(test)
    out = {}
    for st in c18.STYLES:
        env = c18.Env(prog, st, 1, True, False, wrapped=None)
        try:
            out[st] = bool(c18.ev(env, test))
        except c18.Unknown:
            out[st] = None
    return out


def find_style_branch(prog, f):
    """The if statement in f that separates WRAPPED from the other styles."""
    best = None
    for n in walk_no_defs(f.node):
        if not isinstance(n, ast.If):
            continue
        t = unparse(n.test)
        if 'body_style' not in t and 'is_out_bare' not in t:
            continue
        part = style_partition(prog, n.test)
        if None in part.values():
            continue
        w = part['BODY_STYLE_WRAPPED']
        others = {part[s] for s in c18.STYLES if s != 'BODY_STYLE_WRAPPED'}
        if others == {not w}:
            best = (n, w, part)
            break
        if best is None:
            best = (n, w, part)
    return best


def uses_positional(block):
    """Does the block consume ctx.out_object positionally against a
    _type_info iteration?  -> (ok, problem)"""
    txt = ' '.join(unparse(s) for s in block)
    loops = [n for s in block for n in ast.walk(s)
             if isinstance(n, (ast.For, ast.While))]
    sources = []
    for s in block:
        for n in ast.walk(s):
            if isinstance(n, ast.For):
                sources.append(unparse(n.iter))
            if isinstance(n, ast.Assign) and isinstance(n.value, ast.Call) \
                    and call_name(n.value) == 'iter':
                sources.append(unparse(n.value))
    bad = [x for x in sources if any(k in x for k in ('sorted(', 'set(',
                                                      'reversed('))]
    if bad:
        return False, 'the out message members are enumerated through %s' % \
            bad[0]
    typeinfo = any('_type_info' in x or 'type_info' in x for x in sources)
    indexed = 'ctx.out_object[i]' in txt or 'iter(ctx.out_object)' in txt or \
        'zip(' in txt and 'ctx.out_object' in txt
    if typeinfo and indexed:
        return True, None
    if 'ctx.out_object' not in txt:
        return False, 'the branch never reads ctx.out_object'
    return False, 'ctx.out_object is not consumed member by member against ' \
        'the out message type info'


def unwraps(block):
    for s in block:
        for n in ast.walk(s):
            if isinstance(n, ast.Assign):
                v = unparse(n.value)
                t0 = n.targets[0]
                if v == 'ctx.out_object[0]':
                    return True, None
                if v == 'ctx.out_object' and isinstance(t0, ast.Tuple) and \
                        len(t0.elts) == 1:
                    return True, None
                if v == 'ctx.out_object' and not isinstance(t0, ast.Tuple):
                    return False, 'the one-element list built by ' \
                        'process_request is passed on as the value itself ' \
                        '(%s)' % unparse(n)
                if v == 'next(iter(ctx.out_object))':
                    return True, None
    return False, 'the branch never unwraps ctx.out_object'


def _with_ctx_helpers(prog, c, block):
    """The block plus the bodies of the private methods it hands ctx to
    (self._helper(ctx, ...), resolved through the class hierarchy): a shared
    tail moved into a helper still reads ctx.out_object."""
    out = list(block)
    for s in block:
        for call in ast.walk(s):
            if not (isinstance(call, ast.Call) and isinstance(
                    call.func, ast.Attribute) and isinstance(
                    call.func.value, ast.Name) and call.func.value.id ==
                    'self' and call.func.attr.startswith('_') and any(
                        unparse(a) == 'ctx' for a in call.args)):
                continue
            for k in prog.mro(c):
                m = getattr(k, 'methods', {}).get(call.func.attr)
                if m is not None:
                    out.extend(m.node.body)
                    break
    return out


def check_plumbing(prog, res, rule, c, fname='serialize'):
    f = c.methods.get(fname)
    if f is None:
        return 0
    if not any(isinstance(x, ast.Attribute) and x.attr == 'out_object'
               for x in walk_no_defs(f.node)):
        return 0
    br = find_style_branch(prog, f)
    where = f.where
    if br is None:
        res.ob(rule, where, '%s.%s: no dispatch on the body style' % (
            c.name, fname), 'VIOLATED')
        res.finding(rule, '%s.%s|no-style-dispatch' % (c.name, fname), where,
                    '%s.%s reads ctx.out_object without distinguishing the '
                    'wrapped style from the non-wrapped ones: for out_bare/'
                    'bare methods the single wrapped result is indexed '
                    'against the fields of the return type' % (c.name, fname))
        return 1
    node, w, part = br
    wrapped_block = _with_ctx_helpers(prog, c, node.body if w
                                      else node.orelse)
    other_block = _with_ctx_helpers(prog, c, node.orelse if w else node.body)
    where = '%s:%d' % (f.module.relpath, node.lineno)
    others = sorted(s[11:] for s in c18.STYLES if part[s] != w)
    ok, why = uses_positional(wrapped_block)
    res.ob(rule, where, '%s.%s: WRAPPED branch consumes the results '
           'positionally in _type_info order' % (c.name, fname),
           'ok' if ok else 'VIOLATED')
    if not ok:
        res.finding(rule, '%s.%s|wrapped|%s' % (c.name, fname, why[:40]),
                    where, 'wrapped style: ' + why)
    ok, why = unwraps(other_block)
    res.ob(rule, where, '%s.%s: %s branch unwraps the single result' % (
        c.name, fname, '/'.join(others)), 'ok' if ok else 'VIOLATED')
    if not ok:
        res.finding(rule, '%s.%s|non-wrapped|%s' % (c.name, fname,
                                                    why[:40]), where,
                    'non-wrapped styles (%s): %s' % (', '.join(others), why))
    if set(others) != {'BARE', 'OUT_BARE', 'EMPTY', 'EMPTY_OUT_BARE'}:
        res.ob(rule, where, '%s.%s: styles on the non-wrapped side: %s' % (
            c.name, fname, others), 'VIOLATED')
        res.finding(rule, '%s.%s|partition|%s' % (c.name, fname, others),
                    where, 'the body-style test %s sends %s to the '
                    'non-wrapped branch; process_request wraps the result '
                    'for every style but WRAPPED' % (unparse(node.test)[:60],
                                                     others))
    return 1


def rule_r1(prog, res):
    res.rule('R1', 'results are plumbed per body style: positional for '
             'WRAPPED, unwrapped otherwise')
    n = 0
    for cfq in XML_FAMILY:
        n += check_plumbing(prog, res, 'R1', prog.cls(cfq))
    res.floor('R1', 'XML-family serialize implementations', n, 2)
    # the producer: process_request wraps for every non-wrapped style
    pf, wif = c18.wrap_condition(prog)
    part = style_partition(prog, ast.BoolOp(op=ast.Or(), values=[
        v for v in (wif.test.values if isinstance(wif.test, ast.BoolOp)
                    else [wif.test]) if 'body_style' in unparse(v)]))
    ok = part.get('BODY_STYLE_WRAPPED') is False and all(
        part[s] for s in c18.STYLES if s != 'BODY_STYLE_WRAPPED')
    res.ob('R1', '%s:%d' % (pf.module.relpath, wif.lineno),
           'process_request wraps the result for %s' % sorted(
               s[11:] for s in c18.STYLES if part.get(s)),
           'ok' if ok else 'VIOLATED')
    if not ok:
        res.finding('R1', 'Application.process_request|wrap-partition',
                    '%s:%d' % (pf.module.relpath, wif.lineno),
                    'process_request no longer wraps the result of exactly '
                    'the non-wrapped body styles: %s' % part)
    # Soap12 inherits Soap11.serialize
    s12 = prog.cls('spyne.protocol.soap.soap12:Soap12', required=False)
    if s12 is not None:
        ok = 'serialize' not in s12.methods
        res.ob('R1', s12.where, 'Soap12 inherits serialize from Soap11',
               'ok' if ok else 'unclassified')
        if not ok:
            check_plumbing(prog, res, 'R1', s12)


def rule_r2(prog, res, tier):
    res.rule('R2', 'coverage table of every dispatch on body_style '
             '(evidence only)')
    n = 0
    for f in prog.all_functions():
        rel = f.module.relpath
        if not (rel in ('spyne/application.py', 'spyne/server/null.py') or
                rel.startswith('spyne/protocol/')):
            continue
        for node in walk_no_defs(f.node):
            if isinstance(node, ast.If) and 'body_style' in unparse(
                    node.test):
                part = style_partition(prog, node.test)
                n += 1
                res.ob('R2', '%s:%d' % (rel, node.lineno), '%s: %s -> %s' % (
                    f.qualname, unparse(node.test)[:50], {
                        k[11:]: v for k, v in part.items()}), 'recorded',
                    nontrivial=False)
    res.count('style_dispatch_sites', n)


def rule_r3(prog, res):
    res.rule('R3', 'writer and reader handler tables of the XML protocol '
             'agree per model class')
    x = prog.cls('spyne.protocol.xml:XmlDocument')
    tabs = tables_of(prog, x)
    w = tabs.get('serialization_handlers')
    r = tabs.get('deserialization_handlers')
    if not w or not r:
        raise AnalysisError('XmlDocument handler tables', 'not found')
    n = 0
    models = []
    for mn, m in sorted(prog.modules.items()):
        if not mn.startswith('spyne.model'):
            continue
        for c in m.classes.values():
            if c.outer_cls is None and c.outer_func is None and \
                    prog.is_subclass(c, 'ModelBase') and \
                    not c.name.startswith('_'):
                models.append(c)
    for mc in models:
        we = cdict_lookup(prog, w, mc)
        re_ = cdict_lookup(prog, r, mc)
        if we is None or re_ is None:
            continue
        wn = we.target.name if isinstance(we.target, FuncInfo) else None
        rn = re_.target.name if isinstance(re_.target, FuncInfo) else None
        if wn is None or rn is None:
            continue
        n += 1
        ws = wn.replace('_to_parent', '')
        rs = rn.replace('_from_element', '')
        ok = rs in WRITER_READER_FAMILY.get(ws, {ws})
        inst = '%s: written by %s (as %s), read by %s (as %s)' % (
            mc.name, wn, we.key, rn, re_.key)
        res.ob('R3', '%s:%d' % (re_.owner.module.relpath, re_.node.lineno),
               inst, 'ok' if ok else 'VIOLATED')
        if not ok:
            res.finding('R3', 'XmlDocument|%s|%s|%s' % (mc.name, wn, rn),
                        '%s:%d' % (re_.owner.module.relpath, re_.node.lineno),
                        '%s values are written by %s but read by %s, which '
                        'belong to different codec families' % (mc.name, wn,
                                                                rn))
    res.floor('R3', 'model classes with writer and reader', n, 30)
    # binary handlers pass the protocol's binary encoding on both sides
    for nm in ('byte_array_to_parent', 'byte_array_from_element'):
        f = x.methods.get(nm)
        ok = f is not None and 'self.binary_encoding' in unparse(f.node)
        res.ob('R3', f.where if f else x.where, '%s passes '
               'self.binary_encoding' % nm, 'ok' if ok else 'VIOLATED')
        if not ok:
            res.finding('R3', 'XmlDocument.%s|binary-encoding' % nm,
                        f.where if f else x.where, '%s does not pass the '
                        'protocol\'s binary encoding: writer and reader would '
                        'use different encodings' % nm)


# ------------------------------------------------------------------- R8
def _attach_kind(call):
    """'Header' / 'Body' when the call attaches that child to the envelope
    (ctx.out_document)."""
    nm = call_name(call)
    if nm == 'SubElement' and len(call.args) >= 2 and \
            unparse(call.args[0]).endswith('out_document'):
        t = unparse(call.args[1])
        for k in ('Header', 'Body'):
            if k in t:
                return k
    if nm in ('append', 'extend') and isinstance(call.func, ast.Attribute) \
            and unparse(call.func.value).endswith('out_document') and \
            call.args:
        t = unparse(call.args[0]).lower()
        for k in ('Header', 'Body'):
            if k.lower() in t:
                return k
    return None


def rule_r8(prog, res):
    res.rule('R8', 'the SOAP envelope receives Header before Body on every '
             'path of serialize')
    n = 0
    for cfq in ('spyne.protocol.soap.soap11:Soap11',
                'spyne.protocol.soap.soap12:Soap12'):
        c = prog.cls(cfq, required=False)
        f = c.methods.get('serialize') if c is not None else None
        if f is None:
            continue

        def classify(call):
            k = _attach_kind(call)
            return ((k,), False) if k else ((), False)
        seqs = SeqFlow(classify, loop_unroll=1).run(f.node)
        paths = seqs.get(RETURN, set())
        kinds = {e for q in paths for e in q}
        n += len(kinds)
        bad = sorted(q for q in paths if 'Header' in q and 'Body' in q and
                     q.index('Body') < q.index('Header'))
        res.ob('R8', f.where, '%s: attach orders seen on returning paths: %s'
               % (f.qualname, sorted({' > '.join(q) or '(none)'
                                      for q in paths})),
               'VIOLATED' if bad else 'ok', nontrivial=True)
        if bad:
            res.finding('R8', '%s|body-before-header' % f.qualname, f.where,
                        '%s attaches soap Body to the envelope before soap '
                        'Header: the envelope children come out as (Body, '
                        'Header), which the SOAP 1.1 schema and strict '
                        'clients reject' % f.qualname)
        miss = [q for q in paths if 'Body' not in q]
        if miss:
            res.finding('R8', '%s|body-not-attached' % f.qualname, f.where,
                        'a returning path of %s never attaches the Body '
                        'element to the envelope' % f.qualname)
    res.floor('R8', 'envelope attach kinds (Header, Body)', n, 2)


# ------------------------------------------------------------------- R9
XML_VALUE_NAMES = {'inst', 'subvalue', 'value', 'v', 'val', 'subinst',
                   'sub_value', 'string', 'retval'}


def rule_r9(prog, res):
    res.rule('R9', 'XML writers decide presence with "is None", never by '
             'truthiness')
    funcs = []
    for cfq in ('spyne.protocol.xml:XmlDocument',
                'spyne.protocol.soap.soap11:Soap11',
                'spyne.protocol.cloth.to_parent:ToParentMixin'):
        c = prog.cls(cfq, required=False)
        if c is None:
            continue
        for nm, f in sorted(c.methods.items()):
            if nm.endswith('_to_parent') or nm in (
                    'to_parent', 'gen_members_parent', 'serialize',
                    '_get_members_etree', '_gen_members_parent'):
                funcs.append(f)
    n = guardspec.presence_rule(
        res, 'R9', funcs, XML_VALUE_NAMES,
        'a falsy but present value ("" 0 False [] Decimal(0)) is written as '
        'absent, so the response differs from the returned object')
    res.count('xml_writer_functions', len(funcs))
    res.floor('R9', 'identity tests on values in XML writers', n, 4)


def rule_r10(prog, res):
    from . import c17
    res.share('R10', 'the XML parser honours the document\'s own encoding '
              'declaration: parser options are the constructor arguments '
              '(C17-R5)', 'C17', c17.rule_option_binding, prog, Result)


# ------------------------------------------------------------------ R11
def rule_r11(prog, res):
    res.rule('R11', 'every declared SOAP header is looked up by its qualified '
             'name, whatever the number of header blocks sent')
    n = 0
    for cfq in ('spyne.protocol.soap.soap11:Soap11',):
        f = prog.cls(cfq).methods.get('deserialize')
        if f is None:
            raise AnalysisError('Soap11.deserialize', 'not found')
        for c in calls_in(f.node):
            if call_name(c) == 'get' and isinstance(
                    c.func, ast.Attribute) and 'in_header_dict' in unparse(
                    c.func.value):
                n += 1
                guardspec.check(
                    res, 'R11', f, c, 'the by-name lookup of a declared '
                    'header',
                    allowed=[('message in (self.REQUEST, self.RESPONSE)',
                              True),
                             ("ctx.in_body_doc.tag == '{%s}Fault' % "
                              "self.ns_soap_env", False),
                             ('header_class is None', False),
                             ('ctx.in_header_doc is None', False),
                             ('i < len(header_class)', True)],
                    key='Soap11.deserialize|header-lookup')
    res.floor('R11', 'header lookups in Soap11.deserialize', n, 1)


def rule_shared(prog, res, tier):
    res.rule('R4', 'the user function runs exactly once (C14-R2)')
    res.rule('R5', 'wire order is declaration order, parents first (C16-R1, '
             'C06-R3)')
    from ..report import Result
    for mod, fn, rid in ((c14, c14.rule_r2, 'R4'), (c16, c16.rule_r1, 'R5'),
                         (c06, c06.rule_r3, 'R5')):
        tmp = Result(mod.ID)
        tmp.run_rule(fn, prog, tmp)
        for (r, w, i, v, nt) in tmp.obligations:
            res.ob(rid, w, i, v, nt)
        for f in tmp.findings:
            res.finding(rid, f.key, f.where, f.message)
        res.errors.extend(tmp.errors)


def rule_shared2(prog, res):
    res.share('R6', 'primitive text codecs keep fractions, signs and '
              'lexical spaces (C08-R3/R4/R5)', 'C08', c08.rule_r3, prog,
              Result)
    res.share('R6', 'primitive text codecs keep fractions, signs and '
              'lexical spaces (C08-R3/R4/R5)', 'C08', c08.rule_r4, prog,
              Result)
    res.share('R6', 'primitive text codecs keep fractions, signs and '
              'lexical spaces (C08-R3/R4/R5)', 'C08', c08.rule_r5, prog,
              Result)
    res.share('R6', 'primitive text codecs keep fractions, signs and '
              'lexical spaces (C08-R3/R4/R5)', 'C08', c08.rule_r9, prog,
              Result)
    res.share('R6', 'primitive text codecs keep fractions, signs and '
              'lexical spaces (C08-R3/R4/R5)', 'C08', c08.rule_r8, prog,
              Result)
    res.share('R6', 'primitive text codecs keep fractions, signs and '
              'lexical spaces (C08-R3/R4/R5)', 'C08', c08.rule_r11, prog,
              Result)
    res.share('R6', 'primitive text codecs keep fractions, signs and '
              'lexical spaces (C08-R3/R4/R5)', 'C08', c08.rule_r13, prog,
              Result)
    res.share('R6', 'primitive text codecs keep fractions, signs and '
              'lexical spaces (C08-R3/R4/R5)', 'C08', c08.rule_r14, prog,
              Result)
    res.share('R7', 'field evolution invalidates the flattened type info '
              'that reader and writer share (C15-R2)', 'C15', c15.rule_r2,
              prog, Result)


# ------------------------------------------------------------------ R12
def rule_r12(prog, res):
    res.rule('R12', 'the client binds arguments by position and by name '
             'only: whether a value is sent never depends on its truthiness')
    c = prog.cls('spyne.client._base:RemoteProcedureBase')
    f = c.methods.get('get_out_object')
    if f is None:
        raise AnalysisError('RemoteProcedureBase.get_out_object', 'not found')

    def is_value(e, names):
        if isinstance(e, ast.Name):
            return e.id in names
        if isinstance(e, ast.Subscript) and isinstance(e.value, ast.Name):
            return e.value.id in ('args', 'kwargs')
        if isinstance(e, ast.Call) and isinstance(e.func, ast.Attribute) and \
                isinstance(e.func.value, ast.Name) and \
                e.func.value.id == 'kwargs' and e.func.attr in ('get', 'pop'):
            return True
        return False
    names = set()
    for _ in range(3):
        for a in walk_no_defs(f.node):
            if isinstance(a, ast.Assign) and len(a.targets) == 1 and \
                    isinstance(a.targets[0], ast.Name) and any(
                        is_value(e, names) for e in ast.walk(a.value)):
                names.add(a.targets[0].id)
    sets = [c_ for c_ in calls_in(f.node) if call_name(c_) == 'setattr' and
            len(c_.args) == 3]
    res.floor('R12', 'request member stores', len(sets), 1)
    bad = []
    for c_ in sets:
        for e in ast.walk(c_.args[2]):
            if isinstance(e, ast.BoolOp) and any(is_value(v, names)
                                                 for v in e.values):
                bad.append((c_, unparse(e)))
    for node in walk_no_defs(f.node):
        if isinstance(node, (ast.If, ast.IfExp, ast.While)):
            todo = [node.test]
            while todo:
                e = todo.pop()
                if isinstance(e, ast.BoolOp):
                    todo.extend(e.values)
                elif isinstance(e, ast.UnaryOp) and isinstance(e.op, ast.Not):
                    todo.append(e.operand)
                elif is_value(e, names):
                    bad.append((node, unparse(e)))
        if isinstance(node, ast.Assign) and isinstance(node.value, ast.BoolOp) \
                and any(is_value(v, names) for v in node.value.values):
            bad.append((node, unparse(node.value)))
    res.ob('R12', f.where, 'get_out_object: %d member stores, %d truthiness '
           'tests of argument values' % (len(sets), len(bad)),
           'VIOLATED' if bad else 'ok')
    for node, txt in bad[:2]:
        res.finding('R12', 'RemoteProcedureBase.get_out_object|truthiness',
                    '%s:%d' % (f.module.relpath, node.lineno),
                    'the client decides what to send by the truthiness of an '
                    'argument (%s): 0, False, "" and empty lists passed by '
                    'keyword are replaced by the positional value or None, '
                    'so the function is invoked with a value the caller did '
                    'not send' % txt)


def rule_r13(prog, res):
    from . import c16
    from ..report import Result
    res.share('R13', 'an unprefixed xsi:type value resolves through the '
              'default namespace (prefix None), and the polymorphic switch '
              'compares with the original class (C16-R10, C16-R14)', 'C16',
              c16.rule_r10, prog, Result)
    res.share('R13', 'an unprefixed xsi:type value resolves through the '
              'default namespace (prefix None), and the polymorphic switch '
              'compares with the original class (C16-R10, C16-R14)', 'C16',
              c16.rule_r14, prog, Result)


# ------------------------------------------------------------------ R14
def rule_r14(prog, res):
    res.rule('R14', 'element text is text: nothing assigns bytes '
             '(to_bytes) to .text / .tail; the root element of an '
             'XmlDocument message is named after the message')
    n = 0
    for rel in ('spyne/model/complex.py', 'spyne/protocol/xml.py'):
        mod = next(m for m in prog.modules.values() if m.relpath == rel)
        for f in mod.functions.values():
            for a in walk_no_defs(f.node):
                if isinstance(a, ast.Assign) and any(
                        isinstance(t, ast.Attribute) and t.attr in (
                            'text', 'tail') for t in a.targets):
                    n += 1
                    bad = [c for c in ast.walk(a.value) if isinstance(
                        c, ast.Call) and call_name(c) in ('to_bytes',
                                                          'encode')]
                    where = '%s:%d' % (rel, a.lineno)
                    res.ob('R14', where, '%s: %s' % (f.qualname,
                                                     unparse(a)[:60]),
                           'VIOLATED' if bad else 'ok')
                    if bad:
                        res.finding('R14', '%s|bytes-as-text' % f.qualname,
                                    where, '%s sets element text from %s: '
                                    'lxml refuses non-ASCII bytes, so a '
                                    'value with non-ASCII characters cannot '
                                    'be serialized (ValueError, a 500 with an '
                                    'empty Envelope)' % (
                                        f.qualname, unparse(bad[0])[:40]))
    res.floor('R14', 'stores of element text', n, 4)
    x = prog.cls('spyne.protocol.xml:XmlDocument')
    f = x.methods.get('serialize')
    k = 0
    for c in calls_in(f.node):
        nm = call_name(c)
        if nm not in ('to_parent', 'incgen'):
            continue
        if any('out_error' in unparse(a) for a in c.args):
            continue
        k += 1
        need = 6 if nm == 'to_parent' else 5
        named = len(c.args) >= need or any(kw.arg == 'name'
                                           for kw in c.keywords)
        src = ''
        if named:
            a = c.args[need - 1] if len(c.args) >= need else [
                kw.value for kw in c.keywords if kw.arg == 'name'][0]
            src = unparse(a)
            if isinstance(a, ast.Name):
                src = ' '.join(unparse(b.value) for b in walk_no_defs(f.node)
                               if isinstance(b, ast.Assign) and any(
                                   isinstance(t, ast.Name) and t.id == a.id
                                   for t in b.targets))
        ok = named and ('get_element_name' in src or 'sub_name' in src)
        where = '%s:%d' % (f.module.relpath, c.lineno)
        res.ob('R14', where, 'XmlDocument.serialize: %s(%s)' % (
            nm, 'name=' + src[:40] if named else 'no name'),
            'ok' if ok else 'VIOLATED')
        if not ok:
            res.finding('R14', 'XmlDocument.serialize|root-name|%s' % nm,
                        where, 'the message is written without its element '
                        'name: a bare primitive result is named <retval> '
                        'where the schema declares <methodResponse>, and '
                        'with polymorphic=True a bare message is named after '
                        'the runtime subclass')
    res.floor('R14', 'message writes in XmlDocument.serialize', k, 2)


def rule_r15(prog, res):
    res.rule('R15', 'what Soap12 inherits from Soap11 names envelope elements '
             'through self.ns_soap_env, never through a version constant')
    s11 = prog.cls('spyne.protocol.soap.soap11:Soap11')
    s12 = prog.cls('spyne.protocol.soap.soap12:Soap12')
    n = k = 0
    for nm, f in s11.methods.items():
        if f.cls is not s11 or nm in s12.methods and \
                s12.methods[nm].cls is s12:
            continue            # overridden by Soap12: not shared code
        n += 1
        for x in walk_no_defs(f.node):
            t = None
            if isinstance(x, ast.Attribute) and ('SOAP11_ENV' in x.attr or
                                                 'SOAP12_ENV' in x.attr):
                t = unparse(x)
            elif isinstance(x, ast.Name) and ('SOAP11_ENV' in x.id or
                                              'SOAP12_ENV' in x.id):
                t = x.id
            if t is None:
                continue
            k += 1
            where = '%s:%d' % (f.module.relpath, x.lineno)
            res.ob('R15', where, '%s refers to %s' % (f.qualname, t),
                   'VIOLATED')
            res.finding('R15', '%s|version-constant|%s' % (f.qualname, t),
                        where, '%s, which Soap12 inherits, builds a name from '
                        '%s: a SOAP 1.2 envelope gets an element of the SOAP '
                        '1.1 namespace (e.g. the Header next to a 1.2 Body), '
                        'which no SOAP 1.2 reader finds' % (f.qualname, t))
    uses = sum(1 for f in s11.methods.values() if f.cls is s11
               for x in walk_no_defs(f.node)
               if isinstance(x, ast.Attribute) and x.attr == 'ns_soap_env')
    res.ob('R15', s11.where, 'Soap11 methods shared with Soap12: %d, '
           'self.ns_soap_env uses: %d, version constants: %d' % (n, uses, k),
           'ok')
    res.floor('R15', 'self.ns_soap_env uses in Soap11', uses, 5)


def rule_r16(prog, res):
    from . import c07
    from ..report import Result
    res.share('R16', 'arrays published under one type name have one item '
              'name: what is written is what the schema says (C07-R18)',
              'C07', c07.rule_r18, prog, Result)


def rule_r17(prog, res):
    from . import c08
    from ..report import Result
    res.share('R17', 'binary text carried by an XmlData member or an '
              'attribute is read with the protocol\'s binary encoding '
              '(C08-R16)', 'C08', c08.rule_r16, prog, Result)


def rule_r18(prog, res):
    from . import c17
    res.share('R18', 'with the default configuration the parser drops '
              'comments and processing instructions before the readers see '
              'the tree (C17-R6)', 'C17', c17.rule_clean_tree, prog, Result)


def rule_r19(prog, res):
    res.rule('R19', 'the root element XmlDocument writes lives in the target '
             'namespace of the interface, where the schema declares the '
             'message elements')
    from .c07 import _local_values
    x = prog.cls('spyne.protocol.xml:XmlDocument')
    f = x.methods.get('serialize')
    if f is None:
        raise AnalysisError('XmlDocument.serialize', 'not found')
    TNS = ('self.app.interface.get_tns()', 'self.app.interface.tns',
           'self.app.tns')
    n = 0
    for c in calls_in(f.node):
        if call_name(c) not in ('to_parent', 'incgen') or not (
                isinstance(c.func, ast.Attribute) and
                isinstance(c.func.value, ast.Name) and
                c.func.value.id == 'self'):
            continue
        pos = 4 if call_name(c) == 'to_parent' else 3
        ns = c.args[pos] if len(c.args) > pos else None
        for k in c.keywords:
            if k.arg == 'ns':
                ns = k.value
        if ns is None:
            continue
        n += 1
        vals = [ns]
        if isinstance(ns, ast.Name):
            vals = _local_values(f.node, ns.id) or [ns]
        texts = sorted({unparse(v).replace(' ', '') for v in vals})
        ok = all(t in TNS for t in texts)
        where = '%s:%d' % (f.module.relpath, c.lineno)
        res.ob('R19', where, 'XmlDocument.serialize: %s(...) puts the root '
               'element in %s' % (call_name(c), texts),
               'ok' if ok else 'VIOLATED')
        if not ok:
            res.finding('R19', 'XmlDocument.serialize|root-namespace|%s' %
                        call_name(c), where, 'the root element of the '
                        'document is written in %s, not in the interface\'s '
                        'target namespace: the schema declares every message '
                        'element there, so a message whose class lives in '
                        'another namespace is not an instance of the '
                        'published schema (and not what the SOAP writers '
                        'send)' % texts)
    res.floor('R19', 'root writes in XmlDocument.serialize', n, 3)


def rule_r20(prog, res):
    res.share('R20', 'a nil message is expanded into missing members only '
              'for the body styles that have members (C18-R7)', 'C18',
              c18.rule_r7, prog, Result)


# ------------------------------------------------------------------ R21
def _definitely_assigns(stmts, name):
    for st in stmts:
        if isinstance(st, ast.Assign) and any(
                isinstance(t, ast.Name) and t.id == name or isinstance(
                    t, ast.Tuple) and any(isinstance(e, ast.Name) and
                                          e.id == name for e in t.elts)
                for t in st.targets):
            return True
        if isinstance(st, ast.If) and st.orelse and _definitely_assigns(
                st.body, name) and _definitely_assigns(st.orelse, name):
            return True
        if isinstance(st, ast.Try) and _definitely_assigns(st.body, name) \
                and all(_definitely_assigns(hd.body, name) or always_exits(
                    hd.body) for hd in st.handlers):
            return True
    return False


def rule_r21(prog, res):
    res.rule('R21', 'per-member values of the XML member loops are computed '
             'afresh for every member: a local that a loop over _type_info '
             'sets from the member only under a condition is also set on the '
             'other branch in the same iteration (no namespace, name or '
             'attribute of one member is carried over to the members after '
             'it)')
    m = prog.module('spyne.protocol.xml')
    n = 0
    for f in [x for x in ast.walk(m.tree) if isinstance(x, ast.FunctionDef)]:
        for lp in [x for x in walk_no_defs(f) if isinstance(x, ast.For)]:
            if '_type_info' not in unparse(lp.iter):
                continue
            tv = {x.id for x in ast.walk(lp.target)
                  if isinstance(x, ast.Name)}
            cond = {}
            for st in lp.body:
                for a in ast.walk(st):
                    if isinstance(a, ast.Assign) and a not in lp.body:
                        for t in a.targets:
                            if isinstance(t, ast.Name) and any(
                                    isinstance(y, ast.Name) and y.id in tv
                                    for y in ast.walk(a.value)):
                                cond.setdefault(t.id, a)
            for name, a in sorted(cond.items()):
                if name in tv:
                    continue
                n += 1
                ok = _definitely_assigns(lp.body, name)
                if not ok:
                    # a value only ever bound inside the loop and never read
                    # before its own binding in the iteration is local to the
                    # branch: accept when every read is inside the same
                    # conditional statement as a binding
                    top = [st for st in lp.body if any(
                        isinstance(y, ast.Name) and y.id == name
                        for y in ast.walk(st))]
                    ok = len(top) == 1
                where = '%s:%d' % (m.relpath, a.lineno)
                res.ob('R21', where, '%s: %s is bound on every path of one '
                       'iteration over %s' % (f.name, name,
                                              unparse(lp.iter)[:40]),
                       'ok' if ok else 'VIOLATED')
                if not ok:
                    res.finding('R21', '%s|carried-over|%s' % (f.name, name),
                                where, '%s is set from the member only under '
                                'a condition and otherwise keeps the value '
                                'of an earlier member: the element after a '
                                'member with its own %s is written with that '
                                'member\'s value' % (name, name))
    res.floor('R21', 'conditionally bound per-member locals', n, 1)


def run(prog, res, tier):
    res.run_rule(rule_shared2, prog, res)
    res.run_rule(rule_r1, prog, res)
    res.run_rule(rule_r2, prog, res, tier)
    res.run_rule(rule_r3, prog, res)
    res.run_rule(rule_shared, prog, res, tier)
    res.run_rule(rule_r8, prog, res)
    res.run_rule(rule_r9, prog, res)
    res.run_rule(rule_r10, prog, res)
    res.run_rule(rule_r11, prog, res)
    res.run_rule(rule_r12, prog, res)
    res.run_rule(rule_r13, prog, res)
    res.run_rule(rule_r14, prog, res)
    res.run_rule(rule_r15, prog, res)
    res.run_rule(rule_r16, prog, res)
    res.run_rule(rule_r17, prog, res)
    res.run_rule(rule_r18, prog, res)
    res.run_rule(rule_r19, prog, res)
    res.run_rule(rule_r20, prog, res)
    res.run_rule(rule_r21, prog, res)


_X = 'spyne/protocol/xml.py'
_S = 'spyne/protocol/soap/soap11.py'
_A = 'spyne/application.py'

MUTANTS = [
    Mutant('member-namespace-hoisted', 'R21', 'fire', 'spyne/protocol/xml.py',
           in_func('XmlDocument._get_members_etree',
                   "                sub_ns = v.Attributes.sub_ns\n"
                   "                if sub_ns is None:\n"
                   "                    sub_ns = cls.get_namespace()\n",
                   "                if v.Attributes.sub_ns is not None:\n"
                   "                    sub_ns = v.Attributes.sub_ns\n"),
           'carried-over'),
    Mutant('xml-root-in-message-namespace', 'R19', 'fire',
           'spyne/protocol/xml.py',
           in_func('XmlDocument.serialize',
                   "result_inst, self.app.interface.get_tns(), name)\n"
                   "\n        if self.cleanup",
                   "result_inst, result_message_class.get_namespace(), name)"
                   "\n\n        if self.cleanup"), 'root-namespace'),
    Mutant('xml-root-tns-through-local', 'R19', 'twin',
           'spyne/protocol/xml.py',
           in_func('XmlDocument.serialize',
                   "            name = result_message_class.get_element_name()"
                   "\n",
                   "            name = result_message_class.get_element_name()"
                   "\n            tns_ = self.app.interface.get_tns()\n"),
           None),
    Mutant('soap-header-version-constant', 'R15', 'fire',
           'spyne/protocol/soap/soap11.py',
           in_func('Soap11.serialize',
                   "ctx.out_document, '{%s}Header' % self.ns_soap_env)",
                   "ctx.out_document, ns.SOAP11_ENV('Header'))"),
           'version-constant'),
    Mutant('xmldata-bytes-as-text', 'R14', 'fire', 'spyne/model/complex.py',
           in_func('XmlData.marshall',
                   "parent_elt.text = prot.to_unicode(cls.type, value)",
                   "parent_elt.text = prot.to_bytes(cls.type, value)"),
           'bytes-as-text'),
    Mutant('xml-root-without-message-name', 'R14', 'fire',
           'spyne/protocol/xml.py',
           in_func('XmlDocument.serialize',
                   "result_inst, tmp_elt, self.app.interface.get_tns(), name)",
                   "result_inst, tmp_elt, self.app.interface.get_tns())"),
           'root-name'),
    Mutant('client-keyword-falsy-dropped', 'R12', 'fire',
           'spyne/client/_base.py',
           in_func('RemoteProcedureBase.get_out_object',
                   "            if k in kwargs:\n"
                   "                setattr(request_raw, k, kwargs[k])\n",
                   "            if kwargs.get(k):\n"
                   "                setattr(request_raw, k, kwargs[k])\n"),
           'truthiness'),
    Mutant('client-single-pass-binding', 'R12', 'silent',
           'spyne/client/_base.py',
           in_func('RemoteProcedureBase.get_out_object',
                   "        for k in request_type_info:\n"
                   "            if k in kwargs:\n"
                   "                setattr(request_raw, k, kwargs[k])\n",
                   "        for k, v in kwargs.items():\n"
                   "            if k in request_type_info:\n"
                   "                setattr(request_raw, k, v)\n"), None),
    Mutant('header-lookup-by-count', 'R11', 'fire', _S,
           in_func('Soap11.deserialize', "if i < len(header_class):",
                   "if i < len(in_header_dict):"), 'extra-guard'),
    Mutant('header-lookup-unconditional', 'R11', 'benign', _S,
           in_func('Soap11.deserialize', "if i < len(header_class):",
                   "if True:"), None),
    Mutant('soap-body-attached-first', 'R8', 'fire', _S,
           in_func('Soap11.serialize', "            # header\n",
                   "            ctx.out_document.append(ctx.out_body_doc)\n"
                   "            # header\n"), 'body-before-header'),
    Mutant('soap-body-attached-by-extend', 'R8', 'benign', _S,
           in_func('Soap11.serialize',
                   "ctx.out_document.append(ctx.out_body_doc)",
                   "ctx.out_document.extend([ctx.out_body_doc])"), None),
    Mutant('xmlattr-truthiness', 'R9', 'fire', _X,
           in_func('XmlDocument.xmlattribute_to_parent',
                   "if inst is not None:", "if inst:"), 'truthiness'),
    Mutant('xmlattr-identity-rewritten', 'R9', 'benign', _X,
           in_func('XmlDocument.xmlattribute_to_parent',
                   "if inst is not None:", "if not (inst is None):"), None),
    Mutant('xml-bare-not-unwrapped', 'R1', 'fire', _X,
           in_func('XmlDocument.serialize',
                   "                result_inst, = ctx.out_object",
                   "                result_inst = ctx.out_object"),
           'non-wrapped'),
    Mutant('soap-bare-not-unwrapped', 'R1', 'fire', _S,
           in_func('Soap11.serialize',
                   "                out_object = ctx.out_object[0]",
                   "                out_object = ctx.out_object"),
           'non-wrapped'),
    Mutant('xml-wrapped-sorted-members', 'R1', 'fire', _X,
           in_func('XmlDocument.serialize',
                   r"for i, \(k, v\) in enumerate\(\s*result_message_class\."
                   r"_type_info\.items\(\)\):",
                   "for i, (k, v) in enumerate(sorted(result_message_class."
                   "_type_info.items())):", regex=True), 'wrapped'),
    Mutant('soap-style-test-narrowed', 'R1', 'fire', _S,
           in_func('Soap11.serialize',
                   "if ctx.descriptor.body_style is BODY_STYLE_WRAPPED:",
                   "if ctx.descriptor.body_style is not BODY_STYLE_BARE:"),
           ''),
    Mutant('twin-xml-index-unwrap', 'R1', 'benign', _X,
           in_func('XmlDocument.serialize',
                   "                result_inst, = ctx.out_object",
                   "                result_inst = ctx.out_object[0]"), ''),
    Mutant('enum-read-as-base', 'R3', 'fire', _X,
           in_func('XmlDocument.__init__',
                   "            EnumBase: self.enum_from_element,\n", ""),
           'EnumBase'),
    Mutant('bytearray-read-as-base', 'R3', 'fire', _X,
           in_func('XmlDocument.__init__',
                   "            ByteArray: self.byte_array_from_element,\n",
                   ""), 'ByteArray'),
    Mutant('user-function-twice', 'R4', 'fire', 'spyne/service.py',
           in_func('ServiceBaseBase.call_wrapper',
                   "            return ctx.function(*args)",
                   "            ctx.function(*args)\n"
                   "            return ctx.function(*args)"), 'twice'),
]
