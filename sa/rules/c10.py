"""C10 - hostile or malformed requests end in a client fault, never a crash.
The error discipline, not totality."""
import ast
import re

from ..core import (AnalysisError, dotted, unparse, calls_in, call_name,
                    walk_no_defs, parent, ancestors, ClassInfo, FuncInfo)
from ..flow import (guards_at, flatten_guards, enclosing_trys, handler_names)
from ..callgraph import CallGraph
from ..excflow import ExcFlow, LambdaFunc
from ..tables import tables_of
from ..mutate import Mutant, in_func
from .. import guardspec

ID = 'C10'
EXPLANATION = (
    'R1 who-may-call: the protocol phase methods (create_in_document, '
    'decompose_incoming_envelope, generate_method_contexts, deserialize) are '
    'called in server code only inside a try whose handler for Fault records '
    'in_error/out_error. R2: exception-escape analysis of every '
    'create_in_document implementation: parser primitives and decode()/next() '
    'on the raw input raise only into handlers that convert to a Client.* '
    'Fault (handlers do not cover code that runs inside sibling handlers). '
    'R3: exception-escape analysis over every entry of the '
    '_from_unicode/_from_bytes handler tables and the binary decoders, with a '
    'frozen table of raising primitives and regex-group knowledge: a '
    'lexically malformed literal may leave only as a Fault. R4: values that '
    'may be None (regex match results, _from_soap parts) are tested before '
    'use on the envelope path. R5: text parsers in the dict-document value '
    'reader are applied only to values whose kind was checked. R6: user code '
    'is not run for a request that already carries in_error. Not decided: '
    'termination/memory of third-party parsers, every value-kind confusion.')
ASSUMPTIONS = ['the RAISERS table lists what the primitives raise on '
               'malformed text (CPython/lxml/PyYAML/msgpack documentation)',
               'Fault subclasses are converted to client/server fault '
               'documents by the transports (C09)']
LEVEL_TEXT = (
    'Static exception-escape analysis (explicit raises + a frozen table of '
    'raising primitives, try/except scoping, call-graph fixpoint, regex group '
    'refinement) over the request parsing entry points and every leaf reader, '
    'plus who-may-call and None-discipline checks. Decides that malformed '
    'text cannot leave these functions as a non-Fault exception; does not '
    'decide totality over all byte strings.')
LEVEL_NOTE = ('Trusted: the RAISERS table; unresolved calls are assumed not '
              'to raise (recorded as unclassified), so the analysis '
              'under-approximates escapes through unknown callees.')
TECHNIQUE = ('interprocedural exception-escape analysis with try/except '
             'scoping + regex-group refinement (ast)')

PHASES = ('create_in_document', 'decompose_incoming_envelope',
          'generate_method_contexts', 'deserialize')

PARSING_PROTOCOLS = [
    'spyne.protocol.xml:XmlDocument',
    'spyne.protocol.soap.soap11:Soap11',
    'spyne.protocol.json:JsonDocument',
    'spyne.protocol.yaml:YamlDocument',
    'spyne.protocol.msgpack:MessagePackDocument',
    'spyne.protocol.msgpack:MessagePackRpc',
]

LEAF_PROTOCOLS = [
    'spyne.protocol._inbase:InProtocolBase',
    'spyne.protocol.xml:XmlDocument',
    'spyne.protocol.soap.soap11:Soap11',
    'spyne.protocol.json:JsonDocument',
    'spyne.protocol.yaml:YamlDocument',
    'spyne.protocol.msgpack:MessagePackDocument',
    'spyne.protocol.http:HttpRpc',
]

# NullServer is a direct-call transport: there is no byte request, and faults
# are raised to the direct caller on purpose (C18), so it is not in R1's scope
CORE_SERVER = ('spyne/server/_base.py', 'spyne/server/wsgi.py',
               'spyne/server/http.py', 'spyne/auxproc/_base.py')


# ------------------------------------------------------------------- R1
def rule_r1(prog, res, tier):
    res.rule('R1', 'protocol phase methods are called only inside a '
             'Fault-recording try')
    n = 0
    for f in prog.all_functions():
        rel = f.module.relpath
        if not (rel.startswith('spyne/server/') or
                rel.startswith('spyne/auxproc/')):
            continue
        core = rel in CORE_SERVER
        if rel == 'spyne/server/null.py':
            continue
        if not core and tier == 'quick':
            continue
        for call in calls_in(f.node):
            nm = call_name(call)
            if nm not in PHASES:
                continue
            recv = dotted(call.func.value) if isinstance(
                call.func, ast.Attribute) else ''
            if not recv or not ('protocol' in recv or recv in ('prot',)):
                continue
            n += 1
            where = '%s:%d' % (rel, call.lineno)
            guarded = None
            for t, region in enclosing_trys(call, stop=f.node):
                if region != 'body':
                    continue
                for h in t.handlers:
                    names = handler_names(h)
                    if not names or 'Fault' in names or 'Exception' in names:
                        guarded = h
                        break
                if guarded:
                    break
            inst = '%s calls %s.%s' % (f.qualname, recv, nm)
            if guarded is None:
                if core:
                    res.ob('R1', where, inst + ' outside try/except Fault',
                           'VIOLATED')
                    res.finding('R1', '%s|%s|unguarded' % (f.qualname, nm),
                                where, '%s is called outside a try that '
                                'catches Fault: a client fault raised by the '
                                'protocol escapes the transport as an '
                                'unhandled exception' % nm)
                else:
                    res.note('%s (%s) calls %s outside try/except Fault '
                             '(transport outside the property\'s quantifier)'
                             % (f.qualname, where, nm))
                continue
            # the handler records the fault
            recorded = any(
                isinstance(x, ast.Assign) and any(
                    isinstance(t, ast.Attribute) and t.attr in (
                        'in_error', 'out_error') for t in x.targets)
                for s in guarded.body for x in ast.walk(s)) or any(
                call_name(c).startswith('_set_in_error') or
                'error' in (call_name(c) or '')
                for s in guarded.body for c in calls_in(s)
                if call_name(c))
            if recorded and core:
                # nothing that can raise precedes the recording: eager
                # formatting of request data in the handler would replace
                # the client fault by an unhandled TypeError/ValueError
                first_rec = None
                for s_ in guarded.body:
                    if any(isinstance(x, ast.Assign) and any(
                            isinstance(t, ast.Attribute) and t.attr in (
                                'in_error', 'out_error') for t in x.targets)
                            for x in ast.walk(s_)):
                        first_rec = s_
                        break
                eager = []
                for s_ in guarded.body:
                    if s_ is first_rec:
                        break
                    for x in ast.walk(s_):
                        if isinstance(x, ast.BinOp) and isinstance(
                                x.op, ast.Mod) and isinstance(
                                x.left, ast.Constant) and isinstance(
                                x.left.value, str) and not isinstance(
                                x.right, (ast.Tuple, ast.Dict,
                                          ast.Constant)):
                            eager.append(x)
                        if isinstance(x, ast.JoinedStr):
                            eager.append(x)
                        if isinstance(x, ast.Call) and call_name(x) == \
                                'format' and isinstance(
                                x.func, ast.Attribute) and isinstance(
                                x.func.value, ast.Constant):
                            eager.append(x)
                for x in eager:
                    k_ = '%s|%s|eager-format|%s' % (f.qualname, nm,
                                                     unparse(x)[:40])
                    if k_ in getattr(res, '_c10_eager', set()):
                        continue
                    res._c10_eager = getattr(res, '_c10_eager', set()) | {k_}
                    res.ob('R1', '%s:%d' % (rel, x.lineno), inst +
                           ': handler formats %s before recording' %
                           unparse(x)[:50], 'VIOLATED')
                    res.finding('R1', k_, '%s:%d' % (rel, x.lineno),
                                'the Fault handler evaluates %s before it '
                                'records the fault: when the operand is a '
                                'tuple (a MessagePack envelope) or otherwise '
                                'unformattable the %% operator raises, the '
                                'client fault is lost and an unhandled '
                                'exception leaves the server' %
                                unparse(x)[:60])
            if recorded:
                res.ob('R1', where, inst + ' inside try/except %s recording '
                       'the fault' % ('/'.join(handler_names(guarded)) or
                                      'bare'), 'ok')
            elif core:
                res.ob('R1', where, inst + ' handler does not record',
                       'VIOLATED')
                res.finding('R1', '%s|%s|not-recorded' % (f.qualname, nm),
                            where, 'the Fault handler around %s does not '
                            'record in_error/out_error' % nm)
    res.floor('R1', 'phase call sites in server code', n, 4)
    # who else calls them under spyne/server: every transport goes through
    # the ServerBase wrappers
    for f in prog.all_functions():
        rel = f.module.relpath
        if not rel.startswith('spyne/server/'):
            continue
        for call in calls_in(f.node):
            nm = call_name(call)
            if nm in ('generate_contexts', 'get_in_object') and isinstance(
                    call.func, ast.Attribute):
                res.ob('R1', '%s:%d' % (rel, call.lineno), '%s reaches the '
                       'phases through %s' % (f.qualname, nm), 'ok',
                       nontrivial=False)


# ------------------------------------------------------------------- R2/R3
def report_escapes(res, rule, label, raises, known_site_only=False):
    n = 0
    for r in raises:
        if r.exc == 'Fault':
            continue
        if r.why == 're-raise':
            continue
        if r.why.startswith('raise '):
            # explicit raise of a non-Fault class: whether request data can
            # reach it is not decidable here
            res.unclass(rule, r.where, '%s: explicit %s in %s' % (
                label, r.why, r.func.qualname))
            continue
        n += 1
        key = '%s|%s|%s' % (r.func.qualname, r.why, r.exc)
        res.ob(rule, r.where, '%s: %s may raise %s uncaught%s' % (
            label, r.why, r.exc, (' via ' + ' > '.join(r.via)) if r.via
            else ''), 'VIOLATED')
        res.finding(rule, key, r.where, '%s in %s may raise %s on malformed '
                    'input and no enclosing handler converts it to a Fault '
                    '(reached from %s)' % (r.why, r.func.qualname, r.exc,
                                           label))
    return n


def rule_r2(prog, res, ef):
    res.rule('R2', 'syntax errors in create_in_document become Client '
             'faults')
    n = 0
    for cfq in PARSING_PROTOCOLS:
        c = prog.cls(cfq)
        f = c.methods.get('create_in_document')
        if f is None:
            f = prog.find_method(c, 'create_in_document')
        if f is None:
            raise AnalysisError(cfq + '.create_in_document', 'not found')
        n += 1
        raises = ef.escapes(f)
        bad = report_escapes(res, 'R2', c.name + '.create_in_document',
                             raises)
        if not bad:
            res.ob('R2', f.where, '%s.create_in_document: no non-Fault class '
                   'escapes (%d raise sites examined)' % (
                       c.name, len(raises)), 'ok')
        # the converting handlers raise a Client.* fault
        seen = set()
        todo = [f]
        while todo:
            g = todo.pop()
            if g in seen:
                continue
            seen.add(g)
            for call in calls_in(g.node):
                for t, s in ef.cg.resolve(g, call):
                    if s == 'strong' and t.module.relpath.startswith(
                            'spyne/protocol') and t.name.startswith('_'):
                        todo.append(t)
            for node in walk_no_defs(g.node):
                if not isinstance(node, ast.ExceptHandler):
                    continue
                for st in node.body:
                    if isinstance(st, ast.Raise) and isinstance(
                            st.exc, ast.Call) and call_name(st.exc) == \
                            'Fault' and st.exc.args and isinstance(
                            st.exc.args[0], ast.Constant):
                        code = st.exc.args[0].value
                        ok = isinstance(code, str) and (
                            code == 'Client' or code.startswith('Client.'))
                        where = '%s:%d' % (g.module.relpath, st.lineno)
                        res.ob('R2', where, '%s: syntax error -> Fault(%r)' %
                               (g.qualname, code), 'ok' if ok else 'VIOLATED')
                        if not ok:
                            res.finding('R2', '%s|fault-code|%s' % (
                                g.qualname, code), where, 'a request syntax '
                                'error is reported with fault code %r, which '
                                'is not in the Client family' % (code,))
    res.floor('R2', 'parsing create_in_document implementations', n,
              len(PARSING_PROTOCOLS))


def rule_r3(prog, res, ef, tier):
    res.rule('R3', 'leaf readers raise only Faults on malformed text')
    seen_funcs = {}
    n_entries = 0
    for cfq in LEAF_PROTOCOLS:
        c = prog.cls(cfq, required=False)
        if c is None:
            continue
        tabs = tables_of(prog, c)
        for tname in ('_from_unicode_handlers', '_from_bytes_handlers',
                      'deserialization_handlers'):
            for key, e in sorted(tabs.get(tname, {}).items()):
                n_entries += 1
                t = e.target
                if isinstance(t, FuncInfo):
                    seen_funcs.setdefault(t, '%s.%s[%s]' % (c.name, tname,
                                                            key))
                elif isinstance(t, tuple):
                    lf = LambdaFunc(e.owner.module, t[1], tname)
                    seen_funcs.setdefault(lf, '%s.%s[%s]' % (c.name, tname,
                                                             key))
                else:
                    res.unclass('R3', e.owner.where, '%s.%s[%s] = %s' % (
                        c.name, tname, key, unparse(e.value)[:40]))
    res.floor('R3', 'handler table entries', n_entries, 60)
    # binary decoders
    m = prog.module('spyne.model.binary')
    v = m.consts.get('binary_decoding_handlers')
    nbin = 0
    if isinstance(v, ast.Dict):
        for val in v.values:
            t = prog.resolve_expr(m, val)
            if isinstance(t, FuncInfo):
                nbin += 1
                seen_funcs.setdefault(t, 'binary_decoding_handlers')
    res.floor('R3', 'binary decoders', nbin, 3)
    total = 0
    for f, label in sorted(seen_funcs.items(),
                           key=lambda kv: (kv[0].module.relpath,
                                           kv[0].node.lineno)):
        raises = ef.escapes(f)
        bad = report_escapes(res, 'R3', label, raises)
        total += bad
        if not bad:
            res.ob('R3', f.where, '%s (%s): no non-Fault escape' % (
                f.qualname, label), 'ok')
    res.count('leaf_readers', len(seen_funcs))
    res.count('eea_functions', ef.stats['functions'])
    res.count('eea_primitive_sites', ef.stats['primitive_sites'])
    res.count('eea_dropped_by_regex', ef.stats['dropped_by_regex'])


# ------------------------------------------------------------------- R9
STRUCTURAL = [
    ('spyne.protocol.xml:XmlDocument',
     ('deserialize', 'decompose_incoming_envelope', 'from_element',
      'complex_from_element', 'array_from_element', 'validate_body',
      '__validate_lxml')),
    ('spyne.protocol.soap.soap11:Soap11',
     ('deserialize', 'decompose_incoming_envelope')),
    ('spyne.protocol.dictdoc._base:DictDocument',
     ('decompose_incoming_envelope',)),
    ('spyne.protocol.dictdoc.hier:HierDictDocument',
     ('deserialize', '_doc_to_object', '_from_dict_value')),
    ('spyne.protocol.dictdoc.simple:SimpleDictDocument',
     ('simple_dict_to_object',)),
    ('spyne.protocol.http:HttpRpc',
     ('deserialize', 'decompose_incoming_envelope')),
    ('spyne.protocol.msgpack:MessagePackDocument',
     ('decompose_incoming_envelope', 'gen_method_request_string')),
    ('spyne.protocol.msgpack:MessagePackRpc',
     ('deserialize', 'decompose_incoming_envelope')),
    ('spyne.protocol.json:JsonDocument',
     ('decompose_incoming_envelope', 'validate')),
    ('spyne.protocol._base:ProtocolMixin',
     ('generate_method_contexts', 'get_call_handles')),
]
# raise sites that only the twisted transport can reach (memoryview / mmap
# request chunks): recorded, outside the property's transports
TWISTED_ONLY = ('inst.tobytes().decode(', 'mmap[:].decode(')
# confirmed by reading, one line of reason each
NOT_TRIAGEABLE = {
    ('SimpleDictDocument._to_native_values', 'v2.decode(req_enc)',
     'LookupError'): 'values are bytes only for werkzeug form data (HttpRpc '
                     'POST); werkzeug is not installed here, so the path '
                     'cannot be exercised',
}


def rule_r9(prog, res, ef):
    res.rule('R9', 'structural readers (envelope decomposition, '
             'deserialize, document-to-object) raise only Faults on '
             'malformed text')
    n = 0
    seen = set()
    for cfq, names in STRUCTURAL:
        c = prog.cls(cfq, required=False)
        if c is None:
            continue
        for nm in names:
            f = c.methods.get(nm)
            if f is None:
                continue
            n += 1
            raises = [r for r in ef.escapes(f) if r.exc != 'Fault' and
                      r.why != 're-raise' and not r.why.startswith('raise ')]
            fresh = []
            for r in raises:
                k = (r.func.qualname, r.why, r.exc)
                if k in seen:
                    continue
                seen.add(k)
                if k in NOT_TRIAGEABLE:
                    res.unclass('R9', r.where, '%s in %s (%s): %s' % (
                        r.why, r.func.qualname, r.exc, NOT_TRIAGEABLE[k]))
                    continue
                if any(r.why.startswith(t) for t in TWISTED_ONLY):
                    res.note('%s in %s may raise %s for memoryview/mmap '
                             'request chunks (twisted transport only)' % (
                                 r.why, r.func.qualname, r.exc))
                    continue
                fresh.append(r)
            report_escapes(res, 'R9', '%s.%s' % (c.name, nm), fresh)
            if not fresh:
                res.ob('R9', f.where, '%s.%s: no new non-Fault escape (%d '
                       'raise sites seen so far)' % (c.name, nm, len(seen)),
                       'ok')
    res.floor('R9', 'structural reader functions', n, 15)


# ------------------------------------------------------------------- R4
NONE_SOURCES = ('match', 'search', 'fullmatch', 'find')


def rule_r4(prog, res, tier):
    res.rule('R4', 'may-be-None values are tested before use (regex matches, '
             'envelope parts)')
    mods = ['spyne.protocol._inbase', 'spyne.protocol.soap.soap11',
            'spyne.protocol.xml', 'spyne.server.http',
            'spyne.protocol.soap.mime']
    if tier == 'thorough':
        mods += ['spyne.protocol.soap.soap12', 'spyne.protocol.http',
                 'spyne.model.primitive._base', 'spyne.protocol.json',
                 'spyne.protocol.msgpack', 'spyne.protocol.dictdoc.hier',
                 'spyne.protocol.dictdoc.simple']
    n = 0
    for mn in mods:
        m = prog.module(mn, required=False)
        if m is None:
            continue
        for f in m.functions.values():
            for node in walk_no_defs(f.node):
                # direct: X.match(s).group() / .groupdict()
                if isinstance(node, ast.Attribute) and isinstance(
                        node.value, ast.Call) and isinstance(
                        node.value.func, ast.Attribute) and \
                        node.value.func.attr in ('match', 'search',
                                                 'fullmatch') and \
                        _is_regex(f, node.value.func.value):
                    n += 1
                    where = '%s:%d' % (m.relpath, node.lineno)
                    res.ob('R4', where, '%s: %s' % (f.qualname,
                                                    unparse(node)[:60]),
                           'VIOLATED')
                    res.finding('R4', '%s|deref-match|%s' % (
                        f.qualname, unparse(node)[:50]), where,
                        'the result of %s is dereferenced without a None '
                        'test: a string that does not match raises '
                        'AttributeError' % unparse(node.value)[:50])
                if not isinstance(node, ast.Assign) or len(
                        node.targets) != 1 or not isinstance(
                        node.targets[0], ast.Name):
                    continue
                v = node.value
                if not (isinstance(v, ast.Call) and isinstance(
                        v.func, ast.Attribute) and v.func.attr in (
                        'match', 'search', 'fullmatch') and
                        _is_regex(f, v.func.value)):
                    continue
                var = node.targets[0].id
                n += 1
                # uses of var after this assignment, until it is rebound
                bad = _unchecked_derefs(f, node, var)
                where = '%s:%d' % (m.relpath, node.lineno)
                if bad:
                    b = bad[0]
                    res.ob('R4', where, '%s: %s = %s' % (
                        f.qualname, var, unparse(v)[:40]), 'VIOLATED')
                    res.finding('R4', '%s|%s|%s' % (f.qualname, var,
                                                    unparse(b)[:40]),
                                '%s:%d' % (m.relpath, b.lineno),
                                '%s (a regex match that may be None) is '
                                'dereferenced as %s without a dominating '
                                'None test' % (var, unparse(b)[:50]))
                else:
                    res.ob('R4', where, '%s: %s = %s tested before use' % (
                        f.qualname, var, unparse(v)[:40]), 'ok')
    res.floor('R4', 'regex match sites', n, 8)
    # the SOAP envelope parts
    soap = prog.cls('spyne.protocol.soap.soap11:Soap11')
    dec = soap.methods.get('decompose_incoming_envelope')
    fs = prog.module('spyne.protocol.soap.soap11').functions.get('_from_soap')
    if dec is None or fs is None:
        raise AnalysisError('Soap11.decompose_incoming_envelope/_from_soap',
                            'not found')
    may_none = []
    for node in walk_no_defs(fs.node):
        if isinstance(node, ast.Assign) and isinstance(
                node.value, ast.Constant) and node.value.value is None:
            for t in node.targets:
                if isinstance(t, ast.Name):
                    may_none.append(t.id)
    ret = [x for x in walk_no_defs(fs.node) if isinstance(x, ast.Return)]
    pos_none = []
    for r in ret:
        if isinstance(r.value, ast.Tuple):
            for i, e in enumerate(r.value.elts):
                if isinstance(e, ast.Name) and e.id in may_none:
                    pos_none.append(i)
    for node in walk_no_defs(dec.node):
        if isinstance(node, ast.Assign) and isinstance(
                node.value, ast.Call) and call_name(node.value) == \
                '_from_soap' and isinstance(node.targets[0], ast.Tuple):
            for i, t in enumerate(node.targets[0].elts):
                if i in pos_none and isinstance(t, ast.Name):
                    bad = _unchecked_derefs(dec, node, t.id)
                    where = '%s:%d' % (dec.module.relpath, node.lineno)
                    if bad:
                        res.ob('R4', where, 'decompose_incoming_envelope: '
                               '%s may be None' % t.id, 'VIOLATED')
                        res.finding('R4', 'Soap11.decompose_incoming_envelope'
                                    '|%s|%s' % (t.id, unparse(bad[0])[:40]),
                                    '%s:%d' % (dec.module.relpath,
                                               bad[0].lineno),
                                    '%s returned by _from_soap may be None '
                                    '(empty Body/Header) and is dereferenced '
                                    'as %s' % (t.id, unparse(bad[0])[:50]))
                    else:
                        res.ob('R4', where, 'decompose_incoming_envelope: '
                               '%s (may be None) is tested before use' % t.id,
                               'ok')


def _is_regex(f, expr):
    d = dotted(expr) or ''
    last = d.split('.')[-1]
    return last.endswith('_re') or last.endswith('_RE') or \
        last.startswith('re_') or 'regex' in last.lower() or \
        'pattern' in last.lower()


def _unchecked_derefs(f, assign, var):
    """Attribute/subscript/call uses of ``var`` after ``assign`` that are not
    dominated by a test excluding None (and before var is rebound)."""
    out = []
    rebinds = [n.lineno for n in walk_no_defs(f.node)
               if isinstance(n, ast.Assign) and n is not assign and any(
                   isinstance(t, ast.Name) and t.id == var
                   for t in n.targets) and n.lineno > assign.lineno]
    limit = min(rebinds) if rebinds else 10 ** 9
    for n in walk_no_defs(f.node):
        if not (isinstance(n, ast.Name) and n.id == var and
                isinstance(n.ctx, ast.Load)):
            continue
        if n.lineno <= assign.lineno or n.lineno > limit:
            continue
        p = parent(n)
        deref = (isinstance(p, ast.Attribute) and p.value is n) or \
            (isinstance(p, ast.Subscript) and p.value is n)
        if not deref:
            continue
        g = flatten_guards(guards_at(n, stop=f.node))
        ok = False
        for e, pol in g:
            t = unparse(e)
            if t == var and pol:
                ok = True
            if t == '%s is None' % var and not pol:
                ok = True
            if t == '%s is not None' % var and pol:
                ok = True
            if t == 'not %s' % var and not pol:
                ok = True
        if not ok:
            out.append(p)
    return out


# ------------------------------------------------------------------- R5
TEXT_PARSERS = ('from_serstr', 'from_unicode', 'from_bytes')


def rule_r5(prog, res):
    res.rule('R5', 'dict-document text parsers only see values whose kind '
             'was checked')
    c = prog.cls('spyne.protocol.dictdoc.hier:HierDictDocument')
    f = c.methods.get('_from_dict_value')
    if f is None:
        raise AnalysisError('HierDictDocument._from_dict_value', 'not found')
    # the leaf conversions: text-parser calls in _from_dict_value itself and
    # in the private helpers of the class it hands the value to
    sites = []
    for call in calls_in(f.node):
        nm = call_name(call)
        recv = dotted(call.func.value) if isinstance(
            call.func, ast.Attribute) else None
        if recv != 'self':
            continue
        if nm in TEXT_PARSERS:
            sites.append((f, call, None))
        elif nm.startswith('_') and nm in c.methods and nm not in (
                '_doc_to_object', '_parse', '_cast'):
            h = c.methods[nm]
            for c2 in calls_in(h.node):
                if call_name(c2) in TEXT_PARSERS and isinstance(
                        c2.func, ast.Attribute) and dotted(
                        c2.func.value) == 'self':
                    sites.append((h, c2, call))
    NEED = ('TypeError', 'AttributeError', 'ValueError')
    for g, call, via in sites:
        where = '%s:%d' % (g.module.relpath, (via or call).lineno)
        gl = flatten_guards(guards_at(call, stop=g.node))
        if via is not None:
            gl = gl + flatten_guards(guards_at(via, stop=f.node))
        isinst = any(unparse(e).startswith('isinstance(inst') and pol
                     for e, pol in gl)
        caught = set()
        for t, region in enclosing_trys(call, stop=g.node):
            if region != 'body':
                continue
            for h in t.handlers:
                names = handler_names(h)
                raises_fault = any(
                    isinstance(n, ast.Raise) and n.exc is not None and
                    'Error' in unparse(n.exc) and not any(
                        x in unparse(n.exc) for x in NEED)
                    for n in ast.walk(h))
                if not raises_fault:
                    continue
                if not names or 'Exception' in names:
                    caught.update(NEED)
                caught.update(n for n in names if n in NEED)
        ok = isinst or all(n in caught for n in NEED)
        res.ob('R5', where, '%s: %s %s' % (
            g.qualname, unparse(call)[:50],
            'after an isinstance test' if isinst else
            'inside a handler converting %s' % sorted(caught) if caught else
            'unguarded'), 'ok' if ok else 'VIOLATED', nontrivial=True)
        if not ok:
            res.finding('R5', '%s|%s|kind-unchecked' % (
                g.qualname, unparse(call)[:40]), where,
                '%s hands a document value of any kind (number, boolean, '
                'list, dict) to the text parser %s; %s escape as non-Fault '
                'exceptions for a mistyped JSON/YAML/msgpack value' % (
                    f.qualname, unparse(call)[:50],
                    '/'.join(n for n in NEED if n not in caught)))
    res.floor('R5', 'leaf text-parser sites of _from_dict_value',
              len(sites), 1)
    # the soft-validation kind check for Unicode must stay
    v = c.methods.get('validate')
    if v is not None:
        t = unparse(v.node)
        ok = 'VALID_UNICODE_SOURCES' in t and 'ValidationError' in t
        res.ob('R5', v.where, 'HierDictDocument.validate rejects non-text '
               'values for Unicode', 'ok' if ok else 'VIOLATED')
        if not ok:
            res.finding('R5', 'HierDictDocument.validate|unicode-kind',
                        v.where, 'the kind check for Unicode members is gone')
        # its None exemption must test identity with None
        for node in walk_no_defs(v.node):
            if isinstance(node, ast.If):
                tt = unparse(node.test)
                if 'nullable' in tt:
                    ok = 'inst is None' in tt
                    res.ob('R5', '%s:%d' % (v.module.relpath, node.lineno),
                           'validate: null exemption is %s' % tt[:60],
                           'ok' if ok else 'VIOLATED')
                    if not ok:
                        res.finding('R5', 'HierDictDocument.validate|'
                                    'null-exemption|%s' % tt[:40],
                                    '%s:%d' % (v.module.relpath, node.lineno),
                                    'the nullable exemption tests %s instead '
                                    'of "inst is None": falsy wrong-kind '
                                    'values ([] {} 0 False) skip the kind '
                                    'check' % tt[:60])


# ------------------------------------------------------------------- R6
def rule_r6(prog, res, tier):
    res.rule('R6', 'user code is not run for a request that carries in_error')
    srv = prog.cls('spyne.server._base:ServerBase')
    f = srv.methods.get('get_out_object')
    for c in calls_in(f.node):
        if call_name(c) == 'process_request':
            g = flatten_guards(guards_at(c, stop=f.node))
            ok = any((unparse(e) == 'ctx.in_error is None' and pol) or
                     (unparse(e) in ('ctx.in_error is not None',
                                     'ctx.in_error') and not pol)
                     for e, pol in g)
            where = '%s:%d' % (f.module.relpath, c.lineno)
            res.ob('R6', where, 'get_out_object: process_request under '
                   'in_error is None', 'ok' if ok else 'VIOLATED')
            if not ok:
                res.finding('R6', 'ServerBase.get_out_object|unguarded',
                            where, 'process_request runs although in_error '
                            'is set')
    # in the WSGI transport get_out_object is dominated by the in_error tests
    w = prog.cls('spyne.server.wsgi:WsgiApplication')
    h = prog.find_method(w, 'handle_rpc')
    n = 0
    for c in calls_in(h.node):
        if call_name(c) == 'get_out_object':
            n += 1
            g = flatten_guards(guards_at(c, stop=h.node))
            cnt = len([1 for e, pol in g if unparse(e).endswith('in_error')
                       and not pol])
            where = '%s:%d' % (h.module.relpath, c.lineno)
            ok = cnt >= 2
            res.ob('R6', where, 'handle_rpc: get_out_object after %d in_error '
                   'early exits' % cnt, 'ok' if ok else 'VIOLATED')
            if not ok:
                res.finding('R6', 'WsgiApplication.handle_rpc|in-error-exits',
                            where, 'get_out_object is reached without both '
                            'in_error early exits (after generate_contexts '
                            'and after get_in_object): found %d' % cnt)
    res.floor('R6', 'get_out_object call in handle_rpc', n, 1)


# ------------------------------------------------------------------- R7
def rule_r7(prog, res):
    res.rule('R7', 'fault messages are templates: request text is never '
             'pre-formatted into the string that ValidationError formats '
             'again')
    import re as _re
    n = 0
    for f in prog.all_functions():
        rel = f.module.relpath
        if not (rel.startswith('spyne/protocol/') or
                rel.startswith('spyne/model/')):
            continue
        params = set(f.params())
        for c in calls_in(f.node):
            if call_name(c) != 'ValidationError' or len(c.args) < 2:
                continue
            msg = c.args[1]
            if not (isinstance(msg, ast.BinOp) and isinstance(msg.op, ast.Mod)
                    and isinstance(msg.left, ast.Constant) and
                    isinstance(msg.left.value, str)):
                continue
            n += 1
            tmpl = msg.left.value
            remaining = len(_re.findall(r'%%[rsd]', tmpl))
            embeds = [x.id for x in ast.walk(msg.right)
                      if isinstance(x, ast.Name) and x.id in params and
                      x.id not in ('self', 'cls')]
            where = '%s:%d' % (rel, c.lineno)
            inst = '%s: ValidationError(%s, %s)' % (
                f.qualname, unparse(c.args[0])[:20], unparse(msg)[:60])
            if remaining == 0 and embeds:
                res.ob('R7', where, inst, 'VIOLATED')
                res.finding('R7', '%s|preformatted|%s' % (f.qualname,
                                                          tmpl[:40]), where,
                            'the message is fully formatted with request '
                            'text (%s) before ValidationError formats it '
                            'again with %% (obj,): a "%%" in the value raises '
                            'ValueError, which is not a Fault' % ', '.join(
                                embeds))
            else:
                res.ob('R7', where, inst, 'ok')
    res.floor('R7', 'formatted ValidationError messages', n, 4)


def rule_r8(prog, res):
    from . import c13
    from ..report import Result
    res.share('R8', 'the request-size refusal is raised inside the fault '
              'funnel, not eagerly in the transport (C13-R4)', 'C13',
              c13.rule_r4, prog, Result)


# ------------------------------------------------------------------ R10
def rule_r10(prog, res):
    res.rule('R10', 'default fault messages embed client-chosen values with '
             '%r (escaped), never %s')
    m = prog.module('spyne.error')
    n = 0
    # fault classes whose first argument is chosen by the client (confirmed
    # by reading the raise sites): the requested method name / resource, and
    # the offending request value
    client_valued = ('ResourceNotFoundError', 'ValidationError',
                     'ResourceAlreadyExistsError')
    for f in m.functions.values():
        if f.name != '__init__' or f.cls is None or \
                f.cls.name not in client_valued:
            continue
        a = f.node.args
        pos = a.args
        defaults = [None] * (len(pos) - len(a.defaults)) + list(a.defaults)
        for p_, d in zip(pos, defaults):
            if d is None or not (isinstance(d, ast.Constant) and isinstance(
                    d.value, str)) or '%' not in d.value:
                continue
            n += 1
            raw = re.findall(r'%[-#0 +]*\d*(?:\.\d+)?([a-zA-Z])', d.value)
            bad = [c for c in raw if c in ('s',)]
            where = '%s:%d' % (m.relpath, d.lineno)
            res.ob('R10', where, '%s: default %s = %r' % (
                f.qualname, p_.arg, d.value), 'VIOLATED' if bad else 'ok')
            if bad:
                res.finding('R10', '%s|raw-placeholder|%s' % (f.qualname,
                                                              p_.arg), where,
                            '%s builds its message with %r: the value named '
                            'by the client (an unknown method name, a key) '
                            'is copied unescaped into the fault string, and '
                            'control characters or lone surrogates in it make '
                            'the XML/text fault writers raise instead of '
                            'answering' % (f.qualname, d.value))
    res.floor('R10', 'default fault message templates', n, 2)


# ------------------------------------------------------------------ R11
def rule_r11(prog, res):
    res.rule('R11', 'the dict envelope is split only after it was checked '
             'to be a one-key dict; int-like keys never reach positional '
             'lookup')
    f = prog.cls('spyne.protocol.dictdoc._base:DictDocument').methods.get(
        'decompose_incoming_envelope')
    if f is None:
        raise AnalysisError('DictDocument.decompose_incoming_envelope',
                            'not found')
    n = 0
    for c in calls_in(f.node):
        if call_name(c) == 'gen_method_request_string':
            n += 1
            guardspec.check(
                res, 'R11', f, c, 'the extraction of the method name',
                allowed=[('message in (ProtocolBase.REQUEST, '
                          'ProtocolBase.RESPONSE)', True),
                         ('len(doc) == 0', False),
                         ('message is ProtocolBase.REQUEST', True)],
                required=[('len(doc) == 1', True),
                          ('isinstance(doc, dict)', True)],
                key='DictDocument.decompose_incoming_envelope|method-name')
    res.floor('R11', 'method-name extraction sites', n, 1)
    # odict.get must test membership: __getitem__ treats ints as positions
    od = prog.cls('spyne.util.odict:odict')
    g = od.methods.get('get')
    if g is None:
        raise AnalysisError('odict.get', 'not found')
    k = 0
    for sub in walk_no_defs(g.node):
        if isinstance(sub, ast.Subscript) and unparse(sub.value) == 'self' \
                and isinstance(sub.ctx, ast.Load):
            k += 1
            atoms = guardspec.atoms_at(sub, g.node)
            ok = ('key in self', True) in atoms
            where = '%s:%d' % (g.module.relpath, sub.lineno)
            res.ob('R11', where, 'odict.get: %s under %s' % (unparse(sub),
                                                             atoms),
                   'ok' if ok else 'VIOLATED')
            if not ok:
                res.finding('R11', 'odict.get|unchecked-index', where,
                            'odict.get evaluates self[key] without testing '
                            '"key in self" first: odict.__getitem__ treats '
                            'an int key as a position, so a document key '
                            'such as 0 or 99 (YAML mappings allow them) '
                            'resolves to a declared member or raises '
                            'IndexError/TypeError instead of being skipped '
                            'as unknown')
    res.floor('R11', 'item reads in odict.get', k, 1)
    from . import c17
    from ..report import Result
    res.share('R11', 'the dict envelope is split only after it was checked '
              'to be a one-key dict; int-like keys never reach positional '
              'lookup', 'C17', c17.rule_clean_tree, prog, Result)


# ------------------------------------------------------------------ R12
def rule_r12(prog, res):
    res.rule('R12', 'readers look at the kind of what they were handed before '
             'they use it as that kind: ".type" of a member is read only for '
             'XmlAttribute members; a document value is iterated only behind '
             'a kind test')
    x = prog.cls('spyne.protocol.xml:XmlDocument')
    f = x.methods.get('complex_from_element')
    if f is None:
        raise AnalysisError('XmlDocument.complex_from_element', 'not found')
    looked_up = set()
    for a in walk_no_defs(f.node):
        if isinstance(a, ast.Assign) and isinstance(a.value, ast.Call) and \
                call_name(a.value) == 'get' and 'type_info' in unparse(
                    a.value.func.value):
            for t in a.targets:
                for nm in ast.walk(t):
                    if isinstance(nm, ast.Name):
                        looked_up.add(nm.id)
    looked_up -= {'key', 'k'}
    n = 0
    for at in walk_no_defs(f.node):
        if not (isinstance(at, ast.Attribute) and at.attr == 'type' and
                isinstance(at.value, ast.Name) and at.value.id in looked_up):
            continue
        n += 1
        st = at
        while not isinstance(st, ast.stmt):
            st = st._parent
        atoms = guardspec.atoms_at(st, f.node)
        ok = any(t.startswith('issubclass(%s, ' % at.value.id) and
                 'XmlAttribute' in t and pol for t, pol in atoms)
        where = '%s:%d' % (f.module.relpath, at.lineno)
        res.ob('R12', where, 'complex_from_element reads %s.type %s' % (
            at.value.id, 'behind an XmlAttribute test' if ok else
            'without an XmlAttribute test'), 'ok' if ok else 'VIOLATED')
        if not ok:
            res.finding('R12', 'XmlDocument.complex_from_element|%s.type|'
                        'no-kind-test' % at.value.id, where, 'the member an '
                        'attribute is named after is used as an XmlAttribute '
                        '(%s.type) without testing that it is one: an '
                        'attribute carrying the name of an ordinary member '
                        'raises AttributeError out of the request' %
                        at.value.id)
    res.floor('R12', 'reads of the wrapped type of an attribute member', n, 3)
    # dict documents: iteration over a document value
    h = prog.cls('spyne.protocol.dictdoc.hier:HierDictDocument')
    g = h.methods.get('_doc_to_object')
    docvals = {'doc'}
    for loop in walk_no_defs(g.node):
        if isinstance(loop, ast.For) and isinstance(loop.target, ast.Tuple) \
                and unparse(loop.iter) in ('items', 'doc.items()'):
            docvals.add(unparse(loop.target.elts[-1]))
    m = 0
    for loop in walk_no_defs(g.node):
        if not isinstance(loop, ast.For):
            continue
        it = loop.iter
        if isinstance(it, ast.Call) and call_name(it) == 'enumerate' and \
                it.args:
            it = it.args[0]
        if not (isinstance(it, ast.Name) and it.id in docvals):
            continue
        m += 1
        atoms = guardspec.atoms_at(loop, g.node)
        ok = any(t.startswith('isinstance(%s, ' % it.id) and pol
                 for t, pol in atoms)
        # ... or the loop sits in a try that converts TypeError
        p_ = loop
        while not ok and p_ is not None and p_ is not g.node:
            par = getattr(p_, '_parent', None)
            if isinstance(par, ast.Try) and p_ in par.body and any(
                    h_.type is not None and 'TypeError' in unparse(h_.type)
                    for h_ in par.handlers):
                ok = True
            p_ = par
        where = '%s:%d' % (g.module.relpath, loop.lineno)
        res.ob('R12', where, '_doc_to_object iterates the document value %s '
               '%s' % (it.id, 'behind a kind test' if ok else
                       'without a kind test'), 'ok' if ok else 'VIOLATED')
        if not ok:
            res.finding('R12', 'HierDictDocument._doc_to_object|iterates|%s' %
                        it.id, where, 'the document value %s is iterated '
                        'without a kind test: a number where a list of values '
                        'is expected raises TypeError out of the request' %
                        it.id)
    res.floor('R12', 'iterations over document values', m, 2)


# ------------------------------------------------------------------ R13
def rule_r13(prog, res):
    res.rule('R13', 'SOAP multi-reference resolution: the id table is read '
             'with a tolerant lookup and the walk cannot revisit the '
             'reference it is resolving')
    m = prog.module('spyne.protocol.soap.soap11')
    f = m.functions.get('resolve_hrefs')
    if f is None:
        raise AnalysisError('resolve_hrefs', 'not found')
    ps = f.params()
    table = ps[1]
    subs = [x for x in walk_no_defs(f.node) if isinstance(x, ast.Subscript)
            and isinstance(x.ctx, ast.Load) and unparse(x.value) == table]
    guarded = []
    for x in subs:
        p_ = x
        ok = False
        while p_ is not None and p_ is not f.node:
            par = getattr(p_, '_parent', None)
            if isinstance(par, ast.Try) and p_ in par.body and any(
                    h.type is None or 'KeyError' in unparse(h.type) or
                    'LookupError' in unparse(h.type) for h in par.handlers):
                ok = True
            p_ = par
        if ok:
            guarded.append(x)
    bad = [x for x in subs if x not in guarded]
    res.ob('R13', f.where, 'resolve_hrefs: %d unguarded %s[...] lookups' % (
        len(bad), table), 'VIOLATED' if bad else 'ok')
    for x in bad[:1]:
        res.finding('R13', 'resolve_hrefs|id-table-indexed',
                    '%s:%d' % (m.relpath, x.lineno), 'the id table is indexed '
                    'with the text of an href attribute (%s): a reference to '
                    'an id the document does not define raises KeyError out '
                    'of the request' % unparse(x)[:50])
    rec = [c for c in calls_in(f.node) if call_name(c) == 'resolve_hrefs']
    res.floor('R13', 'recursive calls in resolve_hrefs', len(rec), 1)
    follows = []
    for c in rec:
        st = c
        while not isinstance(st, ast.stmt):
            st = st._parent
        atoms = guardspec.atoms_at(st, f.node)
        if any("get('href')" in t and pol for t, pol in atoms):
            follows.append((c, atoms))
    res.floor('R13', 'recursive calls that follow a reference', len(follows),
              1)
    for c, atoms in follows:
        carried = len(c.args) + len(c.keywords) > 2
        tested = any(' in ' in t for t, pol in atoms)
        ok = carried and tested
        where = '%s:%d' % (m.relpath, c.lineno)
        res.ob('R13', where, 'the walk into a referenced element %s' % (
            'carries the references being resolved and tests membership'
            if ok else 'keeps no record of where it came from'),
            'ok' if ok else 'VIOLATED')
        if not ok:
            res.finding('R13', 'resolve_hrefs|cycle-unbounded', where,
                        'resolve_hrefs follows an href into the referenced '
                        'element without remembering the references it is '
                        'resolving: two elements that refer to each other '
                        'raise RecursionError out of the request')


# ------------------------------------------------------------------ R14
def rule_r14(prog, res):
    res.rule('R14', 'SOAP envelope decomposition names a method for every '
             'request it lets through: the branch that leaves '
             'method_request_string unset (a Fault body) refuses requests')
    s11 = prog.cls('spyne.protocol.soap.soap11:Soap11')
    f = s11.methods.get('decompose_incoming_envelope')
    if f is None:
        raise AnalysisError('Soap11.decompose_incoming_envelope', 'not found')
    branches = [i for i in walk_no_defs(f.node) if isinstance(i, ast.If) and
                'Fault' in unparse(i.test)]
    res.floor('R14', 'Fault-body branches', len(branches), 1)
    for br in branches:
        sets = any(isinstance(a, ast.Assign) and any(
            unparse(t).endswith('.method_request_string') for t in a.targets)
            for st in br.body for a in ast.walk(st))
        if sets:
            continue
        refuses = False
        for st in br.body:
            for r in ast.walk(st):
                if isinstance(r, ast.Raise):
                    atoms = guardspec.atoms_at(r, br)
                    if any('REQUEST' in t and pol for t, pol in atoms):
                        refuses = True
        where = '%s:%d' % (f.module.relpath, br.lineno)
        res.ob('R14', where, 'the Fault-body branch %s requests' % (
            'refuses' if refuses else 'lets through'),
            'ok' if refuses else 'VIOLATED')
        if not refuses:
            res.finding('R14', 'Soap11.decompose_incoming_envelope|fault-'
                        'request', where, 'a request whose Body holds a '
                        'soap:Fault passes this branch with '
                        'method_request_string unset: get_call_handles '
                        'dereferences None and AttributeError escapes the '
                        'request')


def _doc_tainted(f):
    """Locals of f bound from the request document (ctx.in_document etc.),
    transitively through plain copies, unpacking and method calls on them."""
    tainted = set()
    for _ in range(4):
        for a in walk_no_defs(f.node):
            if not isinstance(a, ast.Assign):
                continue
            src = unparse(a.value)
            names = {x.id for x in ast.walk(a.value)
                     if isinstance(x, ast.Name)}
            if 'in_document' in src or 'in_body_doc' in src or \
                    'in_header_doc' in src or names & tainted:
                for t in a.targets:
                    for x in ast.walk(t):
                        if isinstance(x, ast.Name):
                            tainted.add(x.id)
    return tainted


def rule_r15(prog, res):
    res.rule('R15', 'envelope decomposition never asserts on, or raises a '
             'non-Fault exception under a condition on, a value the peer '
             'sent (message type, method name, parameters)')
    from ..flow import guards_at, flatten_guards
    n = 0
    for c in prog.all_classes():
        if not c.module.relpath.startswith('spyne/protocol/'):
            continue
        f = c.methods.get('decompose_incoming_envelope')
        if f is None:
            continue
        tainted = _doc_tainted(f)
        for st in walk_no_defs(f.node):
            kind = None
            if isinstance(st, ast.Assert):
                kind = 'assert'
            elif isinstance(st, ast.Raise) and st.exc is not None:
                nm = dotted(st.exc.func) if isinstance(
                    st.exc, ast.Call) else dotted(st.exc)
                last = (nm or '').split('.')[-1]
                cls_ = prog.find_class(last) if hasattr(
                    prog, 'find_class') else None
                is_fault = last.endswith('Error') and last in (
                    'ValidationError', 'ResourceNotFoundError',
                    'MessagePackDecodeError', 'RequestNotAllowed',
                    'InvalidInputError', 'MissingFieldError',
                    'RequestTooLongError') or last == 'Fault'
                if not is_fault and last:
                    for k2 in prog.all_classes():
                        if k2.name == last and prog.is_subclass(k2, 'Fault'):
                            is_fault = True
                if not is_fault:
                    kind = 'raise %s' % last
            if kind is None:
                continue
            n += 1
            g = flatten_guards(guards_at(st, stop=f.node))
            names = {x.id for e, _ in g for x in ast.walk(e)
                     if isinstance(x, ast.Name)}
            if isinstance(st, ast.Assert):
                names |= {x.id for x in ast.walk(st.test)
                          if isinstance(x, ast.Name)} & tainted
            dep = sorted(names & tainted)
            where = '%s:%d' % (f.module.relpath, st.lineno)
            res.ob('R15', where, '%s: %s %s' % (
                f.qualname, kind, 'depends on request values %s' % dep
                if dep else 'does not depend on the request'),
                'VIOLATED' if dep else 'ok')
            if dep:
                res.finding('R15', '%s|%s|%s' % (f.qualname, kind.split()[0],
                                                 ','.join(dep)), where,
                            '%s in %s is reached (or decided) by %s, which '
                            'the peer sent: the exception is not a Fault, '
                            'generate_contexts does not catch it and it '
                            'leaves the transport ([1, 0, "f", []] or '
                            '[2, 0, "f"] for MessagePackRpc)' % (
                                kind, f.qualname, dep))
    # %-formatting with a value the peer sent: a msgpack array arrives as a
    # tuple, which % takes for the argument list
    m = 0
    for c in prog.all_classes():
        if not c.module.relpath.startswith('spyne/protocol/'):
            continue
        f = c.methods.get('decompose_incoming_envelope')
        if f is None or f.cls is not c:
            continue
        tainted = _doc_tainted(f)
        for x in walk_no_defs(f.node):
            if not (isinstance(x, ast.BinOp) and isinstance(x.op, ast.Mod) and
                    isinstance(x.left, ast.Constant) and isinstance(
                        x.left.value, str)):
                continue
            m += 1
            bad = isinstance(x.right, ast.Name) and x.right.id in tainted
            where = '%s:%d' % (f.module.relpath, x.lineno)
            res.ob('R15', where, '%s formats %s' % (f.qualname,
                                                    unparse(x)[:60]),
                   'VIOLATED' if bad else 'ok')
            if bad:
                res.finding('R15', '%s|format|%s' % (f.qualname, x.right.id),
                            where, '%s formats a message with "%% %s", a '
                            'value the peer sent: when it is a tuple (a '
                            'msgpack array) it is taken for the argument '
                            'list and TypeError leaves the transport' % (
                                f.qualname, x.right.id))
    res.floor('R15', 'asserts and non-Fault raises in envelope decomposition',
              n, 0)


def rule_r16(prog, res):
    from . import c04
    from ..report import Result
    res.share('R16', 'xsi:type never turns a declared Array into a lazily '
              'read Iterable: items would be parsed, and refused, after the '
              'user function has started (C04-R11)', 'C04', c04.rule_r11,
              prog, Result)


def rule_r17(prog, res):
    from . import c05
    from ..report import Result
    res.share('R17', 'flat documents: indexes are taken in path order and '
              'the index map is kept per list (C05-R13)', 'C05',
              c05._index_order, prog, Result)


def rule_r18(prog, res):
    from . import c09
    from ..report import Result
    res.share('R18', 'the status line and the body of a fault come from the '
              'same protocol (C09-R5)', 'C09', c09.rule_r5, prog, Result)


def rule_r19(prog, res):
    res.rule('R19', 'a binary decoder that builds its error message with '
             'bytes has made the value bytes on every path that reaches the '
             'message (a handler is reached from anywhere in its try body)')
    m = prog.module('spyne.model.binary')
    n = 0
    for q, f in sorted(m.functions.items()):
        if not f.name.startswith('from_'):
            continue
        params = [a.arg for a in f.node.args.args]
        for b in walk_no_defs(f.node):
            if not (isinstance(b, ast.BinOp) and isinstance(b.op, ast.Add)):
                continue
            sides = [b.left, b.right]
            if not any(isinstance(x, ast.Constant) and isinstance(
                    x.value, bytes) for x in sides):
                continue
            other = [x for x in sides if not isinstance(x, ast.Constant)]
            names = {y.id for x in other for y in ast.walk(x)
                     if isinstance(y, ast.Name) and y.id in params}
            for nm in sorted(names):
                n += 1
                # statements that enclose the operation, with their blocks
                chain = []
                cur = b
                while cur is not None and cur is not f.node:
                    if isinstance(cur, ast.stmt):
                        chain.append(cur)
                    cur = parent(cur)
                dominated = False
                for st in chain:
                    p_ = parent(st)
                    for fld in ('body', 'orelse', 'finalbody'):
                        blk = getattr(p_, fld, None)
                        if isinstance(blk, list) and st in blk:
                            for prev in blk[:blk.index(st)]:
                                if isinstance(prev, ast.If) and \
                                        'text_type' in unparse(prev.test) \
                                        and nm in unparse(prev.test) and any(
                                            isinstance(a, ast.Assign) and
                                            unparse(a.targets[0]) == nm and
                                            '.encode(' in unparse(a.value)
                                            for a in prev.body):
                                    dominated = True
                where = '%s:%d' % (m.relpath, b.lineno)
                res.ob('R19', where, '%s: %s is joined with bytes; made bytes '
                       'on every path: %s' % (q, nm, dominated),
                       'ok' if dominated else 'VIOLATED')
                if not dominated:
                    res.finding('R19', '%s|text-joined-with-bytes|%s' % (
                        q, nm), where, '%s builds "%s": %s can still be text '
                        'there (its conversion to bytes does not come before '
                        'every path to this line), so for long invalid text '
                        'the handler raises TypeError instead of '
                        'ValidationError and the request ends in an '
                        'unhandled error, not a Client fault' % (
                            q, unparse(b)[:50], nm))
    res.floor('R19', 'bytes-joined error messages in binary decoders', n, 1)


def rule_r20(prog, res):
    res.rule('R20', 'a recursive walker forwards its cycle guard (the '
             'parameter it tests with "in" before raising) in every '
             'recursive call')
    n = 0
    for fn in prog.all_functions():
        if not fn.module.name.startswith('spyne.protocol'):
            continue
        params = [a.arg for a in fn.node.args.args]
        rec = [c for c in calls_in(fn.node) if isinstance(c.func, ast.Name)
               and c.func.id == fn.name and fn.cls is None]
        if not rec:
            continue
        guards_ = set()
        for r in walk_no_defs(fn.node):
            if isinstance(r, ast.Raise):
                for e, pol in flatten_guards(guards_at(r, stop=fn.node)):
                    for cmp_ in ast.walk(e):
                        if isinstance(cmp_, ast.Compare) and isinstance(
                                cmp_.ops[0], (ast.In, ast.NotIn)) and \
                                isinstance(cmp_.comparators[0], ast.Name) \
                                and cmp_.comparators[0].id in params:
                            guards_.add(cmp_.comparators[0].id)
        for p_ in sorted(guards_):
            idx = params.index(p_)
            for c in rec:
                n += 1
                arg = c.args[idx] if len(c.args) > idx else None
                for k in c.keywords:
                    if k.arg == p_:
                        arg = k.value
                ok = arg is not None and any(
                    isinstance(y, ast.Name) and y.id == p_
                    for y in ast.walk(arg))
                where = '%s:%d' % (fn.module.relpath, c.lineno)
                res.ob('R20', where, '%s: recursive call %s the guard %s' % (
                    fn.qualname, 'forwards' if ok else 'drops', p_),
                    'ok' if ok else 'VIOLATED')
                if not ok:
                    res.finding('R20', '%s|cycle-guard-dropped|%s' % (
                        fn.qualname, p_), where, 'the recursive call %s '
                        'starts with an empty %s: a reference cycle that '
                        'passes through this call is no longer detected and '
                        'the request ends in RecursionError, not in a client '
                        'fault' % (unparse(c)[:50], p_))
    res.floor('R20', 'recursive calls of guarded walkers', n, 2)


# ------------------------------------------------------------------ R21
def rule_r21(prog, res):
    from ..flow import entails
    res.rule('R21', 'a float taken from a request is converted with int() '
             'only where is_integer() holds: int(inf) raises OverflowError '
             'and int(nan) ValueError, neither of which the leaf readers '
             'translate - the number readers of Json, Yaml and MessagePack '
             'agree on this guard')
    n = 0
    for m in prog.modules.values():
        if not m.name.startswith('spyne.protocol'):
            continue
        for f in [x for x in ast.walk(m.tree)
                  if isinstance(x, ast.FunctionDef)]:
            for c in walk_no_defs(f):
                if not (isinstance(c, ast.Call) and isinstance(
                        c.func, ast.Name) and c.func.id == 'int' and
                        len(c.args) == 1 and isinstance(c.args[0], ast.Name)):
                    continue
                v = c.args[0].id
                g = flatten_guards(guards_at(c, stop=f))
                is_float = any(
                    pol and isinstance(e, ast.Call) and call_name(e) ==
                    'isinstance' and len(e.args) == 2 and unparse(
                        e.args[0]) == v and 'float' in unparse(e.args[1])
                    for e, pol in g)
                if not is_float:
                    continue
                n += 1
                ok = entails(g, '%s.is_integer()' % v)
                where = '%s:%d' % (m.relpath, c.lineno)
                res.ob('R21', where, '%s: int(%s) of a request float under '
                       'is_integer()' % (f.name, v), 'ok' if ok else
                       'VIOLATED')
                if not ok:
                    res.finding('R21', '%s|int-of-unchecked-float|%s' % (
                        f.name, m.name.rsplit('.', 1)[-1]), where,
                        'int(%s) is reached for every float: an infinity in '
                        'the request raises OverflowError past the readers\' '
                        'handlers and the request ends in a Server fault'
                        % v)
    res.floor('R21', 'int() conversions of request floats', n, 3)


def run(prog, res, tier):
    res.run_rule(rule_r8, prog, res)
    res.run_rule(rule_r7, prog, res)
    cg = CallGraph(prog)
    ef = ExcFlow(prog, cg)
    res.run_rule(rule_r1, prog, res, tier)
    res.run_rule(rule_r2, prog, res, ef)
    res.run_rule(rule_r3, prog, res, ef, tier)
    res.run_rule(rule_r9, prog, res, ef)
    res.run_rule(rule_r10, prog, res)
    res.run_rule(rule_r11, prog, res)
    res.run_rule(rule_r12, prog, res)
    res.run_rule(rule_r13, prog, res)
    res.run_rule(rule_r14, prog, res)
    res.run_rule(rule_r15, prog, res)
    res.run_rule(rule_r16, prog, res)
    res.run_rule(rule_r17, prog, res)
    res.run_rule(rule_r18, prog, res)
    res.run_rule(rule_r19, prog, res)
    res.run_rule(rule_r20, prog, res)
    res.run_rule(rule_r21, prog, res)
    res.run_rule(rule_r4, prog, res, tier)
    res.run_rule(rule_r5, prog, res)
    res.run_rule(rule_r6, prog, res, tier)


_B = 'spyne/server/_base.py'
_W = 'spyne/server/wsgi.py'
_I = 'spyne/protocol/_inbase.py'
_S = 'spyne/protocol/soap/soap11.py'
_J = 'spyne/protocol/json.py'
_Y = 'spyne/protocol/yaml.py'
_M = 'spyne/protocol/msgpack.py'
_BI = 'spyne/model/binary.py'
_H = 'spyne/protocol/dictdoc/hier.py'
_MI = 'spyne/protocol/soap/mime.py'

MUTANTS = [
    Mutant('msgpack-float-int-compare', 'R21', 'fire',
           'spyne/protocol/msgpack.py',
           in_func('MessagePackDocument._ret_number',
                   "if not value.is_integer():",
                   "if value != int(value):"), 'int-of-unchecked-float'),
    Mutant('href-descent-drops-cycle-guard', 'R20', 'fire',
           'spyne/protocol/soap/soap11.py',
           in_func('resolve_hrefs',
                   "            resolve_hrefs(e, xmlids, _resolving)",
                   "            resolve_hrefs(e, xmlids)"),
           'cycle-guard-dropped'),
    Mutant('urlsafe-text-encoded-inside-try', 'R19', 'fire',
           'spyne/model/binary.py',
           in_func('ByteArray.from_urlsafe_base64',
                   "        if isinstance(value, six.text_type):\n"
                   "            value = value.encode('utf8')\n"
                   "        try:\n",
                   "        try:\n"
                   "            if isinstance(value, six.text_type):\n"
                   "                value = value.encode('utf8')\n"
                   "                return (urlsafe_b64decode(value),)\n"),
           'text-joined-with-bytes'),
    Mutant('offset-minutes-optional', 'R3', 'fire',
           'spyne/model/primitive/datetime.py',
           in_func(None, "OFFSET_PATTERN = r'(?P<tz_hr>[+-]\\d{2}):(?P<tz_min>"
                   "\\d{2})'",
                   "OFFSET_PATTERN = r'(?P<tz_hr>[+-]\\d{2})(?::?(?P<tz_min>"
                   "\\d{2}))?'"), 'TypeError'),
    Mutant('msgpackrpc-asserts-message-type', 'R15', 'fire', _M,
           in_func('MessagePackRpc.decompose_incoming_envelope',
                   "            if message != MessagePackRpc.REQUEST:\n"
                   "                raise MessagePackDecodeError(\"Unexpected "
                   "request message\")\n",
                   "            assert message == MessagePackRpc.REQUEST\n"),
           'assert'),
    Mutant('msgpackrpc-notify-not-implemented', 'R15', 'fire', _M,
           in_func('MessagePackRpc.decompose_incoming_envelope',
                   "raise MessagePackDecodeError(\"Notifications are not "
                   "supported\")", "raise NotImplementedError()"),
           'raise'),
    Mutant('fault-request-let-through', 'R14', 'fire', _S,
           in_func('Soap11.decompose_incoming_envelope',
                   "            if message is self.REQUEST:\n"
                   "                # only a response can carry a fault\n"
                   "                raise Fault('Client.SoapError', 'A request"
                   " can not be a Fault')\n\n", ""), 'fault-request'),
    Mutant('schema-validator-internal-error-escapes', 'R9', 'fire',
           'spyne/protocol/xml.py',
           in_func('XmlDocument.__validate_lxml',
                   "        except etree.XMLSchemaValidateError as e:",
                   "        except KeyError as e:"), 'XMLSchemaValidateError'),
    Mutant('href-table-indexed', 'R13', 'fire', _S,
           in_func('resolve_hrefs', "resolved_element = xmlids.get(ref)",
                   "resolved_element = xmlids[ref]"), 'id-table-indexed'),
    Mutant('href-cycle-unbounded', 'R13', 'fire', _S,
           in_func('resolve_hrefs',
                   "            if ref in _resolving:\n                raise "
                   "Fault('Client.SoapError',\n                              "
                   "          \"Circular reference to id %r\" % (ref,))\n",
                   ""), 'cycle-unbounded'),
    Mutant('child-attribute-member-kind-unchecked', 'R12', 'fire',
           'spyne/protocol/xml.py',
           in_func('XmlDocument.complex_from_element',
                   "            if not issubclass(member, XmlAttribute):"
                   "\n                continue\n", ""), 'no-kind-test'),
    Mutant('repeated-member-scalar-iterated', 'R12', 'fire', _H,
           in_func('HierDictDocument._doc_to_object',
                   "                if not isinstance(v, AbcIterable):\n"
                   "                    raise ValidationError([k, v])\n", ""),
           'iterates'),
    Mutant('json-nesting-not-converted', 'R2', 'fire', 'spyne/protocol/json.py',
           in_func('JsonDocument.create_in_document',
                   "        except RuntimeError as e:", "        except "
                   "NotImplementedError as e:"), 'RecursionError'),
    Mutant('json-decode-error-narrowed', 'R2', 'fire', 'spyne/protocol/json.py',
           lambda src: src.replace("    JSONDecodeError = ValueError\n",
                                   "    from json import JSONDecodeError\n"),
           'ValueError'),
    Mutant('envelope-size-unchecked', 'R11', 'fire',
           'spyne/protocol/dictdoc/_base.py',
           in_func('DictDocument.decompose_incoming_envelope',
                   "if not isinstance(doc, dict) or len(doc) != 1:",
                   "if not isinstance(doc, dict):"), 'missing-guard'),
    Mutant('odict-get-eafp', 'R11', 'fire', 'spyne/util/odict.py',
           in_func('odict.get', "        if key in self:\n"
                   "            return self[key]\n        return default",
                   "        try:\n            return self[key]\n"
                   "        except KeyError:\n            return default"),
           'unchecked-index'),
    Mutant('handler-eager-format', 'R1', 'fire', 'spyne/server/_base.py',
           in_func('ServerBase.get_in_object',
                   'logger.debug("Failed document is: %s", ctx.in_document)',
                   'logger.debug("Failed document is: %s" % '
                   'ctx.in_document)'), 'eager-format'),
    Mutant('handler-format-tuple-wrapped', 'R1', 'benign',
           'spyne/server/_base.py',
           in_func('ServerBase.get_in_object',
                   'logger.debug("Failed document is: %s", ctx.in_document)',
                   'logger.debug("Failed document is: %s" % '
                   '(ctx.in_document,))'), None),
    Mutant('not-found-message-unescaped', 'R10', 'fire', 'spyne/error.py',
           in_func('ResourceNotFoundError.__init__',
                   '"Requested resource %r not found"',
                   '"Requested resource \'%s\' not found"'),
           'raw-placeholder'),
    Mutant('phase-call-before-try', 'R1', 'fire', _B,
           in_func('ServerBase.generate_contexts',
                   r"        try:\n            # sets ctx\.in_document\n"
                   r"            self\.app\.in_protocol\.create_in_document\("
                   r"ctx, in_string_charset\)\n",
                   "        self.app.in_protocol.create_in_document(ctx, "
                   "in_string_charset)\n        try:\n", regex=True),
           'create_in_document'),
    Mutant('deserialize-catches-nothing', 'R1', 'fire', _B,
           in_func('ServerBase.get_in_object',
                   "        except Fault as e:", "        except KeyError as e:"),
           'deserialize'),
    Mutant('yaml-only-parser-error', 'R2', 'fire', _Y,
           in_func('YamlDocument.create_in_document',
                   "except (yaml.YAMLError, UnicodeDecodeError, LookupError, "
                   "ValueError) as e:", "except ParserError as e:"),
           'YamlDocument'),
    Mutant('yaml-constructor-errors-escape', 'R2', 'fire', _Y,
           in_func('YamlDocument.create_in_document',
                   "except (yaml.YAMLError, UnicodeDecodeError, LookupError, "
                   "ValueError) as e:",
                   "except (yaml.YAMLError, UnicodeDecodeError, LookupError) "
                   "as e:"), 'ValueError'),
    Mutant('json-only-decode-error', 'R2', 'fire', _J,
           in_func('JsonDocument.create_in_document',
                   "except (JSONDecodeError, UnicodeDecodeError, LookupError)"
                   " as e:", "except JSONDecodeError as e:"), 'JsonDocument'),
    Mutant('soap-flattened-try', 'R2', 'fire', _S,
           in_func('_parse_xml_string',
                   r"        try:\n            root, xmlids = etree\.XMLID\("
                   r"string, parser\)\n\n        except ValueError as e:\n"
                   r"(.*?)parser\)\n\n    except \(XMLSyntaxError, Unicode"
                   r"DecodeError, LookupError\) as e:",
                   "        root, xmlids = etree.XMLID(string, parser)\n\n"
                   "    except ValueError as e:\n"
                   "        root, xmlids = etree.XMLID(string.encode(charset),"
                   " parser)\n\n"
                   "    except (XMLSyntaxError, UnicodeDecodeError, "
                   "LookupError) as e:", regex=True), 'XMLSyntaxError'),
    Mutant('soap-decode-before-try', 'R2', 'fire', _S,
           in_func('_parse_xml_string',
                   "    try:\n        if charset:\n"
                   "            string = string.decode(charset)\n",
                   "    if charset:\n        string = string.decode(charset)"
                   "\n    try:\n"), 'decode'),
    Mutant('soap-empty-request', 'R2', 'fire', _S,
           in_func('_parse_xml_string', "chunk = next(xml_string, b'')",
                   "chunk = next(xml_string)"), 'StopIteration'),
    Mutant('msgpack-unpack-unguarded', 'R2', 'fire', _M,
           in_func('MessagePackDocument.create_in_document',
                   r"            try:\n                ctx\.in_document = "
                   r"msgpack\.unpackb\(b''\.join\(ctx\.in_string\)\)\n"
                   r"            except ValueError as e:\n"
                   r"                raise MessagePackDecodeError\(str\(e\)\)",
                   "            ctx.in_document = msgpack.unpackb(b''.join("
                   "ctx.in_string))", regex=True), 'unpackb'),
    Mutant('msgpack-error-args-joined', 'R2', 'fire', _M,
           in_func('MessagePackDocument.create_in_document',
                   "raise MessagePackDecodeError(str(e))",
                   "raise MessagePackDecodeError(' '.join(e.args))"),
           'TypeError'),
    Mutant('msgpackrpc-error-args-joined', 'R2', 'fire', _M,
           in_func('MessagePackRpc.create_in_document',
                   "raise MessagePackDecodeError(str(e))",
                   "raise MessagePackDecodeError(''.join(e.args))"),
           'TypeError'),
    Mutant('msgpack-error-args-mapped', 'R2', 'benign', _M,
           in_func('MessagePackRpc.create_in_document',
                   "raise MessagePackDecodeError(str(e))",
                   "raise MessagePackDecodeError(' '.join(str(a) for a in "
                   "e.args))"), None),
    Mutant('syntax-error-server-code', 'R2', 'fire',
           'spyne/protocol/xml.py',
           in_func('XmlDocument.create_in_document',
                   "raise Fault('Client.XMLSyntaxError', str(e))",
                   "raise Fault('Server.XMLSyntaxError', str(e))"),
           'fault-code'),
    Mutant('mime-parse-unguarded', 'R2', 'fire', _MI,
           in_func('_join_attachment',
                   r"    try:\n        soaptree = etree\.fromstring\("
                   r"envelope, parser=parser\)\n    except .*?'%%'\)\)\n",
                   "    soaptree = etree.fromstring(envelope, parser=parser)"
                   "\n", regex=True), '_join_attachment'),
    Mutant('base64-only-typeerror', 'R3', 'fire', _BI,
           in_func('ByteArray.from_base64', "except (TypeError, ValueError):",
                   "except TypeError:"), 'from_base64'),
    Mutant('hex-unguarded', 'R3', 'fire', _BI,
           in_func('ByteArray.from_hex',
                   "        except (TypeError, ValueError):",
                   "        except TypeError:"), 'from_hex'),
    Mutant('time-ctor-unguarded', 'R3', 'fire', _I,
           in_func('InProtocolBase.time_from_unicode',
                   r"        try:\n            return time\((.*?)microsec\)\n"
                   r"        except ValueError:\n            raise "
                   r"ValidationError\(string\)",
                   r"        return time(\1microsec)", regex=True),
           'time_from_unicode'),
    Mutant('offset-unguarded', 'R3', 'fire', _I,
           in_func('InProtocolBase.datetime_from_unicode_iso',
                   r"                try:\n                    tz = Fixed"
                   r"Offset\(tz_hr \* 60 \+ tz_min, \{\}\)\n"
                   r"                except ValueError:\n"
                   r"                    raise ValidationError\(string\)",
                   "                tz = FixedOffset(tz_hr * 60 + tz_min, {})",
                   regex=True), 'FixedOffset'),
    Mutant('datetime-ctor-unguarded', 'R3', 'fire', _I,
           in_func('_parse_datetime_iso_match',
                   r"    try:\n        return datetime\((.*?)\)\n"
                   r"    except ValueError:\n        raise ValidationError"
                   r"\(date_match\.string\)",
                   r"    return datetime(\1)", regex=True),
           '_parse_datetime_iso_match'),
    Mutant('xml-enum-unchecked-getattr', 'R3', 'fire', 'spyne/protocol/xml.py',
           in_func('XmlDocument.enum_from_element',
                   "        if element.text not in cls.__values__:\n"
                   "            raise ValidationError(element.text)\n", ""),
           'enum_from_element'),
    Mutant('enum-unchecked-getattr', 'R3', 'fire', _I,
           in_func('InProtocolBase.enum_base_from_bytes',
                   "        if value not in cls.__values__:\n"
                   "            raise ValidationError(value)\n", ""),
           'enum_base_from_bytes'),
    Mutant('duration-overflow', 'R3', 'fire', _I,
           in_func('InProtocolBase.duration_from_unicode',
                   "        except (ValueError, OverflowError):\n"
                   "            raise ValidationError(string)",
                   "        except ValueError:\n"
                   "            raise ValidationError(string)"),
           'OverflowError'),
    Mutant('duration-digit-limit', 'R3', 'fire', _I,
           in_func('InProtocolBase.duration_from_unicode',
                   "        except (ValueError, OverflowError):\n"
                   "            raise ValidationError(string)",
                   "        except OverflowError:\n"
                   "            raise ValidationError(string)"),
           'ValueError'),
    Mutant('duration-negated-after-the-guard', 'R3', 'fire', _I,
           in_func('InProtocolBase.duration_from_unicode',
                   "            if duration['sign'] == \"-\":\n"
                   "                delta *= -1\n\n"
                   "        except (ValueError, OverflowError):\n"
                   "            raise ValidationError(string)\n",
                   "        except (ValueError, OverflowError):\n"
                   "            raise ValidationError(string)\n\n"
                   "        if duration['sign'] == \"-\":\n"
                   "            delta *= -1\n"), 'OverflowError'),
    Mutant('msgpackrpc-type-as-format-args', 'R15', 'fire', _M,
           in_func('MessagePackRpc.decompose_incoming_envelope',
                   "raise MessagePackDecodeError(\"Unknown message type %r\"\n"
                   "                                                          "
                   "        % (msgtype,))",
                   "raise MessagePackDecodeError(\"Unknown message type %r\" "
                   "% msgtype)"), 'format'),
    Mutant('raw-decode-in-reader', 'R3', 'fire', _I,
           in_func('InProtocolBase.time_from_bytes',
                   "string = self._bytes_to_unicode(string)",
                   "string = string.decode(self.default_string_encoding)"),
           'time_from_bytes'),
    Mutant('decimal-catch-dropped', 'R3', 'fire', _I,
           in_func('InProtocolBase.decimal_from_unicode',
                   "        except InvalidOperation as e:",
                   "        except KeyError as e:"), 'decimal_from_unicode'),
    Mutant('integer-catch-dropped', 'R3', 'fire', _I,
           in_func('InProtocolBase.integer_from_bytes',
                   "        except ValueError:", "        except KeyError:"),
           'integer_from_bytes'),
    Mutant('preformatted-validation-message', 'R7', 'fire', _I,
           in_func('InProtocolBase.decimal_from_unicode',
                   'raise ValidationError(string, "%%r: %r" % e)',
                   'raise ValidationError(string, "Could not cast %r to '
                   'decimal" % (string,))'), 'preformatted'),
    Mutant('twin-decode-helper-inlined-safely', 'R3', 'benign', _I,
           in_func('InProtocolBase.time_from_bytes',
                   "            string = self._bytes_to_unicode(string)",
                   "            try:\n                string = string.decode("
                   "self.default_string_encoding)\n"
                   "            except UnicodeDecodeError:\n"
                   "                raise ValidationError(string)"), ''),
    Mutant('duration-deref-before-test', 'R4', 'fire', _I,
           in_func('InProtocolBase.duration_from_unicode',
                   r"        match = _duration_re\.match\(string\)\n"
                   r"        if match is None:\n(.*?)\n\n"
                   r"        duration = match\.groupdict\(0\)\n",
                   "        duration = _duration_re.match(string).groupdict(0)"
                   "\n", regex=True), 'duration_from_unicode'),
    Mutant('time-no-match-test', 'R4', 'fire', _I,
           in_func('InProtocolBase.time_from_unicode',
                   "        if match is None:\n", "        if False:\n"),
           'time_from_unicode'),
    Mutant('soap-empty-body', 'R4', 'fire', _S,
           in_func('Soap11.decompose_incoming_envelope',
                   "        if body_document is None:\n"
                   "            raise Fault('Client.SoapError', 'Soap body is "
                   "empty!')\n", ""), 'body_document'),
    Mutant('kind-check-skips-falsy', 'R5', 'fire', _H,
           in_func('HierDictDocument.validate',
                   "if inst is None and self.get_cls_attrs(cls).nullable:",
                   "if not inst and self.get_cls_attrs(cls).nullable:"),
           'null-exemption'),
    Mutant('leaf-kind-handler-narrowed', 'R5', 'fire', _H,
           in_func('HierDictDocument._from_leaf',
                   "except (TypeError, AttributeError, ValueError):",
                   "except (TypeError, ValueError):"), 'kind-unchecked'),
    Mutant('leaf-bypasses-helper', 'R5', 'fire', _H,
           in_func('HierDictDocument._from_dict_value',
                   "retval = self._from_leaf(key, cls, inst)",
                   "retval = self.from_serstr(cls, inst)"), 'kind-unchecked'),
    Mutant('leaf-handler-broader', 'R5', 'benign', _H,
           in_func('HierDictDocument._from_leaf',
                   "except (TypeError, AttributeError, ValueError):",
                   "except Exception:"), None),
    Mutant('user-code-despite-in-error', 'R6', 'fire', _W,
           in_func('WsgiApplication.handle_rpc',
                   r"        self\.get_in_object\(p_ctx\)\n"
                   r"        if p_ctx\.in_error:\n"
                   r"            logger\.error\(p_ctx\.in_error\)\n"
                   r"            return self\.handle_error\(p_ctx, others, "
                   r"p_ctx\.in_error,\s*start_response\)\n",
                   "        self.get_in_object(p_ctx)\n", regex=True),
           'in-error-exits'),
]
