"""C07 - WSDL/XSD are well-formed, closed, deterministic.  Claimed: determinism,
closure of names built in two places, one operation per method."""
import ast

from ..core import (AnalysisError, dotted, unparse, calls_in, call_name,
                    walk_no_defs, parent, ancestors, ClassInfo, FuncInfo)
from ..flow import guards_at, flatten_guards, SeqFlow, RETURN, NORMAL
from ..setflow import (set_typed_names, unordered_iterations,
                       class_set_attributes)
from ..mutate import Mutant, in_func
from .. import guardspec

ID = 'C07'
EXPLANATION = (
    'R1 determinism: in spyne/interface/** and util/toposort.py no iteration '
    'over a set-typed expression (set()/set literals/set algebra, attributes '
    'assigned sets anywhere in their class such as Interface.imports[ns] and '
    'Interface.deps[cls]) reaches an emitter (SubElement/append/set/yield/'
    'prefix allocation) unless it is wrapped in sorted(). R2 closure of names '
    'built at two sites: message definitions and the references to them '
    '(portType input/output/fault, soap:header) are built by the same naming '
    'method on the same descriptor role; multi-header message names use the '
    'same base attribute and suffix at the definition and at the reference; '
    'binding type and port binding reuse the portType / binding names. '
    'R3 one operation per method: portType and binding emitters iterate the '
    'same public_methods and create exactly one operation element per '
    'method on every path. R4 namespace prefix allocation probes the map that '
    'is keyed by prefixes. Not decided: well-formedness and global QName '
    'resolution of an actual document; foreign-client interop.')
ASSUMPTIONS = ['sorted() over namespace strings is deterministic',
               'dict iteration order is insertion order (Python 3.7+)']
LEVEL_TEXT = (
    'Static set-iteration analysis of the interface generators, naming '
    'expression agreement between definition and reference sites, and '
    'per-method path counting of operation elements. Decides determinism and '
    'the name-agreement clause for every generator function; does not '
    'render documents.')
LEVEL_NOTE = ('Trusted: insertion-ordered dicts. Keyed sorts over sets whose '
              'key does not separate distinct classes (repr) are reported; '
              'the binding-namespace decision list is evaluated over the '
              'folded protocol type sets.')
TECHNIQUE = ('set-typed iteration analysis + naming-expression agreement + '
             'path counting + finite-domain evaluation of constant tables + '
             'guard entailment (ast)')

WSDL = 'spyne.interface.wsdl.wsdl11:Wsdl11'


def rule_r1(prog, res, tier):
    res.rule('R1', 'no unordered iteration reaches an emitter in the '
             'interface generators')
    itf = prog.cls('spyne.interface._base:Interface')
    shared = class_set_attributes(itf.node)
    res.count('interface_set_attributes', len(shared))
    # facets the model layer stores as sets: iterating them in an emitter
    # is as unordered as iterating an interface set
    model_sets = set()
    for mn_ in ('spyne.model._base', 'spyne.model.complex',
                'spyne.model.primitive._base'):
        mm = prog.modules.get(mn_)
        if mm is None:
            continue
        for f_ in mm.functions.values():
            for a_ in walk_no_defs(f_.node):
                if isinstance(a_, ast.Assign) and len(a_.targets) == 1 and \
                        isinstance(a_.targets[0], ast.Attribute) and \
                        unparse(a_.targets[0].value).endswith('Attributes'):
                    from ..setflow import is_set_expr as _ise
                    if _ise(a_.value):
                        model_sets.add(a_.targets[0].attr)
    res.count('model_set_facets', len(model_sets))
    shared = set(shared) | model_sets
    if not {'imports[]', 'deps[]'} <= shared:
        raise AnalysisError('Interface set attributes', 'expected imports[] '
                            'and deps[] to be recognised as sets, got %s' %
                            sorted(shared))
    # the generators of the published documents; genpy (schema -> python
    # source) and parser (reads foreign schemas) do not produce WSDL/XSD
    mods = [m for m in prog.modules if (m.startswith('spyne.interface') and
            not m.endswith('.genpy') and not m.endswith('.parser')) or
            m == 'spyne.util.toposort']
    # confirmed by reading: (function, iterated expression) -> reason
    allow = {
        ('toposort2', 'extra_items_in_deps'):
            'fills a dict that is only consumed through set(...) and '
            'sorted(..., key=repr) in the same function',
    }
    n_funcs = n_found = n_sorted = 0
    for mn in sorted(mods):
        m = prog.modules[mn]
        for f in m.functions.values():
            n_funcs += 1
            cattrs = set(shared)
            if f.cls is not None:
                cattrs |= class_set_attributes(f.cls.node)
            names = set_typed_names(f.node, cattrs)
            for node, it, sinks in unordered_iterations(f.node, names,
                                                        cattrs):
                if (f.qualname, unparse(it)) in allow:
                    res.ob('R1', '%s:%d' % (m.relpath, it.lineno),
                           '%s iterates %s [allowed: %s]' % (
                               f.qualname, unparse(it), allow[(
                                   f.qualname, unparse(it))]), 'ok',
                           nontrivial=False)
                    continue
                n_found += 1
                where = '%s:%d' % (m.relpath, getattr(node, 'lineno', it.lineno))
                res.ob('R1', where, '%s iterates the set %s into %s' % (
                    f.qualname, unparse(it)[:50], sinks), 'VIOLATED')
                res.finding('R1', '%s|set-iteration|%s' % (
                    f.qualname, unparse(it)[:50]), where,
                    '%s iterates over the set-typed %s and the order '
                    'reaches %s: the generated document depends on the hash '
                    'seed' % (f.qualname, unparse(it)[:60],
                              ', '.join(sinks)))
            # count the sorted() wrappers that make set iteration safe
            for node in walk_no_defs(f.node):
                if isinstance(node, ast.Call) and call_name(node) == \
                        'sorted' and node.args:
                    from ..setflow import is_set_expr
                    if is_set_expr(node.args[0], names, cattrs):
                        n_sorted += 1
                        res.ob('R1', '%s:%d' % (m.relpath, node.lineno),
                               '%s: sorted(%s)' % (f.qualname, unparse(
                                   node.args[0])[:50]), 'ok')
    res.count('functions', n_funcs)
    res.floor('R1', 'generator functions scanned', n_funcs, 60)
    res.floor('R1', 'sorted() over sets (safe iterations)', n_sorted, 2)
    res.ob('R1', 'spyne/interface/**', '%d functions scanned, %d unordered '
           'iterations into emitters, %d made safe by sorted()' % (
               n_funcs, n_found, n_sorted), 'ok' if not n_found else
           'VIOLATED')


def _local_values(fnode, name):
    return [n.value for n in walk_no_defs(fnode) if isinstance(n, ast.Assign)
            and any(unparse(t) == name for t in n.targets)]


def _norm_header_name(expr):
    """Normal form of a header message name expression."""
    t = unparse(expr).replace(' ', '')
    if isinstance(expr, ast.Call) and call_name(expr) == 'join' and \
            expr.args and isinstance(expr.args[0], (ast.Tuple, ast.List)):
        parts = [unparse(e) for e in expr.args[0].elts]
        return 'join:' + '+'.join(parts)
    if isinstance(expr, ast.Call) and call_name(expr) == 'get_type_name':
        return 'first.get_type_name'
    return t


def _tns_qname(fnode, expr):
    """The local-name expression (text) of ``'%s:%s' % (P, NAME)`` when P is
    the prefix of the interface's target namespace; None otherwise."""
    if not (isinstance(expr, ast.BinOp) and isinstance(expr.op, ast.Mod) and
            isinstance(expr.left, ast.Constant) and
            expr.left.value == '%s:%s' and
            isinstance(expr.right, ast.Tuple) and len(expr.right.elts) == 2):
        return None
    pref, name = expr.right.elts
    vals = [pref]
    if isinstance(pref, ast.Name):
        vals = _local_values(fnode, pref.id)
    if not vals:
        return None
    for v in vals:
        t = unparse(v).replace(' ', '')
        if isinstance(v, ast.Constant) and v.value == 'tns':
            continue
        if t in ('self.interface.get_namespace_prefix(self.interface.'
                 'get_tns())', 'self.interface.get_namespace_prefix(self.'
                 'interface.tns)'):
            continue
        if isinstance(v, ast.Name) and v.id == 'ns_tns':
            continue
        if t == 'self.interface.get_namespace_prefix(ns_tns)' and all(
                unparse(x).replace(' ', '') in (
                    'self.interface.get_tns()', 'self.interface.tns')
                for x in _local_values(fnode, 'ns_tns')):
            continue
        return None
    return unparse(name).replace(' ', '')


def _resolved(fnode, expr):
    """Texts an expression may denote, following one local assignment."""
    if isinstance(expr, ast.Name):
        vs = _local_values(fnode, expr.id)
        if vs:
            return {unparse(v).replace(' ', '') for v in vs}
    return {unparse(expr).replace(' ', '')}


def rule_r2(prog, res):
    res.rule('R2', 'names built at a definition site and at a reference '
             'site agree')
    w = prog.cls(WSDL)
    am = w.methods.get('add_messages_for_methods')
    ab = w.methods.get('add_bindings_for_methods')
    ap = w.methods.get('add_port_type')
    if am is None or ab is None or ap is None:
        raise AnalysisError('Wsdl11 emitters', 'not found')
    inner = None
    for q, f in w.module.functions.items():
        if q.endswith('add_bindings_for_methods.inner'):
            inner = f
    scope_b = inner if inner is not None else ab
    for var in ('in_header_message_name', 'out_header_message_name'):
        d = {_norm_header_name(v) for v in _local_values(am.node, var)}
        r = {_norm_header_name(v) for v in _local_values(scope_b.node, var)}
        ok = bool(d) and d == r
        res.ob('R2', scope_b.where, '%s: definition %s, reference %s' % (
            var, sorted(d), sorted(r)), 'ok' if ok else 'VIOLATED')
        if not ok:
            res.finding('R2', 'Wsdl11|%s|%s|%s' % (var, sorted(d), sorted(r)),
                        scope_b.where, 'the %s is built as %s where the '
                        'wsdl:message is defined (add_messages_for_methods) '
                        'but as %s where soap:header refers to it '
                        '(add_bindings_for_methods): the reference dangles '
                        'when the two differ' % (var.replace('_', ' '),
                                                 sorted(d), sorted(r)))
    # messages for in/out: definition name vs @message reference
    defs = {}
    for c in calls_in(am.node):
        if call_name(c) == '_add_message_for_object' and len(c.args) >= 4:
            role = unparse(c.args[2])
            defs[role] = unparse(c.args[3]).replace(' ', '')
    refs = {}
    for c in calls_in(ap.node):
        if call_name(c) == 'set' and len(c.args) == 2 and isinstance(
                c.args[0], ast.Constant) and c.args[0].value == 'message':
            t = unparse(c.args[1]).replace(' ', '')
            for role in ('method.in_message', 'method.out_message'):
                if (role + '.') in t:
                    q = _tns_qname(ap.node, c.args[1])
                    refs[role] = ('tns:' + q) if q is not None else t
    for role in ('method.in_message', 'method.out_message'):
        d = defs.get(role)
        r = refs.get(role)
        # wsdl:message elements are children of the definitions element, so
        # their QName is {tns}name whatever the namespace of the class is
        ok = d == role + '.get_element_name()' and r == 'tns:' + d
        res.ob('R2', ap.where, '%s: message named %s, referenced as %s' % (
            role, d, r), 'ok' if ok else 'VIOLATED')
        if not ok:
            res.finding('R2', 'Wsdl11|message|%s|%s|%s' % (role, d, r),
                        ap.where, 'the wsdl:message of %s is named %s (in '
                        'the target namespace of the definitions) but '
                        'referenced as %s: expected the same name qualified '
                        'with the prefix of the target namespace; a message '
                        'class with its own namespace gets a dangling '
                        'reference' % (role, d, r))
    # operation names: portType and binding use the same attribute
    def op_names(f):
        out = set()
        for c in calls_in(f.node):
            if call_name(c) == 'set' and len(c.args) == 2 and isinstance(
                    c.args[0], ast.Constant) and c.args[0].value == 'name' \
                    and unparse(c.func.value) == 'operation':
                out.add(unparse(c.args[1]))
        return out
    pn, bn = op_names(ap), op_names(scope_b)
    ok = pn == bn == {'method.operation_name'}
    res.ob('R2', ap.where, 'operation names: portType %s, binding %s' % (
        sorted(pn), sorted(bn)), 'ok' if ok else 'VIOLATED')
    if not ok:
        res.finding('R2', 'Wsdl11|operation-name|%s|%s' % (sorted(pn),
                                                           sorted(bn)),
                    ap.where, 'portType operations are named %s but binding '
                    'operations %s' % (sorted(pn), sorted(bn)))
    # input/output names inside operations agree between portType and binding
    def io_names(f, var):
        out = set()
        for c in calls_in(f.node):
            if call_name(c) == 'set' and len(c.args) == 2 and isinstance(
                    c.args[0], ast.Constant) and c.args[0].value == 'name' \
                    and unparse(c.func.value) == var:
                out.add(unparse(c.args[1]).replace(' ', ''))
        return out
    for pv, bv in (('op_input', 'input'), ('op_output', 'output')):
        a, b = io_names(ap, pv), io_names(scope_b, bv)
        ok = bool(a) and a == b
        res.ob('R2', ap.where, '%s names: portType %s, binding %s' % (
            bv, sorted(a), sorted(b)), 'ok' if ok else 'VIOLATED')
        if not ok:
            res.finding('R2', 'Wsdl11|%s-name|%s|%s' % (bv, sorted(a),
                                                        sorted(b)), ap.where,
                        'wsdl:%s is named %s in the portType but %s in the '
                        'binding' % (bv, sorted(a), sorted(b)))
    # binding name / type and port binding
    names, types = set(), set()
    for c in calls_in(ab.node):
        if call_name(c) == 'set' and len(c.args) == 2 and isinstance(
                c.args[0], ast.Constant) and unparse(c.func.value) == \
                'binding':
            if c.args[0].value == 'name':
                names |= _resolved(ab.node, c.args[1])
            elif c.args[0].value == 'type':
                q = _tns_qname(ab.node, c.args[1])
                types.add('tns:' + q if q is not None else unparse(c.args[1]))
    ok = names == {'self._get_binding_name(port_type_name)'} and \
        types == {'tns:port_type_name'}
    res.ob('R2', ab.where, 'binding name %s, binding type %s' % (
        sorted(names), sorted(types)), 'ok' if ok else 'VIOLATED')
    if not ok:
        res.finding('R2', 'Wsdl11.add_bindings_for_methods|binding-names',
                    ab.where, 'the binding element is named %s and typed %s, '
                    'not _get_binding_name(port_type_name) / tns:'
                    'port_type_name, which is how add_port_type refers to it'
                    % (sorted(names), sorted(types)))
    t = unparse(ap.node).replace(' ', '')
    ok = 'binding_name=self._get_binding_name(port_type_name)' in t and \
        'binding_name=self._get_binding_name(service_name)' in t
    res.ob('R2', ap.where, 'ports refer to _get_binding_name(...)',
           'ok' if ok else 'VIOLATED')
    if not ok:
        res.finding('R2', 'Wsdl11.add_port_type|port-binding', ap.where,
                    'service ports no longer refer to bindings through '
                    '_get_binding_name')
    # fault message definition vs reference
    fd = [unparse(c.args[3]) for c in calls_in(am.node)
          if call_name(c) == '_add_message_for_object' and len(c.args) >= 4
          and unparse(c.args[2]) == 'fault']
    fr = [unparse(c.args[1]) for c in calls_in(ap.node)
          if call_name(c) == 'set' and len(c.args) == 2 and isinstance(
              c.args[0], ast.Constant) and c.args[0].value == 'message' and
          unparse(c.func.value) == 'fault']
    ok = fd == ['fault.get_type_name()'] and len(fr) == 1 and \
        'f.get_type_name()' in fr[0] and 'get_namespace_prefix' in fr[0]
    res.ob('R2', ap.where, 'fault message %s referenced as %s' % (fd, fr),
           'ok' if ok else 'VIOLATED')
    if not ok:
        res.finding('R2', 'Wsdl11|fault-message|%s|%s' % (fd, fr), ap.where,
                    'fault messages are defined as %s but referenced as %s' %
                    (fd, fr))


def rule_r3(prog, res):
    res.rule('R3', 'exactly one operation element per public method in '
             'portType and binding')
    w = prog.cls(WSDL)
    ap = w.methods['add_port_type']
    loops = [n for n in walk_no_defs(ap.node) if isinstance(n, ast.For) and
             unparse(n.iter) == 'service.public_methods.values()']
    res.floor('R3', 'method loops in add_port_type', len(loops), 1)
    for lp in loops:
        def classify(call):
            if call_name(call) in ('SubElement', 'Element') and any(
                    'WSDL11' in unparse(a) and "'operation'" in unparse(
                        a).replace('"', "'") for a in call.args):
                return ('OP',), False
            return (), False
        sf = SeqFlow(classify)
        r = sf.block(lp.body, {()})
        seqs = set()
        for k in (NORMAL, 'continue'):
            seqs |= r.get(k, set())
        counts = sorted({q.count('OP') for q in seqs})
        ok = counts == [1]
        where = '%s:%d' % (ap.module.relpath, lp.lineno)
        res.ob('R3', where, 'add_port_type: operation elements per method on '
               'each path: %s' % counts, 'ok' if ok else 'VIOLATED')
        if not ok:
            res.finding('R3', 'Wsdl11.add_port_type|operations-per-method|%s'
                        % counts, where, 'a public method gets %s portType '
                        'operation elements on some path (must be exactly '
                        'one)' % counts)
    ab = w.methods['add_bindings_for_methods']
    inner = [f for q, f in w.module.functions.items()
             if q.endswith('add_bindings_for_methods.inner')]
    if inner:
        n_el = len([c for c in calls_in(inner[0].node)
                    if call_name(c) in ('Element', 'SubElement') and any(
                        'WSDL11' in unparse(a) and 'operation' in unparse(a)
                        for a in c.args)])
        n_app = len([c for c in calls_in(inner[0].node) if call_name(c) ==
                     'append' and unparse(c.args[0]) == 'operation'])
        ok = n_el == 1 and n_app >= 1
        res.ob('R3', inner[0].where, 'binding inner(): creates %d operation '
               'element, appends it at %d sites' % (n_el, n_app),
               'ok' if ok else 'VIOLATED')
        if not ok:
            res.finding('R3', 'Wsdl11.add_bindings_for_methods|operation',
                        inner[0].where, 'the binding operation element is '
                        'created %d times / appended %d times' % (n_el,
                                                                  n_app))
        # every append is on exclusive branches: path count
        def classify2(call):
            if call_name(call) == 'append' and call.args and unparse(
                    call.args[0]) == 'operation':
                return ('APP',), False
            return (), False
        seqs = SeqFlow(classify2).run(inner[0].node).get(RETURN, set())
        counts = sorted({q.count('APP') for q in seqs})
        ok = counts == [1]
        res.ob('R3', inner[0].where, 'binding operation appended per path: '
               '%s' % counts, 'ok' if ok else 'VIOLATED')
        if not ok:
            res.finding('R3', 'Wsdl11.add_bindings_for_methods|append-count|'
                        '%s' % counts, inner[0].where, 'a binding operation '
                        'is appended %s times on some path' % counts)
    loops = [n for n in walk_no_defs(ab.node) if isinstance(n, ast.For) and
             unparse(n.iter) == 'service.public_methods.values()']
    ok = len(loops) >= 1 and all(any(call_name(c) == 'inner'
                                     for c in calls_in(l)) for l in loops)
    res.ob('R3', ab.where, 'binding emitter iterates '
           'service.public_methods.values() (%d loops)' % len(loops),
           'ok' if ok else 'VIOLATED')
    if not ok:
        res.finding('R3', 'Wsdl11.add_bindings_for_methods|iteration',
                    ab.where, 'bindings are no longer generated from '
                    'service.public_methods.values()')


def rule_r4(prog, res):
    res.rule('R4', 'prefix allocation probes the prefix-keyed map')
    itf = prog.cls('spyne.interface._base:Interface')
    f = itf.methods.get('get_namespace_prefix')
    if f is None:
        raise AnalysisError('Interface.get_namespace_prefix', 'not found')
    keyvar = {}
    for n in walk_no_defs(f.node):
        if isinstance(n, ast.Assign) and isinstance(n.targets[0],
                                                    ast.Subscript):
            m = unparse(n.targets[0].value)
            k = unparse(n.targets[0].slice)
            keyvar[m] = k
    res.floor('R4', 'maps written in get_namespace_prefix', len(keyvar), 2)
    n = 0
    for c in walk_no_defs(f.node):
        if isinstance(c, ast.Compare) and len(c.ops) == 1 and isinstance(
                c.ops[0], (ast.In, ast.NotIn)) and isinstance(c.left,
                                                              ast.Name):
            m = unparse(c.comparators[0])
            if m not in keyvar:
                continue
            n += 1
            where = '%s:%d' % (f.module.relpath, c.lineno)
            ok = keyvar[m] == c.left.id
            res.ob('R4', where, 'get_namespace_prefix: %s (map keyed by %s)' %
                   (unparse(c), keyvar[m]), 'ok' if ok else 'VIOLATED')
            if not ok:
                res.finding('R4', 'Interface.get_namespace_prefix|probe|%s' %
                            unparse(c), where, 'the membership test %s looks '
                            'a %s up in a map that is keyed by %s: the '
                            'collision probe never matches, so a prefix that '
                            'is already taken is handed out again' % (
                                unparse(c), c.left.id, keyvar[m]))
    res.floor('R4', 'membership probes', n, 2)
    # counter advances inside the probe loop
    loops = [l for l in walk_no_defs(f.node) if isinstance(l, ast.While)]
    ok = bool(loops) and all(any(isinstance(s, ast.AugAssign)
                                 for s in ast.walk(l)) for l in loops)
    res.ob('R4', f.where, 'the collision loop advances the counter',
           'ok' if ok else 'VIOLATED')
    if not ok:
        res.finding('R4', 'Interface.get_namespace_prefix|counter', f.where,
                    'the prefix collision loop does not advance the counter')


# ------------------------------------------------------------------- R5
def rule_r5(prog, res):
    res.rule('R5', 'the WSDL root copies interface.nsmap only after the '
             'schema generators (which can still allocate prefixes) ran')
    c = prog.cls('spyne.interface.wsdl.wsdl11:Wsdl11')
    f = c.methods.get('build_interface_document')
    if f is None:
        raise AnalysisError('Wsdl11.build_interface_document', 'not found')
    gen = [x for x in calls_in(f.node) if call_name(x) == 'build_schema_nodes']
    cp = [x for x in calls_in(f.node) if any(
        k.arg == 'nsmap' and 'nsmap' in unparse(k.value) for k in x.keywords)]
    res.floor('R5', 'schema generation calls in build_interface_document',
              len(gen), 1)
    res.floor('R5', 'root elements created from interface.nsmap', len(cp), 1)
    if not gen or not cp:
        return
    for x in cp:
        where = '%s:%d' % (f.module.relpath, x.lineno)
        ok = all(g.lineno < x.lineno for g in gen) and not any(
            guards_at(g, stop=f.node) for g in gen)
        res.ob('R5', where, 'build_interface_document: %s at line %d, '
               'build_schema_nodes() at line(s) %s' % (
                   unparse(x)[:50], x.lineno, [g.lineno for g in gen]),
               'ok' if ok else 'VIOLATED', nontrivial=True)
        if not ok:
            res.finding('R5', 'Wsdl11.build_interface_document|nsmap-before-'
                        'schema', where, 'the root element copies '
                        'interface.nsmap (lxml copies nsmap at creation) '
                        'before build_schema_nodes() has run: prefixes '
                        'allocated while the schemas are generated are '
                        'missing from the root, lxml invents ns0/ns1 '
                        'declarations, and QName references written as text '
                        '(type="s0:Foo") use prefixes the document never '
                        'declares')


# ------------------------------------------------------------------- R6
def rule_r6(prog, res):
    res.rule('R6', 'fault messages are defined and referenced in the same '
             'namespace')
    w = prog.cls('spyne.interface.wsdl.wsdl11:Wsdl11')
    refs = []
    for nm, f in sorted(w.methods.items()):
        for x in calls_in(f.node):
            if call_name(x) == 'set' and len(x.args) == 2 and isinstance(
                    x.args[0], ast.Constant) and x.args[0].value == 'message':
                t = unparse(x.args[1])
                for a in ancestors(x):
                    if isinstance(a, ast.For) and 'faults' in unparse(a.iter):
                        refs.append((f, x, t))
                        break
    res.floor('R6', 'fault message references in the WSDL generator',
              len(refs), 1)
    # header message references: headers keep their own namespace (nothing
    # moves them into tns), so the reference must use the tns prefix
    hrefs = []
    for nm, f in sorted(w.module.functions.items()):
        if not nm.startswith('Wsdl11.'):
            continue
        for x in calls_in(f.node):
            if call_name(x) == 'set' and len(x.args) == 2 and isinstance(
                    x.args[0], ast.Constant) and x.args[0].value == 'message':
                for a in ancestors(x):
                    if isinstance(a, ast.For) and 'header' in unparse(
                            a.iter):
                        hrefs.append((f, x, unparse(x.args[1])))
                        break
    res.floor('R6', 'header message references in the WSDL generator',
              len(hrefs), 2)
    for f, x, t in hrefs:
        where = '%s:%d' % (f.module.relpath, x.lineno)
        ok = 'get_namespace_prefix' not in t and 'pref_tns' in t
        res.ob('R6', where, '%s: header message reference %s' % (
            f.qualname, t[:60]), 'ok' if ok else 'VIOLATED', nontrivial=True)
        if not ok:
            res.finding('R6', '%s|header-message-prefix' % f.qualname, where,
                        '%s refers to the header message as %s: wsdl:message '
                        'elements are defined in the target namespace, so '
                        'for a header class of another namespace the QName '
                        'does not resolve' % (f.qualname, t[:70]))
    own_prefix = [r for r in refs if 'get_namespace_prefix' in r[2] and
                  'pref_tns' not in r[2]]
    itf = prog.cls('spyne.interface._base:Interface')
    am = itf.methods.get('add_method')
    if am is None:
        raise AnalysisError('Interface.add_method', 'not found')
    forced = []
    for a in walk_no_defs(am.node):
        if isinstance(a, ast.Assign) and any(
                isinstance(t, ast.Attribute) and t.attr == '__namespace__'
                for t in a.targets) and 'get_tns' in unparse(a.value):
            for l in ancestors(a):
                if isinstance(l, ast.For) and 'faults' in unparse(l.iter):
                    forced.append(a)
                    break
    for f, x, t in refs:
        where = '%s:%d' % (f.module.relpath, x.lineno)
        needs = (f, x, t) in own_prefix
        ok = not needs or bool(forced)
        res.ob('R6', where, '%s: fault message reference %s; messages are '
               'defined in the target namespace; add_method %s' % (
                   f.qualname, t[:60], 'forces faults into tns' if forced
                   else 'does not force faults into tns'),
               'ok' if ok else 'VIOLATED', nontrivial=True)
        if not ok:
            res.finding('R6', 'Interface.add_method|fault-namespace', am.where,
                        '%s refers to the fault message with the prefix of '
                        'the fault\'s own namespace, but wsdl:message '
                        'elements are defined in the target namespace and '
                        'Interface.add_method no longer moves faults there: '
                        'for a fault class declared in another namespace the '
                        'message QName does not resolve' % f.qualname)


# ------------------------------------------------------------------- R7
def rule_r7(prog, res):
    res.rule('R7', 'every non-auxiliary method gets its message elements, '
             'whatever its body style')
    c = prog.cls('spyne.interface.xml_schema._base:XmlSchema')
    f = c.methods.get('add_missing_elements_for_methods')
    if f is None:
        raise AnalysisError('XmlSchema.add_missing_elements_for_methods',
                            'not found')
    ys = [n for n in ast.walk(f.node) if isinstance(n, ast.Yield)]
    if not ys:
        # direct loop form: look for the loop over public_methods
        ys = [n for n in ast.walk(f.node) if isinstance(n, ast.For) and
              'missing_methods' in unparse(n.iter)]
    res.floor('R7', 'method selection sites', len(ys), 1)
    for y in ys:
        inner = y
        while parent(inner) is not None and not isinstance(
                parent(inner), (ast.FunctionDef,)):
            inner = parent(inner)
        stop = parent(inner) if parent(inner) is not None else f.node
        guardspec.check(res, 'R7', f, y, 'the selection of methods that get '
                        'schema elements', allowed=[('method.aux is None', True)],
                        key='XmlSchema.add_missing_elements_for_methods|'
                        'selection')


# ------------------------------------------------------------------- R8
def rule_r8(prog, res):
    res.rule('R8', 'base namespaces are recognised against the constant '
             'table, and wsdl:message de-duplication spans the document')
    itf = prog.cls('spyne.interface._base:Interface')
    f = itf.methods.get('is_valid_import')
    if f is None:
        raise AnalysisError('Interface.is_valid_import', 'not found')
    n = 0
    for c in walk_no_defs(f.node):
        if isinstance(c, ast.Compare) and isinstance(
                c.ops[0], (ast.In, ast.NotIn)):
            n += 1
            cont = c.comparators[0]
            d = dotted(cont) or unparse(cont)
            head = d.split('.')[0]
            target = f.module.imports.get(head, '')
            const = head != 'self' and (target.startswith('spyne.const') or
                                        d.isupper())
            where = '%s:%d' % (f.module.relpath, c.lineno)
            res.ob('R8', where, 'is_valid_import tests membership in %s (%s)'
                   % (d, target or 'local'), 'ok' if const else 'VIOLATED')
            if not const:
                res.finding('R8', 'Interface.is_valid_import|table|%s' % d,
                            where, 'is_valid_import looks the namespace up '
                            'in %s, the per-application table that also '
                            'holds the target namespace and every user '
                            'namespace, instead of the constant table of '
                            'base namespaces: imports of application '
                            'namespaces are no longer recorded, and schemas '
                            'refer to types of namespaces they do not '
                            'import' % d)
    res.floor('R8', 'membership tests in is_valid_import', n, 1)
    # one de-duplication set for all services
    w = prog.cls(WSDL)
    b = w.methods.get('build_interface_document')
    am = w.methods.get('add_messages_for_methods')
    if b is None or am is None:
        raise AnalysisError('Wsdl11', 'build_interface_document / '
                            'add_messages_for_methods not found')
    calls = [c for c in calls_in(b.node)
             if call_name(c) == 'add_messages_for_methods']
    res.floor('R8', 'add_messages_for_methods calls', len(calls), 1)
    ps = [p_ for p_ in am.params() if p_ != 'self']
    for c in calls:
        where = '%s:%d' % (b.module.relpath, c.lineno)
        arg = None
        if 'messages' in ps:
            i = ps.index('messages')
            if i < len(c.args):
                arg = c.args[i]
        for k in c.keywords:
            if k.arg == 'messages':
                arg = k.value
        ok = False
        why = 'no de-duplication set is passed'
        if isinstance(arg, ast.Name):
            loops = [a for a in ancestors(c) if isinstance(a, (ast.For,
                                                               ast.While))]
            defs = [a for a in walk_no_defs(b.node) if isinstance(
                a, ast.Assign) and any(isinstance(t, ast.Name) and
                                       t.id == arg.id for t in a.targets)]
            inside = [d_ for d_ in defs if any(
                l_ in list(ancestors(d_)) for l_ in loops)]
            ok = bool(defs) and not inside
            why = 'the set is created inside the services loop' if inside \
                else 'the set is never created'
        res.ob('R8', where, 'build_interface_document: %s' % unparse(c)[:60],
               'ok' if ok else 'VIOLATED')
        if not ok:
            res.finding('R8', 'Wsdl11.build_interface_document|message-set',
                        where, 'wsdl:message de-duplication is per service, '
                        'not per document (%s): two services sharing a '
                        'header or fault class emit the same wsdl:message '
                        'twice, so the QName reference is ambiguous' % why)


# ------------------------------------------------------------------- R9
def rule_r9(prog, res):
    res.rule('R9', 'the schema writer renders every class once: the set that '
             'suppresses repeats is keyed by the class itself')
    x = prog.cls('spyne.interface.xml_schema._base:XmlSchema')
    f = x.methods.get('add')
    if f is None:
        raise AnalysisError('XmlSchema.add', 'not found')
    ps = [p_ for p_ in f.params() if p_ != 'self']
    clsname, setname = ps[0], ps[1]
    adds = [c for c in calls_in(f.node) if isinstance(c.func, ast.Attribute)
            and c.func.attr == 'add' and unparse(c.func.value) == setname]
    tests = [c for c in ast.walk(f.node) if isinstance(c, ast.Compare) and
             len(c.ops) == 1 and isinstance(c.ops[0], (ast.In, ast.NotIn))
             and unparse(c.comparators[0]) == setname]
    res.floor('R9', 'de-duplication set updates in XmlSchema.add', len(adds),
              1)
    res.floor('R9', 'de-duplication membership tests in XmlSchema.add',
              len(tests), 1)
    for what, nodes, key in (('adds', adds, lambda c: c.args[0]),
                             ('tests', tests, lambda c: c.left)):
        for c in nodes:
            k = unparse(key(c))
            ok = k == clsname
            where = '%s:%d' % (f.module.relpath, c.lineno)
            res.ob('R9', where, 'XmlSchema.add %s %s with key %s' % (
                what, setname, k), 'ok' if ok else 'VIOLATED')
            if not ok:
                res.finding('R9', 'XmlSchema.add|dedup-key|%s' % what, where,
                            'XmlSchema.add suppresses repeats by %s instead '
                            'of by class: two classes with the same local '
                            'name (customized variants, or same-named classes '
                            'of two namespaces) collapse into one entry, so '
                            'one of them is never rendered and references to '
                            'it dangle or carry the wrong facets' % k)


# ------------------------------------------------------------------ R10
def rule_r10(prog, res):
    res.rule('R10', 'every class that enters the registry also gets a node '
             'in the dependency graph the schema is rendered from')
    i = prog.cls('spyne.interface._base:Interface')
    f = i.methods.get('add_class')
    if f is None:
        raise AnalysisError('Interface.add_class', 'not found')
    stores = [a for a in walk_no_defs(f.node) if isinstance(a, ast.Assign)
              and any(isinstance(t, ast.Subscript) and
                      unparse(t.value) == 'self.classes' for t in a.targets)]
    res.floor('R10', 'registry stores in Interface.add_class', len(stores), 1)
    first = min(stores, key=lambda a: a.lineno)
    need = set(guardspec.atoms_at(first, f.node))
    nodes = [e for e in walk_no_defs(f.node) if isinstance(e, ast.Subscript)
             and unparse(e.value) == 'self.deps' and
             unparse(e.slice) == unparse(first.value)]
    covering = []
    for e in nodes:
        st = e
        while not isinstance(st, ast.stmt):
            st = st._parent
        extra = set(guardspec.atoms_at(st, f.node)) - need
        if not extra:
            covering.append(e)
    ok = bool(covering)
    res.ob('R10', f.where, 'Interface.add_class: %d accesses of self.deps[%s]'
           ', %d of them run whenever the class is registered' % (
               len(nodes), unparse(first.value), len(covering)),
           'ok' if ok else 'VIOLATED')
    if not ok:
        res.finding('R10', 'Interface.add_class|deps-node', f.where,
                    'a class is stored in self.classes without touching '
                    'self.deps[%s] on the same path: classes without parent '
                    'and fields (simple types, empty complex types) get no '
                    'node in the dependency graph, are never rendered, and '
                    'the references to them dangle' % unparse(first.value))


# ------------------------------------------------------------------ R11
def rule_r11(prog, res):
    res.rule('R11', 'a service is auxiliary when any of its methods is: the '
             'flag is_auxiliary() returns is set per method, so the WSDL '
             'skips auxiliary services')
    m = prog.cls('spyne.service:ServiceMeta')
    g = m.methods.get('is_auxiliary')
    f = m.methods.get('__init__')
    if g is None or f is None:
        raise AnalysisError('ServiceMeta', 'is_auxiliary/__init__ not found')
    rets = [r for r in walk_no_defs(g.node) if isinstance(r, ast.Return)]
    if len(rets) != 1 or not isinstance(rets[0].value, ast.Attribute):
        res.unclassified.append('R11 is_auxiliary no longer returns a plain '
                                'attribute: %s' % [unparse(r) for r in rets])
        return
    attr = unparse(rets[0].value)
    loops = [l for l in walk_no_defs(f.node) if isinstance(l, ast.For) and
             'cls_dict' in unparse(l.iter)]
    res.floor('R11', 'method loops in ServiceMeta.__init__', len(loops), 1)
    loop = loops[0]

    def stores(name, region):
        return [a for a in region if isinstance(a, ast.Assign) and
                any(unparse(t) == name for t in a.targets)]
    inloop = [n_ for b in loop.body for n_ in ast.walk(b)]
    after = [n_ for n_ in walk_no_defs(f.node) if isinstance(n_, ast.stmt)
             and n_.lineno > loop.end_lineno]

    def per_method(name):
        for a in stores(name, inloop):
            atoms = guardspec.atoms_at(a, loop)
            if any('.aux' in t for t, _ in atoms) and isinstance(
                    a.value, ast.Constant) and a.value.value is True:
                return a
        return None
    hit = per_method(attr)
    if hit is None:
        for a in stores(attr, after):
            if isinstance(a.value, ast.Name) and per_method(a.value.id):
                hit = a
    ok = hit is not None
    res.ob('R11', f.where, 'ServiceMeta.__init__: %s %s' % (attr, (
        'is set at line %d from the per-method aux test' % hit.lineno) if ok
        else 'is never updated from the per-method aux test'),
        'ok' if ok else 'VIOLATED')
    if not ok:
        res.finding('R11', 'ServiceMeta.__init__|aux-flag-not-per-method',
                    f.where, 'is_auxiliary() returns %s, which the method '
                    'loop no longer sets when a method declares _aux: such a '
                    'service is rendered into the WSDL as a primary one and '
                    'every shadowed method appears as two portType '
                    'operations' % attr)


# ------------------------------------------------------------------ R12
def rule_r12(prog, res):
    res.rule('R12', 'a WSDL build starts from empty element caches and files '
             'each operation under the portType its binding looks it up in')
    w = prog.cls('spyne.interface.wsdl.wsdl11:Wsdl11')
    b = w.methods.get('build_interface_document')
    if b is None:
        raise AnalysisError('Wsdl11.build_interface_document', 'not found')
    caches = {}
    init = w.methods.get('__init__')
    init_dicts = set()
    if init is not None:
        for a in walk_no_defs(init.node):
            if isinstance(a, ast.Assign) and (
                    isinstance(a.value, ast.Dict) and not a.value.keys or
                    isinstance(a.value, ast.Call) and call_name(a.value) in (
                        'dict', 'odict', 'OrderedDict') and
                    not a.value.args):
                for t in a.targets:
                    if isinstance(t, ast.Attribute) and \
                            unparse(t.value) == 'self':
                        init_dicts.add(t.attr)
    for nm, f in w.methods.items():
        if f.cls is not w or nm in ('__init__', 'build_interface_document'):
            continue
        for a in walk_no_defs(f.node):
            if isinstance(a, ast.Assign):
                for t in a.targets:
                    if isinstance(t, ast.Subscript) and isinstance(
                            t.value, ast.Attribute) and \
                            unparse(t.value.value) == 'self' and (
                                nm.startswith('_get_or_create') or
                                t.value.attr in init_dicts):
                        caches.setdefault(t.value.attr, f)
    res.floor('R12', 'element caches filled by _get_or_create_*', len(caches),
              2)
    roots = [a.lineno for a in walk_no_defs(b.node) if isinstance(a, ast.Assign)
             and any('self.root_elt' == unparse(t) for t in a.targets)]
    if not roots:
        raise AnalysisError('Wsdl11.build_interface_document',
                            'assignment of self.root_elt not found')
    for attr, f in sorted(caches.items()):
        fresh = [a for a in walk_no_defs(b.node) if isinstance(a, ast.Assign)
                 and any(unparse(t) == 'self.' + attr for t in a.targets) and
                 (isinstance(a.value, ast.Dict) and not a.value.keys or
                  isinstance(a.value, ast.Call) and call_name(a.value) in (
                      'dict', 'odict', 'OrderedDict') and not a.value.args)
                 and a.lineno < min(roots) and
                 not guardspec.atoms_at(a, b.node)]
        cleared = [c for c in calls_in(b.node) if isinstance(
            c.func, ast.Attribute) and c.func.attr == 'clear' and
            unparse(c.func.value) == 'self.' + attr and
            c.lineno < min(roots)]
        ok = bool(fresh or cleared)
        res.ob('R12', b.where, 'self.%s (filled by %s) is %s before the new '
               'root element is created' % (attr, f.name, 'reset' if ok else
                                            'NOT reset'),
               'ok' if ok else 'VIOLATED')
        if not ok:
            res.finding('R12', 'Wsdl11.build_interface_document|stale-cache|'
                        '%s' % attr, b.where, 'self.%s keeps the elements of '
                        'the previous document: on a second build %s finds '
                        'them, attaches nothing to the new root, and the '
                        'document comes out without those elements (building '
                        'twice does not give the same bytes)' % (attr, f.name))
    # operations are filed per method.port_type, as the bindings select them
    a = w.methods.get('add_port_type')
    bind = w.methods.get('add_bindings_for_methods')
    selects = bind is not None and any(
        isinstance(c, ast.Compare) and 'port_type' in unparse(c.left) and
        isinstance(c.ops[0], ast.Eq) for c in ast.walk(bind.node))
    loops = [l for l in walk_no_defs(a.node) if isinstance(l, ast.For) and
             'public_methods' in unparse(l.iter)]
    res.floor('R12', 'method loops in add_port_type', len(loops), 1)
    loop = loops[0]
    mvar = unparse(loop.target)
    ops = [c for st in loop.body for c in ast.walk(st)
           if isinstance(c, ast.Call) and call_name(c) == 'SubElement' and
           len(c.args) >= 2 and 'operation' in unparse(c.args[1]) and
           'cb_' not in unparse(c.args[0])]
    res.floor('R12', 'operation elements created per method', len(ops), 1)
    for c in ops:
        parent = c.args[0]
        srcs = [unparse(parent)]
        if isinstance(parent, ast.Name):
            srcs += [unparse(x.value) for st in loop.body
                     for x in ast.walk(st) if isinstance(x, ast.Assign) and
                     any(isinstance(t, ast.Name) and t.id == parent.id
                         for t in x.targets)]
        ok = (not selects) or any('%s.port_type' % mvar in s_ for s_ in srcs)
        where = '%s:%d' % (a.module.relpath, c.lineno)
        res.ob('R12', where, 'add_port_type: operation parent %s <- %s' % (
            unparse(parent), srcs[1:] or '(bound outside the method loop)'),
            'ok' if ok else 'VIOLATED')
        if not ok:
            res.finding('R12', 'Wsdl11.add_port_type|operation-port-type',
                        where, 'the binding emitter lists under each binding '
                        'the methods whose port_type equals its name, but '
                        'add_port_type appends every operation to %s, which '
                        'is bound outside the method loop (the portType '
                        'created last): binding operations have no matching '
                        'portType operation' % unparse(parent))


# ------------------------------------------------------------------ R13
_SET_MUTATORS = ('difference_update', 'intersection_update', 'update',
                 'symmetric_difference_update', 'remove', 'discard', 'clear',
                 'pop', 'add')


def rule_r13(prog, res):
    res.rule('R13', 'rendering does not consume the dependency graph: the '
             'sorter works on its own sets, and the message elements the WSDL '
             'refers to are pinned to the target namespace at both ends')
    m = prog.module('spyne.util.toposort')
    f = m.functions.get('toposort2')
    if f is None:
        raise AnalysisError('toposort2', 'not found')
    param = f.params()[0]
    # names bound to values of the caller's mapping
    aliases = {}
    for n in walk_no_defs(f.node):
        if isinstance(n, (ast.For, ast.comprehension)):
            it = unparse(n.iter)
            if it in ('%s.items()' % param, '%s.values()' % param):
                tgt = n.target
                v = tgt.elts[-1] if isinstance(tgt, ast.Tuple) else tgt
                if isinstance(v, ast.Name):
                    aliases.setdefault(v.id, []).append(n)
    res.floor('R13', 'iterations over the caller\'s mapping', len(aliases), 1)
    rebinds = sorted([a for a in walk_no_defs(f.node) if isinstance(
        a, ast.Assign) and any(isinstance(t, ast.Name) and t.id == param
                               for t in a.targets)], key=lambda a: a.lineno)

    def fresh_values(a):
        # the value expression stores new sets (dep - x, set(dep), copy())
        txt = unparse(a.value)
        pairs = [e for e in ast.walk(a.value) if isinstance(e, ast.Tuple) and
                 len(e.elts) == 2]
        vals = [e.elts[1] for e in pairs]
        if isinstance(a.value, ast.DictComp):
            vals.append(a.value.value)
        return bool(vals) and all(isinstance(v, (ast.BinOp, ast.Call))
                                  for v in vals)
    bad = []
    for n in walk_no_defs(f.node):
        tgt = None
        if isinstance(n, ast.AugAssign) and isinstance(n.target, ast.Name) \
                and n.target.id in aliases:
            tgt = (n, n.target.id, unparse(n))
        if isinstance(n, ast.Call) and isinstance(n.func, ast.Attribute) and \
                n.func.attr in _SET_MUTATORS and isinstance(
                    n.func.value, ast.Name) and n.func.value.id in aliases:
            # removing the self-dependency is idempotent and documented
            keyvars = set()
            for it in aliases[n.func.value.id]:
                if isinstance(it.target, ast.Tuple):
                    keyvars.add(unparse(it.target.elts[0]))
            if n.func.attr == 'discard' and len(n.args) == 1 and \
                    unparse(n.args[0]) in keyvars:
                continue
            tgt = (n, n.func.value.id, unparse(n))
        if tgt is None:
            continue
        prev = [a for a in rebinds if a.lineno < tgt[0].lineno]
        # in a loop the rebinding below reaches the top as well
        loop_prev = [a for a in rebinds if fresh_values(a)]
        owned = bool(prev) and fresh_values(prev[-1]) and \
            len(loop_prev) == len(rebinds)
        if not owned:
            bad.append(tgt)
    res.ob('R13', f.where, 'toposort2: %d in-place updates of sets that may '
           'belong to the caller' % len(bad), 'VIOLATED' if bad else 'ok')
    for n, nm, txt in bad[:2]:
        res.finding('R13', 'toposort2|caller-sets-mutated|%s' % txt[:30],
                    '%s:%d' % (f.module.relpath, n.lineno),
                    'toposort2 updates %s in place (%s) while it may still be '
                    'one of the sets of the mapping it was given '
                    '(Interface.deps): after the first rendering every class '
                    'has lost its dependencies, so a second document object '
                    'renders the classes in another order' % (nm, txt[:40]))
    # message elements: name and namespace pinned together
    d = prog.module('spyne.decorator')
    k = 0
    for fn in d.functions.values():
        for c in calls_in(fn.node):
            if call_name(c) != 'customize':
                continue
            kws = {kw.arg for kw in c.keywords}
            if 'sub_name' not in kws:
                continue
            k += 1
            ok = 'sub_ns' in kws
            where = '%s:%d' % (d.relpath, c.lineno)
            res.ob('R13', where, '%s: %s' % (fn.qualname, unparse(c)[:70]),
                   'ok' if ok else 'VIOLATED')
            if not ok:
                res.finding('R13', '%s|element-namespace-not-pinned' %
                            fn.qualname, where, '%s names the message element '
                            'of a bare method (sub_name=) without pinning '
                            'its namespace (sub_ns=): get_element_name_ns '
                            'falls back to the namespace of the argument '
                            'type, while the xs:element and wsdl:message are '
                            'defined in the target namespace - the part and '
                            'message references of the WSDL dangle' %
                            fn.qualname)
    res.floor('R13', 'message element namings in the decorator', k, 2)


# ------------------------------------------------------------------ R14
def _fold_type_set(prog, c, depth=0):
    """The class-level ``type`` set of a protocol class, folded from the
    class body (set(Base.type), add/update/discard)."""
    val = None
    for st in c.node.body:
        if isinstance(st, ast.Assign) and any(
                isinstance(t, ast.Name) and t.id == 'type'
                for t in st.targets):
            v = st.value
            if isinstance(v, ast.Call) and call_name(v) == 'set':
                if not v.args:
                    val = set()
                elif isinstance(v.args[0], ast.Attribute) and \
                        v.args[0].attr == 'type' and depth < 6:
                    base = None
                    for b in prog.mro(c)[1:]:
                        if getattr(b, 'name', None) == unparse(
                                v.args[0].value):
                            base = b
                    if base is None:
                        return None
                    val = _fold_type_set(prog, base, depth + 1)
                    if val is None:
                        return None
                    val = set(val)
                elif isinstance(v.args[0], (ast.Tuple, ast.List, ast.Set)):
                    val = {e.value for e in v.args[0].elts
                           if isinstance(e, ast.Constant)}
                else:
                    return None
            else:
                return None
        elif isinstance(st, ast.Expr) and isinstance(st.value, ast.Call) and \
                isinstance(st.value.func, ast.Attribute) and \
                unparse(st.value.func.value) == 'type' and val is not None:
            op, args = st.value.func.attr, st.value.args
            consts = []
            for a in args:
                if isinstance(a, ast.Constant):
                    consts.append(a.value)
                elif isinstance(a, (ast.Tuple, ast.List, ast.Set)):
                    consts.extend(e.value for e in a.elts
                                  if isinstance(e, ast.Constant))
            if op == 'add':
                val.add(consts[0])
            elif op == 'update':
                val.update(consts)
            elif op in ('discard', 'remove'):
                val.discard(consts[0])
            else:
                return None
    if val is None:
        for b in prog.mro(c)[1:]:
            if hasattr(b, 'node') and depth < 6:
                return _fold_type_set(prog, b, depth + 1)
    return val


def rule_r14(prog, res):
    res.rule('R14', 'the WSDL binding extension namespace selected for a '
             'protocol is the one of the protocol\'s own SOAP version '
             '(decision list evaluated over the folded type sets)')
    m = prog.module('spyne.const.xml')
    f = m.functions.get('get_binding_ns')
    if f is None:
        raise AnalysisError('get_binding_ns', 'not found')
    param = f.params()[0]
    # decision list: [(literal or None, returned name)]
    decisions = []

    def walk(stmts):
        for st in stmts:
            if isinstance(st, ast.If):
                t = st.test
                lit = None
                if isinstance(t, ast.Compare) and len(t.ops) == 1 and \
                        isinstance(t.ops[0], ast.In) and isinstance(
                            t.left, ast.Constant) and \
                        unparse(t.comparators[0]) == param:
                    lit = t.left.value
                if lit is None:
                    return False
                rets = [r for r in st.body if isinstance(r, ast.Return)]
                if len(rets) != 1:
                    return False
                decisions.append((lit, unparse(rets[0].value)))
                if st.orelse:
                    if not walk(st.orelse):
                        return False
            elif isinstance(st, ast.Return):
                decisions.append((None, unparse(st.value)))
            elif isinstance(st, ast.Expr) and isinstance(
                    st.value, ast.Constant):
                continue
            else:
                return False
        return True
    if not walk(f.node.body) or not decisions:
        res.unclass('R14', f.where, 'get_binding_ns is no longer a decision '
                    'list of membership tests')
        return
    expected = (('spyne.protocol.soap.soap11:Soap11', 'WSDL11_SOAP'),
                ('spyne.protocol.soap.soap12:Soap12', 'WSDL11_SOAP12'),
                ('spyne.protocol.http:HttpRpc', 'WSDL11_HTTP'))
    n = 0
    for cfq, want in expected:
        c = prog.cls(cfq)
        ts = _fold_type_set(prog, c)
        if ts is None:
            res.unclass('R14', c.where, 'type set of %s not foldable' % c.name)
            continue
        n += 1
        got = None
        for lit, ret in decisions:
            if lit is None or lit in ts:
                got = ret
                break
        ok = got == want
        res.ob('R14', f.where, '%s.type = %s selects %s' % (
            c.name, sorted(ts), got), 'ok' if ok else 'VIOLATED')
        if not ok:
            res.finding('R14', 'get_binding_ns|%s|%s' % (c.name, got),
                        f.where, 'for %s (type set %s) get_binding_ns '
                        'returns %s instead of %s: the binding, operation, '
                        'body and address extension elements of its WSDL are '
                        'written in the wrong namespace, so a client '
                        'generated from the WSDL speaks the other SOAP '
                        'version' % (c.name, sorted(ts), got, want))
    res.floor('R14', 'protocol type sets folded', n, 3)


# ------------------------------------------------------------------ R15
def rule_r15(prog, res):
    res.rule('R15', 'publication covers registration: every collection of '
             'methods the interface makes routable is also iterated by the '
             'WSDL emitter')
    itf = prog.cls('spyne.interface._base:Interface')
    pop = itf.methods.get('populate_interface')
    if pop is None:
        raise AnalysisError('Interface.populate_interface', 'not found')
    # collections whose items are handed to process_method
    sources = {}
    for loop in walk_no_defs(pop.node):
        if not isinstance(loop, ast.For):
            continue
        routed = any(call_name(c) == 'process_method'
                     for st in loop.body for c in ast.walk(st)
                     if isinstance(c, ast.Call))
        if routed:
            it = loop.iter
            while isinstance(it, ast.Call) and it.args:
                it = it.args[0]
            if isinstance(it, ast.Call) and isinstance(it.func,
                                                       ast.Attribute):
                it = it.func.value
            src = unparse(it)
            if src.startswith('self.'):
                sources[src[5:].split('.')[0]] = loop
    # nested: "for s in self.services: for method in s.public_methods"
    sources = {k: v for k, v in sources.items()
               if k not in ('public_methods',)}
    res.floor('R15', 'routable method collections', len(sources), 1)
    w = prog.cls('spyne.interface.wsdl.wsdl11:Wsdl11')
    read = set()
    for f in w.methods.values():
        for a in walk_no_defs(f.node):
            if isinstance(a, ast.Attribute) and isinstance(
                    a.value, ast.Attribute) and a.value.attr == 'interface':
                read.add(a.attr)
    for src, loop in sorted(sources.items()):
        ok = src in read
        where = '%s:%d' % (pop.module.relpath, loop.lineno)
        res.ob('R15', where, 'methods routed from interface.%s are %s by '
               'Wsdl11' % (src, 'published' if ok else 'NOT published'),
               'ok' if ok else 'VIOLATED')
        if not ok:
            res.finding('R15', 'Wsdl11|%s-not-published' % src, where,
                        'Interface.populate_interface makes the methods in '
                        'interface.%s routable (process_method), but no '
                        'method of Wsdl11 reads that collection: those '
                        'methods answer requests without appearing as a '
                        'portType operation' % src)


# ------------------------------------------------------------------ R16
def rule_r16(prog, res):
    res.rule('R16', 'every source of the member table the complexType writer '
             'walks maps names to model classes (the loop hands the values to '
             'issubclass and to the element writers)')
    m = prog.module('spyne.interface.xml_schema.model')
    f = m.functions.get('complex_add')
    if f is None:
        raise AnalysisError('complex_add', 'not found')
    loops = [l for l in walk_no_defs(f.node) if isinstance(l, ast.For) and
             isinstance(l.iter, ast.Call) and call_name(l.iter) == 'items' and
             isinstance(l.iter.func.value, ast.Name)]
    n = 0
    CLASS_TABLES = ('_type_info', 'get_flat_type_info')
    for l in loops:
        var = l.iter.func.value.id
        uses_class = any(isinstance(c, ast.Call) and call_name(c) ==
                         'issubclass' for st in l.body for c in ast.walk(st))
        if not uses_class:
            continue
        for a in walk_no_defs(f.node):
            if isinstance(a, ast.Assign) and any(
                    isinstance(t, ast.Name) and t.id == var
                    for t in a.targets):
                n += 1
                src = unparse(a.value)
                ok = any(src.endswith('.' + t) or ('.%s(' % t) in src
                         for t in CLASS_TABLES)
                where = '%s:%d' % (m.relpath, a.lineno)
                res.ob('R16', where, 'complex_add: %s = %s' % (var, src[:50]),
                       'ok' if ok else 'VIOLATED')
                if not ok:
                    res.finding('R16', 'complex_add|member-table|%s' %
                                src[:40], where, 'the member table is taken '
                                'from %s, whose values are not model classes '
                                '(get_simple_type_info yields path records): '
                                'the loop passes them to issubclass, so '
                                'building the schema of such a class raises '
                                'TypeError and no WSDL is produced' % src)
    res.floor('R16', 'sources of the member table', n, 2)


def rule_r17(prog, res):
    res.rule('R17', 'services that share a port type share its binding '
             'element (one wsdl:binding per name); classes that refer to '
             'each other in a cycle are still all published')
    from ..flow import entails, guards_at, flatten_guards
    w = prog.cls(WSDL)
    ab = w.methods.get('add_bindings_for_methods')
    if ab is None:
        raise AnalysisError('Wsdl11.add_bindings_for_methods', 'not found')
    n = 0
    for loop in walk_no_defs(ab.node):
        if not (isinstance(loop, ast.For) and
                unparse(loop.iter) == 'port_type_list'):
            continue
        for st in loop.body:
            for a in ast.walk(st):
                if not (isinstance(a, ast.Assign) and isinstance(
                        a.value, ast.Call) and call_name(a.value) ==
                        'SubElement' and len(a.value.args) == 2 and
                        unparse(a.value.args[0]) == 'root' and
                        'binding' in unparse(a.value.args[1]) and
                        len(a.targets) == 1 and isinstance(
                            a.targets[0], ast.Name)):
                    continue
                n += 1
                var = a.targets[0].id
                g = flatten_guards(guards_at(a, stop=loop))
                guarded = entails(g, '%s is None' % var)
                # the lookup: a binding of the same name found among the
                # children of the definitions (or in a registry)
                lookups = [x for x in ast.walk(loop)
                           if isinstance(x, ast.Assign) and x is not a and
                           any(isinstance(t, ast.Name) and t.id == var
                               for t in x.targets) and not (
                               isinstance(x.value, ast.Constant) and
                               x.value.value is None)]
                ok = guarded and bool(lookups)
                where = '%s:%d' % (ab.module.relpath, a.lineno)
                res.ob('R17', where, 'the binding of a port type is created '
                       '%s' % ('only when none of that name exists yet'
                               if ok else 'for every service'),
                       'ok' if ok else 'VIOLATED')
                if not ok:
                    res.finding('R17', 'Wsdl11.add_bindings_for_methods|'
                                'binding-not-shared', where, 'a wsdl:binding '
                                'element is created for every service that '
                                'lists the port type: two services sharing a '
                                'port type give two bindings of the same '
                                'name, each covering part of the portType')
    res.floor('R17', 'binding creations per port type', n, 1)
    t = prog.func('spyne.util.toposort:toposort2')
    bad = [x for x in walk_no_defs(t.node)
           if isinstance(x, (ast.Assert, ast.Raise))]
    loops = [x for x in walk_no_defs(t.node) if isinstance(x, ast.While)]
    res.floor('R17', 'ordering loops in toposort2', len(loops), 1)
    # what is left when no item is free of dependencies must be yielded
    rest = []
    for lp in loops:
        for y in ast.walk(lp):
            if isinstance(y, (ast.Yield, ast.YieldFrom)) and y.value is not \
                    None and any(isinstance(x, ast.Name) and x.id == 'data'
                                 for x in ast.walk(y.value)):
                rest.append(y)
    for y in walk_no_defs(t.node):
        if isinstance(y, (ast.Yield, ast.YieldFrom)) and y not in rest and \
                y.value is not None and any(
                    isinstance(x, ast.Name) and x.id == 'data'
                    for x in ast.walk(y.value)):
            rest.append(y)
    ok = not bad and bool(rest)
    res.ob('R17', t.where, 'toposort2: %d assert/raise statements, %d yields '
           'of the remaining items' % (len(bad), len(rest)),
           'ok' if ok else 'VIOLATED')
    if not ok:
        res.finding('R17', 'toposort2|cycle|%s' % (
            'asserts' if bad else 'drops'), t.where, 'toposort2 %s when '
            'the remaining classes depend on each other in a cycle '
            '(Customer.orders <-> Order.customer): %s' % (
                'raises' if bad else 'silently drops them',
                'no schema and no WSDL can be built for the application'
                if bad else 'their types are referenced but not defined'))


def rule_r18(prog, res):
    res.rule('R18', 'two Array customisations that share a type name are '
             'taken for one type only when their item elements have the same '
             'name (one complexType is published for the key): the '
             'comparison covers every waiver two arrays can reach, the '
             'Array/Iterable pair included')
    itf = prog.cls('spyne.interface._base:Interface')
    h = itf.methods.get('has_class')
    if h is None:
        raise AnalysisError('Interface.has_class', 'not found')
    compares = [st for st in walk_no_defs(h.node) if isinstance(st, ast.If)
                and '_type_info' in unparse(st.test) and any(
                    isinstance(r, ast.Raise) for r in ast.walk(st))]

    def precedes(cmp_, ret):
        """cmp_ is an earlier sibling of ret or of one of its ancestors."""
        cur = ret
        while cur is not None and cur is not h.node:
            par = getattr(cur, '_parent', None)
            for fld in ('body', 'orelse'):
                blk = getattr(par, fld, None)
                if isinstance(blk, list) and any(cur is x for x in blk):
                    before = blk[:[id(x) for x in blk].index(id(cur))]
                    if any(cmp_ is x for x in before):
                        return True
            cur = par
        return False

    waivers = []
    for r in walk_no_defs(h.node):
        if not (isinstance(r, ast.Return) and isinstance(
                r.value, ast.Constant) and r.value.value is True):
            continue
        atoms = guardspec.atoms_at(r, h.node)
        if any(('o1 is o2' in t and pol) or ('Array' in t and 'Iterable' in t
                                              and pol) for t, pol in atoms):
            waivers.append(r)
    res.floor('R18', 'array-capable waivers in has_class', len(waivers), 2)
    for r in waivers:
        ok = any(precedes(c_, r) for c_ in compares)
        where = '%s:%d' % (h.module.relpath, r.lineno)
        res.ob('R18', where, 'has_class compares the item names of two '
               'arrays before this waiver: %s' % ok,
               'ok' if ok else 'VIOLATED')
        if not ok:
            res.finding('R18', 'Interface.has_class|array-item-name-not-'
                        'compared', where, 'this waiver takes two classes '
                        'with one type name for the same type without a '
                        'preceding comparison of their item names: Array('
                        'Unicode) next to Array/Iterable(Unicode, '
                        'member_name="tag") publishes one stringArray and '
                        'the replies of the other method do not validate '
                        'against it / cannot be decoded by a generated '
                        'client')


def rule_r19(prog, res):
    from . import c06
    from ..report import Result
    res.share('R19', 'patterns published as xs:pattern stay in the subset XSD '
              'and Python share, so the embedded schemas compile (C06-R15)',
              'C06', c06.rule_r15, prog, Result)
    res.share('R19', 'every model class gets its schema handler through its '
              'closest ancestor (C06-R18)', 'C06', c06.rule_r18, prog, Result)


def rule_r20(prog, res):
    res.rule('R20', 'the base of a published restriction is a type that has '
             'a name: ancestors customised without one (type name Empty) are '
             'skipped before the reference is written')
    f = prog.func('spyne.interface.xml_schema.model:simple_get_restriction_tag')
    sets = [c for c in calls_in(f.node) if call_name(c) == 'set' and
            len(c.args) == 2 and isinstance(c.args[0], ast.Constant) and
            c.args[0].value == 'base' and 'get_type_name_ns' in unparse(
                c.args[1])]
    res.floor('R20', 'base references in simple_get_restriction_tag',
              len(sets), 1)
    for c in sets:
        recv = None
        for y in ast.walk(c.args[1]):
            if isinstance(y, ast.Call) and call_name(y) == \
                    'get_type_name_ns' and isinstance(y.func, ast.Attribute):
                recv = unparse(y.func.value)
        skips = [w_ for w_ in walk_no_defs(f.node) if isinstance(
            w_, (ast.While, ast.If)) and 'Empty' in unparse(w_.test) and
            w_.lineno < c.lineno and any(
                isinstance(a, ast.Assign) and unparse(a.targets[0]) == recv
                and '__extends__' in unparse(a.value)
                for a in ast.walk(w_))]
        ok = bool(skips) and any(isinstance(w_, ast.While) for w_ in skips)
        where = '%s:%d' % (f.module.relpath, c.lineno)
        res.ob('R20', where, 'simple_get_restriction_tag writes base=%s.'
               'get_type_name_ns() %s' % (recv, 'after skipping unnamed '
                                          'ancestors' if ok else
                                          'whatever its type name'),
               'ok' if ok else 'VIOLATED')
        if not ok:
            res.finding('R20', 'simple_get_restriction_tag|unnamed-base',
                        where, 'the restriction base is written from %s '
                        'without skipping ancestors whose type name is '
                        'Empty: Unicode(max_len=10)(max_len=5, type_name='
                        '"Named") is published with base="s0:<class '
                        '\'...ModelBase.Empty\'>", a QName that resolves to '
                        'nothing' % recv)


def rule_r21(prog, res):
    from . import c08
    from ..report import Result
    res.share('R21', 'the XSD type published for a binary member is the one '
              'its wire encoding is a literal of (C08-R12)', 'C08',
              c08.rule_r12, prog, Result)


def rule_r22(prog, res):
    res.rule('R22', 'a value threaded through a loop of emitter calls '
             '(x = self.emit(..., x)) is handed back on every path of the '
             'emitter')
    from ..flow import always_exits
    w = prog.cls(WSDL)
    n = 0
    for nm, f in sorted(w.methods.items()):
        for a in walk_no_defs(f.node):
            if not (isinstance(a, ast.Assign) and len(a.targets) == 1 and
                    isinstance(a.targets[0], ast.Name) and isinstance(
                        a.value, ast.Call) and isinstance(
                        a.value.func, ast.Attribute) and isinstance(
                        a.value.func.value, ast.Name) and
                    a.value.func.value.id == 'self'):
                continue
            tname = a.targets[0].id
            idx = [i for i, x in enumerate(a.value.args)
                   if isinstance(x, ast.Name) and x.id == tname]
            callee = prog.find_method(w, a.value.func.attr)
            if not idx or callee is None:
                continue
            params = [p.arg for p in callee.node.args.args][1:]
            if idx[0] >= len(params):
                continue
            pname = params[idx[0]]
            n += 1
            rets = [r for r in walk_no_defs(callee.node)
                    if isinstance(r, ast.Return)]
            falls = not always_exits(callee.node.body)
            other = [r for r in rets if not (isinstance(r.value, ast.Name)
                                             and r.value.id == pname)]
            ok = not falls and not other and bool(rets)
            res.ob('R22', callee.where, '%s threads %s through %s: %s' % (
                nm, tname, callee.name, 'returned on every path' if ok else
                'lost on %s' % ('the fall-through path' if falls else
                                'line %d' % other[0].lineno)),
                'ok' if ok else 'VIOLATED')
            if not ok:
                res.finding('R22', 'Wsdl11.%s|threaded-value-lost|%s' % (
                    callee.name, pname), callee.where, '%s is called as '
                    '"%s = self.%s(..., %s)" for every service, but it does '
                    'not return %s on every path: after a service that takes '
                    'the other path the shared binding is None again and a '
                    'second wsdl:binding of the same name is emitted for the '
                    'next service' % (callee.name, tname, callee.name, tname,
                                      pname))
    res.floor('R22', 'threaded emitter values in Wsdl11', n, 1)


def rule_r23(prog, res):
    res.rule('R23', 'the class a type extends is registered whenever there is '
             'one: the schema writer refers to it unconditionally')
    itf = prog.cls('spyne.interface._base:Interface')
    f = itf.methods.get('add_class')
    if f is None:
        raise AnalysisError('Interface.add_class', 'not found')
    n = 0
    for c in calls_in(f.node):
        if not (call_name(c) == 'add_class' and len(c.args) == 1 and
                isinstance(c.args[0], ast.Name)):
            continue
        nm = c.args[0].id
        if not any('__extends__' in unparse(v)
                   for v in _local_values(f.node, nm)):
            continue
        n += 1
        st = c
        while not isinstance(st, ast.stmt):
            st = parent(st)
        extra = []
        asserted = {id(x) for a_ in walk_no_defs(f.node)
                    if isinstance(a_, ast.Assert) for x in ast.walk(a_.test)}
        for e, pol in flatten_guards(guards_at(st, stop=f.node)):
            if id(e) in asserted:
                continue        # an assertion does not decide anything
            if any(isinstance(x, ast.Attribute) and isinstance(
                    x.value, ast.Name) and x.value.id == nm
                    for x in ast.walk(e)) or any(
                    isinstance(x, ast.Call) and any(
                        isinstance(y, ast.Name) and y.id == nm
                        for y in x.args) for x in ast.walk(e)):
                extra.append(('' if pol else 'not ') + unparse(e))
        where = '%s:%d' % (f.module.relpath, c.lineno)
        res.ob('R23', where, 'add_class registers the parent %s' % (
            'under a condition on the parent: %s' % extra if extra else
            'whenever there is one'), 'VIOLATED' if extra else 'ok')
        if extra:
            res.finding('R23', 'Interface.add_class|parent-registration-'
                        'conditional', where, 'the parent class is registered '
                        'only when "%s": complex_add writes <xs:extension '
                        'base=...> for every parent, so for the others the '
                        'schema refers to a type it does not define' %
                        extra[0])
    res.floor('R23', 'parent registrations in Interface.add_class', n, 1)


def rule_r24(prog, res):
    from . import c06
    from ..report import Result
    res.share('R24', 'occurrence bounds are published whenever they differ '
              'from the XSD defaults: a client built from the WSDL sends what '
              'the server accepts (C06-R2)', 'C06', c06.rule_r2, prog, Result)


def run(prog, res, tier):
    res.run_rule(rule_r1, prog, res, tier)
    res.run_rule(rule_r2, prog, res)
    res.run_rule(rule_r3, prog, res)
    res.run_rule(rule_r4, prog, res)
    res.run_rule(rule_r5, prog, res)
    res.run_rule(rule_r6, prog, res)
    res.run_rule(rule_r7, prog, res)
    res.run_rule(rule_r8, prog, res)
    res.run_rule(rule_r9, prog, res)
    res.run_rule(rule_r10, prog, res)
    res.run_rule(rule_r11, prog, res)
    res.run_rule(rule_r12, prog, res)
    res.run_rule(rule_r13, prog, res)
    res.run_rule(rule_r14, prog, res)
    res.run_rule(rule_r15, prog, res)
    res.run_rule(rule_r16, prog, res)
    res.run_rule(rule_r17, prog, res)
    res.run_rule(rule_r18, prog, res)
    res.run_rule(rule_r19, prog, res)
    res.run_rule(rule_r20, prog, res)
    res.run_rule(rule_r21, prog, res)
    res.run_rule(rule_r22, prog, res)
    res.run_rule(rule_r23, prog, res)
    res.run_rule(rule_r24, prog, res)


_S = 'spyne/interface/xml_schema/_base.py'
_W = 'spyne/interface/wsdl/wsdl11.py'
_I = 'spyne/interface/_base.py'
_T = 'spyne/util/toposort.py'

MUTANTS = [
    Mutant('shared-binding-returned-in-one-branch', 'R22', 'fire', _W,
           in_func('Wsdl11.add_bindings_for_methods',
                   "                inner(m, cb_binding)\n\n"
                   "        return cb_binding",
                   "                inner(m, cb_binding)\n\n"
                   "            return cb_binding"), 'threaded-value-lost'),
    Mutant('private-parent-not-registered', 'R23', 'fire', _I,
           in_func('Interface.add_class',
                   "        if add_parent and extends is not None:\n",
                   "        if add_parent and extends is not None and \\\n"
                   "                      not extends.Attributes.exc_interface"
                   ":\n"), 'parent-registration-conditional'),
    Mutant('unnamed-ancestor-skip-removed', 'R20', 'fire',
           'spyne/interface/xml_schema/model.py',
           in_func('simple_get_restriction_tag',
                   r"    while extends\.get_type_name\(\) is cls\.Empty "
                   r"\\\n(.*?)extends = extends\.__extends__\n", "",
                   regex=True), 'unnamed-base'),
    Mutant('array-item-names-only-for-same-orig', 'R18', 'fire', _I,
           in_func('Interface.has_class',
                   r"            if o1 in \(Array, Iterable\) and o2 in "
                   r"\(Array, Iterable\) \\\n(.*?)\(cls, c, key\)\)\n\n"
                   r"            if o1 is o2:\n",
                   "            if o1 is o2:\n"
                   "                if issubclass(o1, Array) and list(cls._type"
                   "_info) != list(c._type_info):\n"
                   "                    raise ValueError('conflicting names')\n",
                   regex=True), 'array-item-name-not-compared'),
    Mutant('array-item-name-check-removed', 'R18', 'fire', _I,
           in_func('Interface.has_class',
                   r"            if o1 in \(Array, Iterable\) and o2 in "
                   r"\(Array, Iterable\) \\\n(.*?)\(cls, c, key\)\)\n\n",
                   "", regex=True), 'array-item-name-not-compared'),
    Mutant('private-parent-fields-as-records', 'R16', 'fire',
           'spyne/interface/xml_schema/model.py',
           in_func('complex_add',
                   "type_info = cls.get_flat_type_info(cls)",
                   "type_info = cls.get_simple_type_info(cls)"),
           'member-table'),
    Mutant('toposort-consumes-caller-sets', 'R13', 'fire', _T,
           in_func('toposort2',
                   "        data = dict([(item, (dep - ordered)) for item,dep "
                   "in data.items()\n",
                   "        for dep in data.values():\n"
                   "            dep -= ordered\n"
                   "        data = dict([(item, dep) for item,dep "
                   "in data.items()\n"), 'caller-sets-mutated'),
    Mutant('bare-in-element-namespace-dropped', 'R13', 'fire',
           'spyne/decorator.py',
           in_func('_produce_input_message',
                   "message.customize(sub_name=in_message_name, sub_ns=ns)",
                   "message.customize(sub_name=in_message_name)"),
           'element-namespace-not-pinned'),
    Mutant('soap12-keeps-soap11-tag', 'R14', 'fire',
           'spyne/protocol/soap/soap12.py',
           in_func('Soap12', "    type.discard('soap11')\n", ""),
           None, also=[('spyne/const/xml.py',
                        in_func('get_binding_ns',
                                "    if 'soap12' in protocol_type:\n"
                                "        return WSDL11_SOAP12\n    elif",
                                "    if 'soap11' in protocol_type:\n"
                                "        return WSDL11_SOAP\n"
                                "    elif 'soap12' in protocol_type:\n"
                                "        return WSDL11_SOAP12\n    elif"))]),
    Mutant('wsdl-caches-survive-build', 'R12', 'fire',
           'spyne/interface/wsdl/wsdl11.py',
           in_func('Wsdl11.build_interface_document',
                   "        self.port_type_dict = {}\n", ""), 'stale-cache'),
    Mutant('operations-in-last-port-type', 'R12', 'fire',
           'spyne/interface/wsdl/wsdl11.py',
           in_func('Wsdl11.add_port_type',
                   "                if method.port_type is not None:\n"
                   "                    port_type = self._get_or_create_port_"
                   "type(method.port_type)\n", ""), 'operation-port-type'),
    Mutant('wsdl-caches-cleared-in-place', 'R12', 'silent',
           'spyne/interface/wsdl/wsdl11.py',
           in_func('Wsdl11.build_interface_document',
                   "        self.port_type_dict = {}\n        "
                   "self.service_elt_dict = {}\n",
                   "        self.port_type_dict.clear()\n        "
                   "self.service_elt_dict.clear()\n"), None),
    Mutant('aux-flag-local-only', 'R11', 'fire', 'spyne/service.py',
           in_func('ServiceMeta.__init__',
                   "            else:\n                self.__has_aux_methods "
                   "= True\n",
                   "            else:\n                pass\n"),
           'aux-flag-not-per-method'),
    Mutant('aux-flag-stored-after-loop', 'R11', 'silent', 'spyne/service.py',
           in_func('ServiceMeta.__init__',
                   r"(        self\.__has_aux_methods = self\.__aux__ is not "
                   r"None\n)(.*)\Z",
                   lambda m_: "        has_aux = self.__aux__ is not None\n" +
                   m_.group(2).replace("self.__has_aux_methods", "has_aux") +
                   "\n        self.__has_aux_methods = has_aux\n",
                   regex=True), None),
    Mutant('deps-node-only-with-edges', 'R10', 'fire',
           'spyne/interface/_base.py',
           in_func('Interface.add_class',
                   "        self.deps[cls]  # despite the appearances, this is "
                   "not totally useless.\n", ""),
           'deps-node'),
    Mutant('deps-node-via-setdefault-style', 'R10', 'silent',
           'spyne/interface/_base.py',
           in_func('Interface.add_class',
                   "        self.deps[cls]  # despite the appearances, this is "
                   "not totally useless.\n",
                   "        node = self.deps[cls]\n        assert node is not "
                   "None\n"), None),
    Mutant('schema-dedup-by-name', 'R9', 'fire',
           'spyne/interface/xml_schema/_base.py',
           in_func('XmlSchema.add',
                   "        if not (cls in tags):\n            tags.add(cls)\n",
                   "        key = cls.get_type_name()\n"
                   "        if not (key in tags):\n            tags.add(key)\n"),
           'dedup-key'),
    Mutant('header-ref-own-prefix', 'R6', 'fire', _W,
           in_func('Wsdl11.add_bindings_for_methods',
                   "soap_header.set('message', '%s:%s' % (pref_tns,\n"
                   "                                                        "
                   "in_header_message_name))",
                   "soap_header.set('message', '%s:%s' % ("
                   "header.get_namespace_prefix(self.interface), "
                   "in_header_message_name))"), 'header-message-prefix'),
    Mutant('base-namespace-by-instance-table', 'R8', 'fire', _I,
           in_func('Interface.is_valid_import', "ns in namespace.PREFMAP",
                   "ns in self.prefmap"), 'table'),
    Mutant('message-set-per-service', 'R8', 'fire', _W,
           in_func('Wsdl11.build_interface_document',
                   "self.add_messages_for_methods(s, root, messages)",
                   "self.add_messages_for_methods(s, root, set())"),
           'message-set'),
    Mutant('enum-values-as-frozenset', 'R1', 'fire', 'spyne/model/_base.py',
           in_func('ModelBase._s_customize',
                   "            elif k == 'exc_table':\n",
                   "            elif k == 'values':\n"
                   "                Attributes.values = frozenset(v)\n"
                   "            elif k == 'exc_table':\n"), 'values'),
    Mutant('root-before-schema-nodes', 'R5', 'fire', _W,
           in_func('Wsdl11.build_interface_document',
                   r"(        self\.build_schema_nodes\(\)\n)(.*?)"
                   r"(        # create types node\n)",
                   lambda m_: m_.group(2) + m_.group(3) + m_.group(1),
                   regex=True), 'nsmap-before-schema'),
    Mutant('schema-nodes-after-url', 'R5', 'benign', _W,
           in_func('Wsdl11.build_interface_document',
                   r"(        self\.build_schema_nodes\(\)\n\n)"
                   r"(        self\.url = REGEX_WSDL\.sub\('', url\)\n)",
                   lambda m_: m_.group(2) + "\n" + m_.group(1),
                   regex=True), None),
    Mutant('fault-namespace-not-forced', 'R6', 'fire', _I,
           in_func('Interface.add_method',
                   "            fault.__namespace__ = self.get_tns()\n", ""),
           'fault-namespace'),
    Mutant('missing-elements-bare-only', 'R7', 'fire', _S,
           in_func('XmlSchema.add_missing_elements_for_methods',
                   "if method.aux is None:",
                   "if method.aux is None and method.body_style == 'bare':"),
           'extra-guard'),
    Mutant('missing-elements-not-aux', 'R7', 'benign', _S,
           in_func('XmlSchema.add_missing_elements_for_methods',
                   "if method.aux is None:",
                   "if not (method.aux is not None):"), None),
    Mutant('imports-unsorted', 'R1', 'fire', _S,
           in_func('XmlSchema.build_schema_nodes',
                   r"for namespace in sorted\(\s*self\.interface\.imports\["
                   r"self\.interface\.nsmap\[pref\]\]\):",
                   "for namespace in self.interface.imports[self.interface."
                   "nsmap[pref]]:", regex=True), 'imports'),
    Mutant('imports-unsorted-via-local', 'R1', 'fire', _S,
           in_func('XmlSchema.build_schema_nodes',
                   r"for namespace in sorted\(\s*self\.interface\.imports\["
                   r"self\.interface\.nsmap\[pref\]\]\):",
                   "imports = self.interface.imports[self.interface.nsmap["
                   "pref]]\n            for namespace in imports:",
                   regex=True), 'imports'),
    Mutant('toposort-ties-in-set-order', 'R1', 'fire', _T,
           in_func('toposort2',
                   "ordered = [item for item,dep in data.items() if len(dep) "
                   "== 0]",
                   "ordered = set(item for item,dep in data.items() if "
                   "len(dep) == 0)"), 'ordered'),
    Mutant('toposort-tier-unsorted', 'R1', 'fire', _T,
           in_func('toposort2', "yield sorted(ordered, key=lambda x:repr(x))",
                   "yield list(set(ordered))"), 'ordered'),
    Mutant('twin-sorted-key', 'R1', 'benign', _S,
           in_func('XmlSchema.build_schema_nodes',
                   r"for namespace in sorted\(\s*self\.interface\.imports\["
                   r"self\.interface\.nsmap\[pref\]\]\):",
                   "for namespace in sorted(self.interface.imports[self."
                   "interface.nsmap[pref]], key=str):", regex=True), ''),
    Mutant('header-ref-operation-name', 'R2', 'fire', _W,
           in_func('Wsdl11.add_bindings_for_methods',
                   "in_header_message_name = ''.join((method.name,",
                   "in_header_message_name = ''.join((method.operation_name,"),
           'in_header_message_name'),
    Mutant('out-header-ref-operation-name', 'R2', 'fire', _W,
           in_func('Wsdl11.add_bindings_for_methods',
                   "out_header_message_name = ''.join((method.name,",
                   "out_header_message_name = ''.join((method.operation_name,"
                   ), 'out_header_message_name'),
    Mutant('binding-op-name', 'R2', 'fire', _W,
           in_func('Wsdl11.add_bindings_for_methods',
                   "            operation.set('name', method.operation_name)",
                   "            operation.set('name', method.name)"),
           'operation-name'),
    Mutant('input-message-by-type-name', 'R2', 'fire', _W,
           in_func('Wsdl11.add_port_type',
                   "method.in_message.get_element_name()))",
                   "method.in_message.get_type_name()))"),
           'message'),
    Mutant('input-message-in-own-namespace', 'R2', 'fire', _W,
           in_func('Wsdl11.add_port_type',
                   "            op_input.set('message', '%s:%s' % (pref_tns,\n"
                   "                                          method.in_message"
                   ".get_element_name()))\n",
                   "            op_input.set('message', method.in_message."
                   "get_element_name_ns(self.interface))\n"), 'message'),
    Mutant('message-prefix-of-message-class', 'R2', 'fire', _W,
           in_func('Wsdl11.add_port_type',
                   "        pref_tns = self.interface.get_namespace_prefix("
                   "self.interface.get_tns())\n",
                   "        pref_tns = self.interface.get_namespace_prefix("
                   "service.get_service_class_name())\n"), 'message'),
    Mutant('binding-per-service', 'R17', 'fire', _W,
           in_func('Wsdl11.add_bindings_for_methods',
                   "                if binding is None:\n",
                   "                if binding is None or True:\n"),
           'binding-not-shared'),
    Mutant('binding-lookup-dropped', 'R17', 'fire', _W,
           in_func('Wsdl11.add_bindings_for_methods',
                   "                    if elt.get('name') == binding_name:\n"
                   "                        binding = elt\n",
                   "                    pass\n"), 'binding-not-shared'),
    Mutant('cycle-asserts', 'R17', 'fire', _T,
           in_func('toposort2',
                   "            if len(data) > 0:\n"
                   "                yield sorted(data, key=lambda x:repr(x))\n",
                   "            assert not data, 'cyclic dependency'\n"),
           'cycle'),
    Mutant('cycle-dropped', 'R17', 'fire', _T,
           in_func('toposort2',
                   "            if len(data) > 0:\n"
                   "                yield sorted(data, key=lambda x:repr(x))\n",
                   ""), 'cycle'),
    Mutant('operation-only-for-sync', 'R3', 'fire', _W,
           in_func('Wsdl11.add_port_type',
                   "            if method.is_callback:\n"
                   "                operation = SubElement(cb_port_type, "
                   "WSDL11(\"operation\"))\n            else:\n",
                   "            operation = SubElement(port_type, WSDL11("
                   "\"operation\"))\n            if method.is_callback:\n"
                   "                operation = SubElement(cb_port_type, "
                   "WSDL11(\"operation\"))\n            else:\n"),
           'operations-per-method'),
    Mutant('probe-wrong-map', 'R4', 'fire', _I,
           in_func('Interface.get_namespace_prefix',
                   "while pref in self.nsmap:", "while pref in self.prefmap:"),
           'probe'),
]
