"""Syntax-directed control flow for structured Python (no goto, so the
statement tree *is* the control-flow graph).

* ``guards_at``   - the conditions that dominate a node (enclosing ``if``
                    branches plus preceding early-exit tests in the same and
                    enclosing blocks).
* ``SeqFlow``     - abstract execution of a function body that enumerates, as
                    sets of tuples, the event sequences along all paths
                    including exceptional ones (try/except/else/finally, loops
                    unrolled to a bound), with the exit kind of each.
"""
import ast

from .core import parent, ancestors, unparse, calls_in, walk_no_defs

FUNC_TYPES = (ast.FunctionDef, ast.AsyncFunctionDef, ast.Lambda)


def always_exits(stmts):
    """The block never falls through (ends in raise/return/continue/break on
    every path)."""
    for s in stmts:
        if isinstance(s, (ast.Raise, ast.Return, ast.Continue, ast.Break)):
            return True
        if isinstance(s, ast.If):
            if s.orelse and always_exits(s.body) and always_exits(s.orelse):
                return True
        if isinstance(s, ast.Try):
            body_exits = always_exits(s.body) or (
                s.orelse and always_exits(s.orelse))
            if s.finalbody and always_exits(s.finalbody):
                return True
            if body_exits and all(always_exits(h.body) for h in s.handlers):
                return True
        if isinstance(s, ast.With):
            if always_exits(s.body):
                return True
    return False


def always_raises(stmts):
    for s in stmts:
        if isinstance(s, ast.Raise):
            return True
        if isinstance(s, ast.If):
            if s.orelse and always_raises(s.body) and always_raises(s.orelse):
                return True
        if isinstance(s, (ast.Return, ast.Continue, ast.Break)):
            return False
    return False


def _block_of(node):
    """(owner, field, list) containing statement ``node``."""
    p = parent(node)
    if p is None:
        return None, None, None
    for fld in ('body', 'orelse', 'finalbody'):
        lst = getattr(p, fld, None)
        if isinstance(lst, list) and node in lst:
            return p, fld, lst
    if isinstance(p, ast.ExceptHandler):
        return p, 'body', p.body
    return p, None, None


def stmt_of(node):
    """The statement that contains ``node``."""
    while node is not None and not isinstance(node, ast.stmt):
        node = parent(node)
    return node


def guards_at(node, stop=None):
    """Conditions known to hold when ``node`` executes, as a list of
    (expr, polarity) pairs - polarity False means ``not expr`` holds.

    Sources: enclosing ``if``/``while``/ternary/boolean-operator branches, and
    earlier statements ``if C: <always exits>`` in the same or an enclosing
    block (then ``not C`` holds afterwards).  Assignments that may invalidate a
    condition are not tracked here; callers that care check for rebinding."""
    out = []
    cur = node
    while cur is not None and cur is not stop:
        p = parent(cur)
        if p is None:
            break
        if isinstance(p, FUNC_TYPES) and cur is not p:
            if not isinstance(cur, ast.stmt) or cur in getattr(p, 'body', []):
                # reached the function boundary after collecting its block
                if isinstance(cur, ast.stmt):
                    out.extend(_preceding_exits(cur, p.body))
                break
        if isinstance(p, ast.If) or isinstance(p, ast.While):
            if cur in p.body:
                out.append((p.test, True))
            elif cur in p.orelse and isinstance(p, ast.If):
                out.append((p.test, False))
        elif isinstance(p, ast.IfExp):
            if cur is p.body:
                out.append((p.test, True))
            elif cur is p.orelse:
                out.append((p.test, False))
        elif isinstance(p, ast.BoolOp):
            idx = p.values.index(cur) if cur in p.values else 0
            for v in p.values[:idx]:
                out.append((v, isinstance(p.op, ast.And)))
        elif isinstance(p, ast.comprehension):
            pass
        if isinstance(cur, ast.stmt):
            owner, fld, lst = _block_of(cur)
            if lst is not None:
                out.extend(_preceding_exits(cur, lst))
        cur = p
    return out


def _preceding_exits(stmt, lst):
    out = []
    if stmt not in lst:
        return out
    for s in lst[:lst.index(stmt)]:
        if isinstance(s, ast.If):
            if always_exits(s.body) and not (s.orelse and
                                             always_exits(s.orelse)):
                out.append((s.test, False))
            elif s.orelse and always_exits(s.orelse):
                out.append((s.test, True))
        elif isinstance(s, ast.Assert):
            out.append((s.test, True))
    return out


def flatten_guards(guards):
    """Split and/or/not so that each element is an atomic (expr, polarity)."""
    out = []
    todo = list(guards)
    while todo:
        e, pol = todo.pop()
        if isinstance(e, ast.UnaryOp) and isinstance(e.op, ast.Not):
            todo.append((e.operand, not pol))
        elif isinstance(e, ast.BoolOp) and isinstance(e.op, ast.And) and pol:
            todo.extend((v, True) for v in e.values)
        elif isinstance(e, ast.BoolOp) and isinstance(e.op, ast.Or) \
                and not pol:
            todo.extend((v, False) for v in e.values)
        elif isinstance(e, ast.BoolOp) and isinstance(e.op, ast.And) \
                and not pol:
            # not (A and B) holds: the disjunction of the negations holds
            # (same atom an ``if not A or not B`` would give)
            from .nnf import negate
            out.append((negate(e), True))
        else:
            out.append((e, pol))
    return _resolve_units(out)


def _resolve_units(atoms):
    """Unit resolution: a disjunct contradicted by another atom of the set is
    dropped; a disjunction left with one disjunct becomes that atom."""
    from .nnf import negate
    for _ in range(4):
        texts = set()
        for e, pol in atoms:
            try:
                texts.add((ast.unparse(e), pol))
                texts.add((ast.unparse(negate(e)), not pol))
            except Exception:
                pass
        changed = False
        out = []
        for e, pol in atoms:
            if pol and isinstance(e, ast.BoolOp) and isinstance(e.op, ast.Or):
                keep = []
                for d in e.values:
                    dt = ast.unparse(d)
                    if (dt, False) in texts:
                        changed = True
                        continue
                    keep.append(d)
                if len(keep) == 1:
                    out.extend(flatten_guards_raw([(keep[0], True)]))
                    changed = True
                    continue
                if keep and len(keep) != len(e.values):
                    e = ast.copy_location(ast.BoolOp(op=ast.Or(),
                                                     values=keep), e)
            out.append((e, pol))
        atoms = out
        if not changed:
            break
    return atoms


def flatten_guards_raw(guards):
    out = []
    todo = list(guards)
    while todo:
        e, pol = todo.pop()
        if isinstance(e, ast.UnaryOp) and isinstance(e.op, ast.Not):
            todo.append((e.operand, not pol))
        elif isinstance(e, ast.BoolOp) and isinstance(e.op, ast.And) and pol:
            todo.extend((v, True) for v in e.values)
        elif isinstance(e, ast.BoolOp) and isinstance(e.op, ast.Or) \
                and not pol:
            todo.extend((v, False) for v in e.values)
        else:
            out.append((e, pol))
    return out


def enclosing_trys(node, stop=None):
    """[(Try node, region)] from inner to outer, region in
    body/handler/orelse/finalbody."""
    out = []
    cur = node
    while cur is not None and cur is not stop:
        p = parent(cur)
        if p is None or isinstance(p, FUNC_TYPES):
            break
        if isinstance(p, ast.Try):
            if cur in p.body:
                out.append((p, 'body'))
            elif cur in p.orelse:
                out.append((p, 'orelse'))
            elif cur in p.finalbody:
                out.append((p, 'finalbody'))
        elif isinstance(p, ast.ExceptHandler):
            out.append((parent(p), 'handler'))
            cur = p
        cur = p
    return out


def handler_names(handler):
    """Names of the exception classes an except clause catches; [] = bare."""
    t = handler.type
    if t is None:
        return []
    elts = t.elts if isinstance(t, ast.Tuple) else [t]
    out = []
    for e in elts:
        if isinstance(e, ast.Attribute):
            out.append(e.attr)
        elif isinstance(e, ast.Name):
            out.append(e.id)
        else:
            out.append(unparse(e))
    return out


# ---------------------------------------------------------------------------
# Event sequence enumeration
# ---------------------------------------------------------------------------

NORMAL, RETURN, RAISE, BREAK, CONTINUE = 'normal', 'return', 'raise', \
    'break', 'continue'

CAP = 4000          # maximum number of distinct sequences carried
MAXLEN = 60


class PathExplosion(Exception):
    pass


class SeqFlow(object):
    """Enumerate event sequences through a function body.

    ``classify(call) -> (events, may_raise)`` maps a Call node to the tuple of
    events it produces (possibly empty) and whether it may raise.  A call that
    may raise does so after any prefix of its events.

    ``on_stmt(stmt) -> events`` optionally produces events for non-call
    statements (assignments to tracked fields ...).

    ``assume(test, polarity) -> event|None|False`` lets the client record a
    branch decision as a pseudo event (path sensitivity) or prune an infeasible
    branch by returning False given the sequence so far (it receives seq).

    Result of ``run``: dict exit kind -> set of sequences, where RAISE exits
    are keyed ('raise', excname).
    """

    def __init__(self, classify, on_stmt=None, assume=None, loop_unroll=2,
                 raise_default=False, inliner=None, max_inline=2):
        # inliner(call) -> FunctionDef node whose body is executed in place of
        # the call (private helpers), or None
        self.inliner = inliner
        self.max_inline = max_inline
        self._inline_stack = []
        self.classify = classify
        self.on_stmt = on_stmt
        self.assume = assume
        self.loop_unroll = loop_unroll
        self.raise_default = raise_default
        self.nodes = 0

    # state: frozenset of tuples
    def run(self, fnode):
        out = self.block(fnode.body, {()})
        res = {}
        for kind, seqs in out.items():
            if kind == NORMAL:
                res.setdefault(RETURN, set()).update(seqs)
            else:
                res.setdefault(kind, set()).update(seqs)
        return res

    def _merge(self, acc, kind, seqs):
        if not seqs:
            return
        s = acc.setdefault(kind, set())
        s.update(seqs)
        if len(s) > CAP:
            raise PathExplosion(len(s))

    def block(self, stmts, seqs):
        """-> {exitkind: set(seqs)} where NORMAL means fell off the end."""
        out = {}
        cur = set(seqs)
        for s in stmts:
            if not cur:
                break
            r = self.stmt(s, cur)
            cur = r.pop(NORMAL, set())
            for k, v in r.items():
                self._merge(out, k, v)
        self._merge(out, NORMAL, cur)
        return out

    def expr_events(self, node, seqs, out):
        """Apply the events of all calls in ``node`` (evaluation order);
        exceptional exits are merged into ``out``; returns the normal seqs."""
        cur = seqs
        if node is None:
            return cur
        for c in calls_in(node):
            fn = self.inliner(c) if self.inliner is not None else None
            if fn is not None and fn not in self._inline_stack and \
                    len(self._inline_stack) < self.max_inline:
                self._inline_stack.append(fn)
                try:
                    r = self.block(fn.body, cur)
                finally:
                    self._inline_stack.pop()
                cur = r.pop(NORMAL, set()) | r.pop(RETURN, set())
                for k, v in r.items():
                    if isinstance(k, tuple):
                        self._merge(out, k, v)
                continue
            events, may_raise = self.classify(c)
            if may_raise:
                exc = 'Exception'
                start = 0
                if may_raise == 'after-first' and events:
                    # e.g. a listener raising: the event has started firing
                    start = 1
                elif isinstance(may_raise, str) and may_raise != 'after-first':
                    exc = may_raise
                for i in range(start, len(events) + 1):
                    self._merge(out, (RAISE, exc),
                                {q + tuple(events[:i]) for q in cur})
            if events:
                cur = {(q + tuple(events))[:MAXLEN] for q in cur}
        return cur

    def _branch(self, test, pol, seqs):
        if self.assume is None:
            return seqs
        out = set()
        for q in seqs:
            r = self.assume(test, pol, q)
            if r is False:
                continue
            if r is None:
                out.add(q)
            else:
                out.add(q + (r,))
        return out

    def stmt(self, s, seqs):
        self.nodes += 1
        out = {}
        if isinstance(s, (ast.FunctionDef, ast.AsyncFunctionDef, ast.ClassDef,
                          ast.Import, ast.ImportFrom, ast.Pass, ast.Global,
                          ast.Nonlocal)):
            out[NORMAL] = seqs
            return out
        if isinstance(s, ast.Return):
            cur = self.expr_events(s.value, seqs, out)
            if self.on_stmt:
                ev = self.on_stmt(s)
                if ev:
                    cur = {q + tuple(ev) for q in cur}
            self._merge(out, RETURN, cur)
            return out
        if isinstance(s, ast.Raise):
            cur = self.expr_events(s.exc, seqs, out)
            name = 'Exception'
            if s.exc is not None:
                e = s.exc.func if isinstance(s.exc, ast.Call) else s.exc
                name = (e.attr if isinstance(e, ast.Attribute) else
                        e.id if isinstance(e, ast.Name) else 'Exception')
            else:
                name = '<reraise>'
            self._merge(out, (RAISE, name), cur)
            return out
        if isinstance(s, ast.Break):
            out[BREAK] = seqs
            return out
        if isinstance(s, ast.Continue):
            out[CONTINUE] = seqs
            return out
        if isinstance(s, ast.If):
            cur = self.expr_events(s.test, seqs, out)
            t = self._branch(s.test, True, cur)
            f = self._branch(s.test, False, cur)
            for k, v in self.block(s.body, t).items():
                self._merge(out, k, v)
            for k, v in self.block(s.orelse, f).items():
                self._merge(out, k, v)
            return out
        if isinstance(s, (ast.For, ast.AsyncFor, ast.While)):
            return self._loop(s, seqs)
        if isinstance(s, ast.Try):
            return self._try(s, seqs)
        if isinstance(s, (ast.With, ast.AsyncWith)):
            cur = seqs
            for item in s.items:
                cur = self.expr_events(item.context_expr, cur, out)
                if self.on_stmt:
                    ev = self.on_stmt(item)
                    if ev:
                        cur = {q + tuple(ev) for q in cur}
            r = self.block(s.body, cur)
            exit_ev = ()
            if self.on_stmt:
                exit_ev = tuple(self.on_stmt(('with_exit', s)) or ())
            for k, v in r.items():
                self._merge(out, k, {q + exit_ev for q in v} if exit_ev else v)
            return out
        # simple statement: Expr, Assign, AugAssign, AnnAssign, Delete, Assert
        cur = self.expr_events(s, seqs, out)
        if self.on_stmt:
            ev = self.on_stmt(s)
            if ev:
                cur = {q + tuple(ev) for q in cur}
        if isinstance(s, ast.Assert):
            pass
        out.setdefault(NORMAL, set()).update(cur)
        return out

    def _loop(self, s, seqs):
        out = {}
        if getattr(s, '_once', False) or (
                isinstance(s, ast.For) and isinstance(s.target, ast.Name)
                and s.target.id == '__once'):
            # single-pass loop produced by helper inlining: the body runs
            # exactly once, ``break`` leaves it
            r = self.block(s.body, seqs)
            done = r.pop(NORMAL, set()) | r.pop(BREAK, set()) | \
                r.pop(CONTINUE, set())
            for k, v in r.items():
                self._merge(out, k, v)
            self._merge(out, NORMAL, done)
            return out
        if isinstance(s, ast.While):
            head = s.test
            infinite = isinstance(s.test, ast.Constant) and bool(s.test.value)
        else:
            head = s.iter
            infinite = False
        cur = self.expr_events(head, seqs, out)
        exits = set() if infinite else set(cur)   # zero iterations
        for _ in range(self.loop_unroll):
            if isinstance(s, ast.While):
                cur_in = self._branch(s.test, True, cur)
            else:
                cur_in = cur
            r = self.block(s.body, cur_in)
            nxt = r.pop(NORMAL, set()) | r.pop(CONTINUE, set())
            brk = r.pop(BREAK, set())
            for k, v in r.items():
                self._merge(out, k, v)
            self._merge(out, '__brk', brk)
            if isinstance(s, ast.While) and not infinite:
                nxt = self.expr_events(s.test, nxt, out)
            if not infinite:
                exits |= nxt
            if nxt <= cur and nxt:
                cur = nxt
                break
            cur = nxt
            if not cur:
                break
        brk = out.pop('__brk', set())
        # else clause runs when the loop ends without break
        if s.orelse:
            r = self.block(s.orelse, exits)
            exits = r.pop(NORMAL, set())
            for k, v in r.items():
                self._merge(out, k, v)
        self._merge(out, NORMAL, exits | brk)
        return out

    def _matches(self, handler, excname):
        names = handler_names(handler)
        if not names:
            return True, True      # (may match, surely matches)
        if 'BaseException' in names:
            return True, True
        if 'Exception' in names:
            return True, excname not in ('KeyboardInterrupt', 'SystemExit',
                                         'GeneratorExit')
        if excname in names:
            return True, True
        if excname in ('Exception', '<reraise>', 'BaseException'):
            return True, False     # unknown class: may match any handler
        # explicit class raised: match only by (approximate) hierarchy
        for n in names:
            if n in EXC_PARENTS.get(excname, ()):
                return True, True
        return False, False

    def _try(self, s, seqs):
        out = {}
        r = self.block(s.body, seqs)
        normal = r.pop(NORMAL, set())
        pending = {}      # exits that still have to run finally
        raised = {k: v for k, v in r.items()
                  if isinstance(k, tuple) and k[0] == RAISE}
        for k, v in r.items():
            if k not in raised:
                self._merge(pending, k, v)
        # else clause
        if s.orelse:
            r2 = self.block(s.orelse, normal)
            normal = r2.pop(NORMAL, set())
            for k, v in r2.items():
                self._merge(pending, k, v)
        self._merge(pending, NORMAL, normal)
        # handlers
        for (kind, exc), v in raised.items():
            remaining = set(v)
            for h in s.handlers:
                may, sure = self._matches(h, exc)
                if not may:
                    continue
                hin = remaining
                if self.on_stmt:
                    ev = self.on_stmt(('handler', h, exc))
                    if ev:
                        hin = {q + tuple(ev) for q in hin}
                r3 = self.block(h.body, hin)
                for k, vv in r3.items():
                    if isinstance(k, tuple) and k[1] == '<reraise>':
                        k = (RAISE, exc)
                    self._merge(pending, k, vv)
                if sure:
                    remaining = set()
                    break
            if remaining:
                self._merge(pending, (kind, exc), remaining)
        # finally
        if s.finalbody:
            for k, v in pending.items():
                r4 = self.block(s.finalbody, v)
                fin_normal = r4.pop(NORMAL, set())
                self._merge(out, k, fin_normal)
                for k2, v2 in r4.items():
                    self._merge(out, k2, v2)
        else:
            for k, v in pending.items():
                self._merge(out, k, v)
        return out


EXC_PARENTS = {
    # approximate built-in / spyne hierarchy used for explicit ``raise X``
    'ValidationError': ('Fault', 'InvalidInputError', 'Exception'),
    'InvalidInputError': ('Fault', 'Exception'),
    'ResourceNotFoundError': ('Fault', 'Exception'),
    'RequestTooLongError': ('Fault', 'Exception'),
    'RequestNotAllowed': ('Fault', 'Exception'),
    'InvalidCredentialsError': ('Fault', 'Exception'),
    'ArgumentError': ('Fault', 'Exception'),
    'InternalError': ('Fault', 'Exception'),
    'MissingFieldError': ('Fault', 'InvalidInputError', 'Exception'),
    'Redirect': ('Fault', 'Exception'),
    'Fault': ('Exception',),
    'ValueError': ('Exception',),
    'TypeError': ('Exception',),
    'KeyError': ('LookupError', 'Exception'),
    'IndexError': ('LookupError', 'Exception'),
    'AttributeError': ('Exception',),
    'NotImplementedError': ('RuntimeError', 'Exception'),
    'StopIteration': ('Exception',),
    'UnicodeDecodeError': ('UnicodeError', 'ValueError', 'Exception'),
    'Break': ('Exception',),
}


def assigned_names(node):
    """Names/attribute chains (as text) stored to by statement ``node``."""
    out = []
    for n in ast.walk(node):
        if isinstance(n, (ast.Name, ast.Attribute, ast.Subscript)) and \
                isinstance(getattr(n, 'ctx', None), (ast.Store, ast.Del)):
            out.append(unparse(n))
    return out


def flag_condition(fnode, name, before=None):
    """The condition a boolean flag stands for: ``if C: f = True else: f =
    False`` (or reversed, or ``f = C``) bound before line ``before``.
    Returns the expression (NNF-negated when the branches are reversed) or
    None when the flag is not of that shape."""
    from .nnf import negate
    cands = []
    for n in walk_no_defs(fnode):
        if before is not None and getattr(n, 'lineno', 0) >= before:
            continue
        if isinstance(n, ast.If) and len(n.body) == 1 and len(n.orelse) == 1:
            a, b = n.body[0], n.orelse[0]
            if all(isinstance(x, ast.Assign) and len(x.targets) == 1 and
                   isinstance(x.targets[0], ast.Name) and
                   x.targets[0].id == name and isinstance(
                       x.value, ast.Constant) and isinstance(
                       x.value.value, bool) for x in (a, b)) and \
                    a.value.value != b.value.value:
                cands.append(n.test if a.value.value else negate(n.test))
        if isinstance(n, ast.Assign) and len(n.targets) == 1 and isinstance(
                n.targets[0], ast.Name) and n.targets[0].id == name and \
                isinstance(n.value, (ast.Compare, ast.BoolOp)):
            cands.append(n.value)
    return cands[-1] if len(cands) == 1 else None



# --- propositional entailment over guard atoms -------------------------------

def _prop(e, atoms):
    """Formula tree over leaf atoms: ('not', x) | ('and', [...]) |
    ('or', [...]) | ('atom', text)."""
    if isinstance(e, ast.UnaryOp) and isinstance(e.op, ast.Not):
        return ('not', _prop(e.operand, atoms))
    if isinstance(e, ast.BoolOp):
        return ('and' if isinstance(e.op, ast.And) else 'or',
                [_prop(v, atoms) for v in e.values])
    neg = False
    if isinstance(e, ast.Compare) and len(e.ops) == 1 and isinstance(
            e.ops[0], (ast.IsNot, ast.NotEq, ast.NotIn)):
        flip = {ast.IsNot: ast.Is, ast.NotEq: ast.Eq, ast.NotIn: ast.In}
        e = ast.Compare(left=e.left, ops=[flip[type(e.ops[0])]()],
                        comparators=e.comparators)
        neg = True
    t = ast.unparse(e)
    atoms.add(t)
    return ('not', ('atom', t)) if neg else ('atom', t)


def _ev(f, env):
    k = f[0]
    if k == 'atom':
        return env[f[1]]
    if k == 'not':
        return not _ev(f[1], env)
    if k == 'and':
        return all(_ev(x, env) for x in f[1])
    return any(_ev(x, env) for x in f[1])


def entails(guards, goal, max_atoms=14):
    """True when every truth assignment of the leaf conditions that satisfies
    all ``guards`` [(expr, polarity)] also satisfies the expression ``goal``
    (an ast expression or source text).  Leaf conditions are compared by
    their text and treated as independent propositions, so the answer is
    sound for 'entails' (it may miss entailments that need arithmetic)."""
    import itertools
    if isinstance(goal, str):
        goal = ast.parse(goal, mode='eval').body
    atoms = set()
    fs = []
    for e, pol in guards:
        f = _prop(e, atoms)
        fs.append(f if pol else ('not', f))
    g = _prop(goal, atoms)
    names = sorted(atoms)
    if len(names) > max_atoms:
        return False
    for vals in itertools.product((False, True), repeat=len(names)):
        env = dict(zip(names, vals))
        if all(_ev(f, env) for f in fs) and not _ev(g, env):
            return False
    return True
