"""Freshness / ownership analysis for copy-on-write code.

For every in-place mutation or attribute store in a function, classify the
root object it goes through:

  fresh        created in this function (type(...), X.customize(...), class
               statement, literal/constructor/copy containers)
  param:<p>    a parameter (the source model for derivation functions)
  arg:<p>      a value taken out of a parameter (kwargs.get(...)): the
               caller's object
  unknown
"""
import ast

from .core import dotted, unparse, call_name, walk_no_defs, parent

FRESH_CALLS = {'type', 'dict', 'odict', 'list', 'set', 'TypeInfo', 'copy',
               'deepcopy', 'OrderedDict', 'WeakKeyDictionary', 'tuple',
               'defaultdict', 'oset', 'frozenset', 'sorted', 'deque',
               'customize', 'staticmethod', '_decode_pa_dict', 'apply_pssm',
               '__new__', 'object', '_s_customize'}
MUTATORS = {'append', 'extend', 'insert', 'add', 'update', 'pop', 'popitem',
            'clear', 'remove', 'discard', 'setdefault', 'sort', 'reverse',
            '__setitem__', '__delitem__'}


class Site(object):
    def __init__(self, node, kind, base, what):
        self.node = node
        self.kind = kind      # 'store-attr' | 'store-item' | 'del-item' |
                              # 'mutator:<name>' | 'setattr'
        self.base = base      # expression whose object is modified
        self.what = what      # text


def mutation_sites(fnode):
    out = []
    for n in walk_no_defs(fnode):
        tgts = []
        if isinstance(n, ast.Assign):
            for t in n.targets:
                tgts.extend(t.elts if isinstance(t, (ast.Tuple, ast.List))
                            else [t])
        elif isinstance(n, ast.AugAssign):
            tgts = [n.target]
        elif isinstance(n, ast.Delete):
            for t in n.targets:
                if isinstance(t, ast.Subscript):
                    out.append(Site(n, 'del-item', t.value, unparse(n)))
                elif isinstance(t, ast.Attribute):
                    out.append(Site(n, 'del-attr', t.value, unparse(n)))
            continue
        for t in tgts:
            if isinstance(t, ast.Attribute):
                out.append(Site(n, 'store-attr:' + t.attr, t.value,
                                unparse(t)))
            elif isinstance(t, ast.Subscript):
                out.append(Site(n, 'store-item', t.value, unparse(t)))
        if isinstance(n, ast.Call):
            if isinstance(n.func, ast.Attribute) and n.func.attr in MUTATORS:
                out.append(Site(n, 'mutator:' + n.func.attr, n.func.value,
                                unparse(n)[:60]))
            if isinstance(n.func, ast.Name) and n.func.id == 'setattr' and \
                    len(n.args) == 3:
                out.append(Site(n, 'setattr', n.args[0], unparse(n)[:60]))
    return out


def chain(expr):
    """(root Name id | None, [attrs...]) for a.b.c / a.b[k].c (subscripts are
    transparent: an element of a container belongs to the container)."""
    path = []
    cur = expr
    while True:
        if isinstance(cur, ast.Attribute):
            path.append(cur.attr)
            cur = cur.value
        elif isinstance(cur, ast.Subscript):
            path.append('[]')
            cur = cur.value
        else:
            break
    if isinstance(cur, ast.Name):
        return cur.id, list(reversed(path))
    return None, list(reversed(path))


class Ownership(object):
    def __init__(self, f):
        self.f = f
        self.params = f.params()
        a = f.node.args
        self.kwparam = a.kwarg.arg if a.kwarg else None
        self.varparam = a.vararg.arg if a.vararg else None
        self.assigns = {}
        self.local_classes = set()
        for n in walk_no_defs(f.node):
            if isinstance(n, ast.Assign):
                for t in n.targets:
                    if isinstance(t, ast.Name):
                        self.assigns.setdefault(t.id, []).append(n)
                    elif isinstance(t, (ast.Tuple, ast.List)):
                        for e in t.elts:
                            if isinstance(e, ast.Name):
                                self.assigns.setdefault(e.id, []).append(n)
            if isinstance(n, (ast.For,)):
                for e in ast.walk(n.target):
                    if isinstance(e, ast.Name):
                        self.assigns.setdefault(e.id, []).append(n)
        for n in ast.walk(f.node):
            if isinstance(n, ast.ClassDef) and n is not f.node:
                self.local_classes.add(n.name)

    def value_kind(self, v, depth=0):
        """-> (kind, path) of the object an expression evaluates to."""
        if depth > 6:
            return 'unknown', []
        if isinstance(v, (ast.Dict, ast.List, ast.Set, ast.Tuple,
                          ast.ListComp, ast.DictComp, ast.SetComp,
                          ast.GeneratorExp, ast.Constant, ast.JoinedStr,
                          ast.BinOp, ast.Lambda, ast.Compare, ast.BoolOp)):
            if isinstance(v, ast.BoolOp):
                kinds = [self.value_kind(x, depth + 1) for x in v.values]
                bad = [k for k in kinds if k[0] != 'fresh']
                return bad[0] if bad else ('fresh', [])
            return 'fresh', []
        if isinstance(v, ast.IfExp):
            a = self.value_kind(v.body, depth + 1)
            b = self.value_kind(v.orelse, depth + 1)
            return a if a[0] != 'fresh' else b
        if isinstance(v, ast.Call):
            nm = call_name(v)
            if nm in FRESH_CALLS:
                return 'fresh', []
            if nm in ('get', 'pop', 'setdefault') and isinstance(
                    v.func, ast.Attribute):
                k, p = self.expr_kind(v.func.value, depth + 1)
                if k == 'fresh' and not p:
                    # an element taken out of a fresh container is not
                    # itself fresh unless the container was built here from
                    # fresh parts; kwargs is the interesting case
                    root, _ = chain(v.func.value)
                    if root == self.kwparam:
                        return 'arg:' + str(root), ['[]']
                    return 'unknown', []
                if k.startswith('param') or k.startswith('arg'):
                    return 'arg:' + k.split(':', 1)[-1], p + ['[]']
                return k, p + ['[]']
            if nm == 'getattr' and v.args:
                k, p = self.expr_kind(v.args[0], depth + 1)
                a = v.args[1].value if len(v.args) > 1 and isinstance(
                    v.args[1], ast.Constant) else '?'
                return k, p + [str(a)]
            if nm in ('items', 'values', 'keys') and isinstance(
                    v.func, ast.Attribute):
                k, p = self.expr_kind(v.func.value, depth + 1)
                return k, p + ['[]']
            if isinstance(v.func, ast.Name) and v.func.id in \
                    self.local_classes:
                return 'fresh', []
            return 'unknown', []
        if isinstance(v, (ast.Name, ast.Attribute, ast.Subscript)):
            return self.expr_kind(v, depth + 1)
        return 'unknown', []

    def expr_kind(self, expr, depth=0):
        root, path = chain(expr)
        if root is None:
            return 'unknown', path
        k, p = self.name_kind(root, depth)
        return k, p + path

    def name_kind(self, name, depth=0, before=None):
        if depth > 6:
            return 'unknown', []
        if name in self.local_classes:
            return 'fresh', []
        if name == self.kwparam or name == self.varparam:
            return 'fresh', []      # the function's own **kwargs / *args
        if name in self.params and name not in self.assigns:
            return 'param:' + name, []
        defs = self.assigns.get(name, [])
        if not defs:
            if name in self.params:
                return 'param:' + name, []
            return 'global', []
        kinds = []
        for d in defs:
            if isinstance(d, ast.For):
                k, p = self.value_kind(d.iter, depth + 1)
                kinds.append((k, p + ['[]']))
            else:
                t0 = d.targets[0]
                if isinstance(t0, (ast.Tuple, ast.List)) and isinstance(
                        d.value, ast.Call):
                    kinds.append(self.value_kind(d.value, depth + 1))
                else:
                    kinds.append(self.value_kind(d.value, depth + 1))
        if name in self.params:
            kinds.append(('param:' + name, []))
        worst = None
        for k in kinds:
            if k[0] != 'fresh':
                worst = k
                break
        if worst is None:
            # fresh with the longest alias path
            return 'fresh', max((k[1] for k in kinds), key=len)
        return worst

    def rebound_before(self, site_node, root, path):
        """Is ``root.path`` assigned a fresh value on every path before the
        site (approximation: an unconditional earlier assignment, or an
        if/else that assigns in both arms)."""
        want = '.'.join([root] + [p for p in path if p != '[]'])
        hits = []
        for n in walk_no_defs(self.f.node):
            if isinstance(n, ast.Assign) and n.lineno < site_node.lineno:
                for t in n.targets:
                    if unparse(t) == want:
                        k, p = self.value_kind(n.value)
                        if k == 'fresh' and not p:
                            hits.append(n)
        if not hits:
            return False
        for h in hits:
            p = parent(h)
            if p is self.f.node:
                return True
            if isinstance(p, ast.If):
                other = p.orelse if h in p.body else p.body
                if any(isinstance(o, ast.Assign) and any(
                        unparse(t) == want for t in o.targets)
                        for o in other):
                    return True
        return False
