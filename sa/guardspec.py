"""Guard specifications: a mechanism (a statement found by role inside a named
function) must execute under exactly the expected dominating conditions.

Atoms are compared after abstracting the root variable of every name chain
(``method.aux is None`` -> ``_.aux is None``), so renaming locals does not
matter; conjunctions/disjunctions/negations are flattened by
``flow.flatten_guards``.  A guard atom outside the allowed set means the
mechanism was made conditional on something new (condition too strong); a
missing required atom means a protecting condition was dropped.
"""
import ast
import re

from .core import unparse, walk_no_defs
from .flow import guards_at, flatten_guards


class _Abstract(ast.NodeTransformer):
    def visit_Name(self, node):
        if node.id in ('None', 'True', 'False', 'len', 'isinstance',
                       'issubclass', 'bool', 'getattr', 'hasattr', 'id',
                       'any', 'all', 'str', 'int', 'type'):
            return node
        if node.id.isupper() or node.id[:1].isupper():
            return node          # constants and class names keep their name
        return ast.copy_location(ast.Name(id='_', ctx=node.ctx), node)


def abstract(expr):
    """Canonical text of a guard atom.  Local variables already carry their
    recorded names (sa/alpha.py) and conditions are in negation normal form
    (sa/nnf.py), so the text itself is the canonical form."""
    return re.sub(r'\s+', ' ', unparse(expr))


def atoms_at(node, stop):
    out = []
    for e, pol in flatten_guards(guards_at(node, stop=stop)):
        e, pol = positive(e, pol)
        if isinstance(e, ast.Constant) and bool(e.value) == pol:
            continue          # ``if True:`` constrains nothing
        out.append((abstract(e), pol))
    return out


_FLIP = {ast.IsNot: ast.Is, ast.NotEq: ast.Eq, ast.NotIn: ast.In}


def positive(e, pol):
    """Normal form of an atom: negative comparison operators become their
    positive twin with the polarity flipped (x is not None, True) ->
    (x is None, False)."""
    while isinstance(e, ast.UnaryOp) and isinstance(e.op, ast.Not):
        e, pol = e.operand, not pol
    if isinstance(e, ast.Compare) and len(e.ops) == 1 and \
            type(e.ops[0]) in _FLIP:
        e = ast.copy_location(ast.Compare(
            left=e.left, ops=[_FLIP[type(e.ops[0])]()],
            comparators=e.comparators), e)
        pol = not pol
    return e, pol


def check(res, rule, f, node, what, allowed, required=(), key=None):
    """allowed/required: iterables of (abstract text, polarity).  Polarity
    None in ``allowed`` accepts both."""
    where = '%s:%d' % (f.module.relpath, node.lineno)
    got = atoms_at(node, f.node)
    allowed_set = set()
    for a in list(allowed) + list(required):
        allowed_set.add(a)
        if a[1] is None:
            allowed_set.add((a[0], True))
            allowed_set.add((a[0], False))
    extra = [a for a in got if a not in allowed_set]
    missing = [r for r in required if r not in got and not (
        r[1] is None and ((r[0], True) in got or (r[0], False) in got))]
    k = key or ('%s|%s' % (f.qualname, what))
    ok = not extra and not missing
    res.ob(rule, where, '%s: %s runs under %s' % (
        f.qualname, what, ['%s%s' % ('' if p else 'not ', t)
                           for t, p in got] or ['(unconditional)']),
        'ok' if ok else 'VIOLATED')
    for t, p in extra:
        res.finding(rule, '%s|extra-guard|%s%s' % (k, '' if p else 'not ', t),
                    where, '%s in %s is now conditional on "%s%s": the '
                    'mechanism no longer runs for the inputs that fail this '
                    'new condition' % (what, f.qualname, '' if p else 'not ',
                                       t))
    for t, p in missing:
        res.finding(rule, '%s|missing-guard|%s%s' % (k, '' if p else 'not ',
                                                    t), where,
                    '%s in %s is no longer protected by "%s%s"' % (
                        what, f.qualname, '' if p else 'not ', t))
    return ok


def find_stmt(fnode, pred):
    """First statement (in source order) under fnode satisfying pred."""
    hits = [n for n in walk_no_defs(fnode) if isinstance(n, ast.stmt) and
            pred(n)]
    hits.sort(key=lambda n: (n.lineno, n.col_offset))
    return hits


def truthiness_tests(fnode, names):
    """[(test node, name)] atoms of if/while/ternary tests that test the
    truthiness (not identity with None) of one of ``names``."""
    out = []
    for node in walk_no_defs(fnode):
        if not isinstance(node, (ast.If, ast.IfExp, ast.While)):
            continue
        todo = [node.test]
        while todo:
            e = todo.pop()
            if isinstance(e, ast.BoolOp):
                todo.extend(e.values)
            elif isinstance(e, ast.UnaryOp) and isinstance(e.op, ast.Not):
                todo.append(e.operand)
            elif isinstance(e, ast.Name) and e.id in names:
                out.append((node, e.id))
    return out


def presence_rule(res, rule, funcs, names, what):
    """No function in ``funcs`` decides the presence of a value by its
    truthiness; returns the number of identity tests seen (for floors)."""
    n_id = 0
    for f in funcs:
        for node, nm in truthiness_tests(f.node, names):
            where = '%s:%d' % (f.module.relpath, node.lineno)
            res.ob(rule, where, '%s tests the truthiness of %s' % (
                f.qualname, nm), 'VIOLATED')
            res.finding(rule, '%s|truthiness|%s' % (f.qualname, nm), where,
                        '%s decides presence by the truthiness of %s: %s' % (
                            f.qualname, nm, what))
        for node in walk_no_defs(f.node):
            if isinstance(node, ast.Compare) and isinstance(
                    node.left, ast.Name) and node.left.id in names and \
                    isinstance(node.ops[0], (ast.Is, ast.IsNot)) and \
                    isinstance(node.comparators[0], ast.Constant) and \
                    node.comparators[0].value is None:
                n_id += 1
                res.ob(rule, '%s:%d' % (f.module.relpath, node.lineno),
                       '%s: %s' % (f.qualname, unparse(node)), 'ok')
    return n_id
