"""Table-driven code is put back into the spelled-out form the rules read.

Three behaviour-preserving rewrites, applied only to constructs the recorded
tree (``sa/local_names.json``) does not have, so that the unchanged tree is
left exactly as it is:

* ``inline_new_consts``: a *new* module-level ``NAME = <literal>`` (tuple,
  frozenset, dict, set of names/constants - no identity-carrying objects such
  as ``object()``) is substituted where it is read.
* ``kw_to_positional``: keyword arguments that continue the positional prefix
  of a call to a function whose signature is recorded (unique simple name in
  the program) are made positional again.
* ``unroll``: a ``for`` loop over a literal tuple whose loop variables are new
  locals is expanded (plain body: one copy per row; ``if c: ...; break`` body
  with optional ``else``: an if/elif chain); ``TABLE[key]`` over a literal
  dict with the keys True/False becomes a conditional expression;
  ``getattr(x, 'name')`` produced by the expansion becomes ``x.name``.
"""
import ast
import copy

from . import alpha

FUNC = (ast.FunctionDef, ast.AsyncFunctionDef)
MAX_ROWS = 16


# --------------------------------------------------------------------------
def _literal(e, depth=0):
    """Value-like literals: safe to copy to every place of use."""
    if depth > 5:
        return False
    if isinstance(e, ast.Constant):
        return True
    if isinstance(e, ast.Name):
        return True
    if isinstance(e, ast.Attribute):
        return _literal(e.value, depth + 1)
    if isinstance(e, (ast.Tuple, ast.Set)):
        return all(_literal(x, depth + 1) for x in e.elts)
    if isinstance(e, ast.Dict):
        return all(k is not None and _literal(k, depth + 1) for k in e.keys) \
            and all(_literal(v, depth + 1) for v in e.values)
    if isinstance(e, ast.Call) and isinstance(e.func, ast.Name) and \
            e.func.id in ('frozenset', 'tuple') and len(e.args) == 1 and \
            not e.keywords:
        return _literal(e.args[0], depth + 1)
    if isinstance(e, ast.UnaryOp) and isinstance(e.op, ast.USub):
        return isinstance(e.operand, ast.Constant)
    if isinstance(e, ast.Call) and isinstance(e.func, ast.Name) and \
            e.func.id in ('float', 'int', 'str', 'bytes', 'bool') and \
            len(e.args) == 1 and not e.keywords and isinstance(
                e.args[0], ast.Constant):
        return True         # float('inf'): a value, equal wherever written
    if isinstance(e, ast.Call) and isinstance(e.func, ast.Name) and \
            e.func.id == 'dict' and not e.args and e.keywords and all(
            k.arg is not None and _literal(k.value, depth + 1)
            for k in e.keywords):
        return True
    return False


def _mark(node):
    for n in ast.walk(node):
        n._tn_new = True
    return node


class _SubstConst(ast.NodeTransformer):
    def __init__(self, table):
        self.table = table
        self.n = 0

    def visit_Name(self, n):
        if isinstance(n.ctx, ast.Load) and n.id in self.table:
            self.n += 1
            new = _mark(copy.deepcopy(self.table[n.id]))
            for x in ast.walk(new):
                ast.copy_location(x, n)
            return new
        return n


def inline_new_consts(tree, known_consts):
    """known_consts: module-level names of the recorded tree (None: the module
    is not recorded - nothing is new)."""
    if known_consts is None:
        return 0
    known = set(known_consts)
    cand = {}
    stores = {}
    for st in tree.body:
        targets = []
        if isinstance(st, ast.Assign):
            targets = st.targets
        elif isinstance(st, (ast.AugAssign, ast.AnnAssign)):
            targets = [st.target]
        for t in targets:
            for x in ast.walk(t):
                if isinstance(x, ast.Name):
                    stores[x.id] = stores.get(x.id, 0) + 1
        if isinstance(st, ast.Assign) and len(st.targets) == 1 and \
                isinstance(st.targets[0], ast.Name) and _literal(st.value) \
                and not isinstance(st.value, (ast.Name, ast.Constant,
                                              ast.Attribute)):
            cand[st.targets[0].id] = st.value
    # rebound or mutated anywhere -> leave alone
    for n in ast.walk(tree):
        if isinstance(n, ast.Global):
            for nm in n.names:
                cand.pop(nm, None)
        if isinstance(n, ast.Name) and isinstance(n.ctx, (ast.Store, ast.Del)) \
                and n.id in cand and stores.get(n.id, 0) != 1:
            cand.pop(n.id, None)
        if isinstance(n, ast.Call) and isinstance(n.func, ast.Attribute) and \
                isinstance(n.func.value, ast.Name) and \
                n.func.value.id in cand and n.func.attr in (
                    'append', 'extend', 'add', 'update', 'pop', 'remove',
                    'clear', 'setdefault', 'insert', 'discard', 'sort'):
            cand.pop(n.func.value.id, None)
        if isinstance(n, (ast.Subscript,)) and isinstance(
                n.ctx, (ast.Store, ast.Del)) and isinstance(
                n.value, ast.Name):
            cand.pop(n.value.id, None)
    table = {k: v for k, v in cand.items() if k not in known and
             stores.get(k, 0) == 1}
    # shadowed by a local/parameter somewhere: keep it simple, skip the name
    for n in ast.walk(tree):
        if isinstance(n, FUNC):
            a = n.args
            for p in a.args + a.kwonlyargs + getattr(a, 'posonlyargs', []):
                table.pop(p.arg, None)
    for fn in [n for n in ast.walk(tree) if isinstance(n, FUNC)]:
        for x in ast.walk(fn):
            if isinstance(x, ast.Name) and isinstance(x.ctx, ast.Store):
                table.pop(x.id, None)
    if not table:
        return 0
    # constants defined from other new constants
    for _ in range(4):
        for k in list(table):
            table[k] = _SubstConst({a: b for a, b in table.items()
                                    if a != k}).visit(copy.deepcopy(table[k]))
    sub = _SubstConst(table)
    for st in tree.body:
        if isinstance(st, ast.Assign) and len(st.targets) == 1 and \
                isinstance(st.targets[0], ast.Name) and \
                st.targets[0].id in table:
            continue
        sub.visit(st)
    return sub.n


# --------------------------------------------------------------------------
def signature_table(trees):
    """{simple name: [parameter names]} for functions/methods/classes whose
    simple name is defined exactly once in the whole program (``self``/``cls``
    dropped; constructors listed under the class name)."""
    seen = {}

    def add(name, fn, drop_first):
        a = fn.args
        if a.vararg or getattr(a, 'posonlyargs', None):
            seen.setdefault(name, []).append(None)
            return
        ps = [p.arg for p in a.args]
        if drop_first and ps:
            ps = ps[1:]
        seen.setdefault(name, []).append(ps)

    for tree in trees:
        def walk(body, cls):
            for n in body:
                if isinstance(n, FUNC):
                    static = any(isinstance(d, ast.Name) and
                                 d.id == 'staticmethod'
                                 for d in n.decorator_list)
                    if cls is not None and n.name == '__init__':
                        add(cls, n, True)
                    elif not (n.name.startswith('__') and
                              n.name.endswith('__')):
                        add(n.name, n, cls is not None and not static)
                    # nested functions: names only (poison duplicates)
                    for x in ast.walk(n):
                        if isinstance(x, FUNC) and x is not n:
                            seen.setdefault(x.name, []).append(None)
                elif isinstance(n, ast.ClassDef):
                    if not any(isinstance(m, FUNC) and m.name == '__init__'
                               for m in n.body):
                        seen.setdefault(n.name, []).append(None)
                    walk(n.body, n.name)
        walk(tree.body, None)
    return {k: v[0] for k, v in seen.items()
            if len(v) == 1 and v[0] is not None}


def kw_to_positional(tree, sigs):
    if not sigs:
        return 0
    n_changed = 0
    for c in ast.walk(tree):
        if not isinstance(c, ast.Call) or not c.keywords:
            continue
        if isinstance(c.func, ast.Name):
            nm = c.func.id
        elif isinstance(c.func, ast.Attribute):
            nm = c.func.attr
        else:
            continue
        ps = sigs.get(nm)
        if ps is None:
            continue
        if any(isinstance(a, ast.Starred) for a in c.args) or \
                any(k.arg is None for k in c.keywords):
            continue
        names = [k.arg for k in c.keywords]
        if any(k not in ps for k in names) or len(c.args) > len(ps):
            continue
        # an explicit self (Base.method(self, ...)) shifts everything
        if isinstance(c.func, ast.Attribute) and c.args and isinstance(
                c.args[0], ast.Name) and c.args[0].id in ('self', 'cls'):
            continue
        moved = False
        while len(c.args) < len(ps):
            want = ps[len(c.args)]
            kw = [k for k in c.keywords if k.arg == want]
            if not kw:
                break
            c.args.append(kw[0].value)
            c.keywords.remove(kw[0])
            moved = True
        if moved:
            n_changed += 1
    return n_changed


# --------------------------------------------------------------------------
class _SubstNames(ast.NodeTransformer):
    def __init__(self, mapping):
        self.mapping = mapping

    def visit_Name(self, n):
        if isinstance(n.ctx, ast.Load) and n.id in self.mapping:
            new = _mark(copy.deepcopy(self.mapping[n.id]))
            for x in ast.walk(new):
                ast.copy_location(x, n)
            return new
        return n


def _rows(it):
    if isinstance(it, (ast.Tuple, ast.List)) and 0 < len(it.elts) <= MAX_ROWS:
        return it.elts
    return None


def _target_names(t):
    if isinstance(t, ast.Name):
        return [t.id]
    if isinstance(t, (ast.Tuple, ast.List)) and all(
            isinstance(x, ast.Name) for x in t.elts):
        return [x.id for x in t.elts]
    return None


def _has(body, kinds, stop_loops=True):
    def walk(node):
        for ch in ast.iter_child_nodes(node):
            if isinstance(ch, FUNC + (ast.Lambda, ast.ClassDef)):
                continue
            if stop_loops and isinstance(ch, (ast.For, ast.While)):
                # break/continue inside belong to the inner loop
                for x in ch.orelse:
                    if isinstance(x, kinds) or walk(x):
                        return True
                continue
            if isinstance(ch, kinds):
                return True
            if walk(ch):
                return True
        return False
    for s in body:
        if isinstance(s, kinds):
            return True
        if not (stop_loops and isinstance(s, (ast.For, ast.While))):
            if walk(s):
                return True
    return False


def _assigned(body, names):
    for s in body:
        for x in ast.walk(s):
            if isinstance(x, ast.Name) and isinstance(
                    x.ctx, (ast.Store, ast.Del)) and x.id in names:
                return True
    return False


def _bind(loop, row):
    names = _target_names(loop.target)
    if names is None:
        return None
    if isinstance(loop.target, ast.Name):
        vals = [row]
    else:
        if not isinstance(row, (ast.Tuple, ast.List)) or \
                len(row.elts) != len(names):
            return None
        vals = row.elts
    if not all(alpha._pure(v) or _literal(v) for v in vals):
        return None
    return dict(zip(names, vals))


def _expand(loop):
    """-> list of statements replacing the loop, or None."""
    rows = _rows(loop.iter)
    names = _target_names(loop.target)
    if rows is None or names is None:
        return None
    if _assigned(loop.body, set(names)) or _has(loop.body, (ast.Continue,)):
        return None
    binds = [_bind(loop, r) for r in rows]
    if any(b is None for b in binds):
        return None

    def body_for(b, stmts):
        out = []
        for s in stmts:
            out.append(_SubstNames(b).visit(copy.deepcopy(s)))
        return out
    if not _has(loop.body, (ast.Break,)):
        if loop.orelse:
            tail = [copy.deepcopy(s) for s in loop.orelse]
        else:
            tail = []
        out = []
        for b in binds:
            out.extend(body_for(b, loop.body))
        return out + tail
    # ``if c: ...; break`` scan with optional else -> if/elif chain
    if len(loop.body) == 1 and isinstance(loop.body[0], ast.If) and \
            not loop.body[0].orelse and loop.body[0].body and isinstance(
            loop.body[0].body[-1], ast.Break) and not _has(
            loop.body[0].body[:-1], (ast.Break,)):
        chain = None
        last = None
        for b in binds:
            iff = loop.body[0]
            new = ast.If(test=_SubstNames(b).visit(copy.deepcopy(iff.test)),
                         body=body_for(b, iff.body[:-1]) or [ast.Pass()],
                         orelse=[])
            ast.copy_location(new, loop)
            for x in ast.walk(new):
                if not hasattr(x, 'lineno'):
                    ast.copy_location(x, loop)
            if chain is None:
                chain = new
            else:
                last.orelse = [new]
            last = new
        last.orelse = [copy.deepcopy(s) for s in loop.orelse]
        return [chain]
    return None


class _GetattrConst(ast.NodeTransformer):
    def visit_Call(self, c):
        self.generic_visit(c)
        if isinstance(c.func, ast.Name) and c.func.id == 'getattr' and \
                len(c.args) == 2 and not c.keywords and isinstance(
                c.args[1], ast.Constant) and isinstance(
                c.args[1].value, str) and c.args[1].value.isidentifier() and \
                getattr(c.args[1], '_tn_new', False):
            return ast.copy_location(ast.Attribute(
                value=c.args[0], attr=c.args[1].value, ctx=ast.Load()), c)
        return c


class _NewLiteralForms(ast.NodeTransformer):
    """Forms that only arise from hoisting a literal into a constant:
    ``f(**{'a': 1})`` is ``f(a=1)``; a hoisted ``frozenset((A, B))`` that is
    only compared or searched is the ``set((A, B))`` it replaced."""

    def visit_Call(self, c):
        self.generic_visit(c)
        kws = []
        for k in c.keywords:
            if k.arg is None and isinstance(k.value, ast.Call) and getattr(
                    k.value, '_tn_new', False) and isinstance(
                    k.value.func, ast.Name) and k.value.func.id == 'dict' \
                    and not k.value.args and all(
                        x.arg is not None for x in k.value.keywords):
                kws.extend(k.value.keywords)
            elif k.arg is None and isinstance(k.value, ast.Dict) and getattr(
                    k.value, '_tn_new', False) and all(
                    isinstance(x, ast.Constant) and isinstance(x.value, str)
                    and x.value.isidentifier() for x in k.value.keys):
                for kk, vv in zip(k.value.keys, k.value.values):
                    kws.append(ast.keyword(arg=kk.value, value=vv))
            else:
                kws.append(k)
        c.keywords = kws
        if isinstance(c.func, ast.Name) and c.func.id == 'frozenset' and \
                getattr(c, '_tn_new', False):
            c.func.id = 'set'
        return c


class _BoolDict(ast.NodeTransformer):
    def visit_Subscript(self, s):
        self.generic_visit(s)
        d = s.value
        if isinstance(s.ctx, ast.Load) and isinstance(d, ast.Dict) and \
                getattr(d, '_tn_new', False) and len(d.keys) == 2 and all(
                isinstance(k, ast.Constant) and isinstance(k.value, bool)
                for k in d.keys) and {k.value for k in d.keys} == {True,
                                                                   False}:
            by = {k.value: v for k, v in zip(d.keys, d.values)}
            return ast.copy_location(ast.IfExp(
                test=s.slice, body=by[True], orelse=by[False]), s)
        return s


def unroll(tree, relpath):
    """Expand loops over literal tables whose loop variables are new locals."""
    base = alpha.table().get(relpath)
    if base is None:
        return 0
    n = 0
    for q, fn in alpha.outer_functions(tree):
        want = base.get(q)
        recorded = {nm for s, i, nm in (want or [])}
        if q not in (base.get('__functions__') or ()):
            recorded = set()
        for _ in range(6):
            done = False
            for parent in ast.walk(fn):
                for fld in ('body', 'orelse', 'finalbody'):
                    lst = getattr(parent, fld, None)
                    if not isinstance(lst, list):
                        continue
                    for i, st in enumerate(lst):
                        if not isinstance(st, ast.For):
                            continue
                        names = _target_names(st.target)
                        if names is None or set(names) & recorded:
                            continue
                        new = _expand(st)
                        if new is None:
                            continue
                        for s_ in new:
                            for x in ast.walk(s_):
                                if not hasattr(x, 'lineno'):
                                    ast.copy_location(x, st)
                        lst[i:i + 1] = new or [ast.copy_location(ast.Pass(),
                                                                 st)]
                        n += 1
                        done = True
                        break
                    if done:
                        break
                if done:
                    break
            if not done:
                break
    if n or any(getattr(x, '_tn_new', False) for x in ast.walk(tree)):
        _GetattrConst().visit(tree)
        _BoolDict().visit(tree)
        _NewLiteralForms().visit(tree)
        ast.fix_missing_locations(tree)
    return n
