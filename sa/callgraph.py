"""Repository-specific call resolution and reachability.

Edges carry a strength: 'strong' (import table, self/super through the MRO
plus overriding subclasses, explicit Class.method, receiver-role table) or
'weak' (name-only match over all classes).  Reachability-based rules report
only over strong edges; weak edges widen what is recorded, never what is
reported.
"""
import ast

from .core import (ClassInfo, FuncInfo, Module, dotted, calls_in, parent,
                   enclosing_function, walk_no_defs)

# receiver text (suffix match on the dotted receiver) -> class family roots
ROLE_TABLE = [
    # (predicate on dotted receiver, [class fq ...])
    (lambda r: r in ('ctx', 'p_ctx', 'initial_ctx', 'other_ctx', 'retval_ctx')
        or r.endswith('_ctx'), ['spyne.context:MethodContext']),
    (lambda r: r.endswith('.transport') and ('ctx' in r),
        ['spyne.context:TransportContext']),
    (lambda r: r.endswith('app.interface') or r in ('interface', 'self.interface'),
        ['spyne.interface._base:Interface']),
    (lambda r: r.endswith('event_manager'), ['spyne.evmgr:EventManager']),
    (lambda r: r.endswith('in_protocol') or r.endswith('out_protocol')
        or r in ('prot', 'protocol', 'self.protocol', 'in_protocol',
                 'out_protocol', 'p'),
        ['spyne.protocol._base:ProtocolMixin']),
    (lambda r: r in ('self.app', 'app', 'ctx.app', 'p_ctx.app') or
        r.endswith('.app'), ['spyne.application:Application']),
    (lambda r: r in ('cls', 'member', 'subcls', 'class_', 'newclass',
                     'member_type', 'v', 'orig_cls', 'serializer', 'base',
                     'retval') or r.endswith('.type') or r.endswith('_class'),
        ['spyne.model._base:ModelBase']),
    (lambda r: r.endswith('.descriptor') or r in ('descriptor', 'method',
                                                  'method_descriptor', 'd'),
        ['spyne.descriptor:MethodDescriptor']),
    (lambda r: r.endswith('wsdl11'), ['spyne.interface.wsdl.wsdl11:Wsdl11']),
    (lambda r: r.endswith('xml_schema'),
        ['spyne.interface.xml_schema._base:XmlSchema']),
]

COMMON_NAMES = {
    'get', 'append', 'add', 'update', 'items', 'keys', 'values', 'join',
    'format', 'encode', 'decode', 'split', 'strip', 'pop', 'extend', 'copy',
    'insert', 'remove', 'startswith', 'endswith', 'replace', 'lower', 'upper',
    'debug', 'info', 'warning', 'error', 'exception', 'critical', 'set',
    'write', 'read', 'close', 'send', 'index', 'count', 'sort', 'find',
    'group', 'groupdict', 'match', 'search', 'isoformat', 'setdefault',
    'clear', 'release', 'acquire', 'start', 'run', 'next', 'iter',
    '__init__', 'customize', 'rsplit', 'partition', 'rpartition', 'tostring',
    'total_seconds', 'astimezone', 'strftime', 'title', 'fromstring',
}


class CallGraph(object):
    def __init__(self, prog):
        self.prog = prog
        self._edges = {}     # FuncInfo -> [(Call, FuncInfo, strength)]
        self._by_name = None
        self._func_of_node = {}
        for f in prog.all_functions():
            self._func_of_node[f.node] = f

    def finfo_of(self, node):
        """FuncInfo enclosing an AST node."""
        fn = node if isinstance(node, (ast.FunctionDef, ast.AsyncFunctionDef)) \
            else enclosing_function(node)
        while fn is not None and fn not in self._func_of_node:
            fn = enclosing_function(fn)
        return self._func_of_node.get(fn)

    def methods_named(self, name):
        if self._by_name is None:
            self._by_name = {}
            for f in self.prog.all_functions():
                if f.cls is not None:
                    self._by_name.setdefault(f.name, []).append(f)
        return self._by_name.get(name, [])

    # ------------------------------------------------------------------
    def _class_targets(self, c, name, with_overrides=True):
        out = []
        m = self.prog.find_method(c, name)
        if m is not None:
            out.append(m)
        if with_overrides:
            for k in self.prog.subclasses(c, strict=True):
                if name in k.methods and k.methods[name] not in out:
                    out.append(k.methods[name])
        return out

    def static_class(self, f):
        """Class whose method f is (following closures)."""
        g = f
        while g is not None:
            if g.cls is not None:
                return g.cls
            g = g.outer
        return None

    def resolve(self, f, call):
        """-> [(FuncInfo, strength)] for a Call node inside function f."""
        prog = self.prog
        m = f.module
        fn = call.func
        out = []
        if isinstance(fn, ast.Name):
            # nested function in enclosing scopes
            g = f
            while g is not None:
                qn = g.qualname + '.' + fn.id
                if qn in m.functions:
                    return [(m.functions[qn], 'strong')]
                if qn in m.classes:
                    return self._ctor(m.classes[qn])
                g = g.outer
            r = prog.resolve_in_module(m, fn.id)
            if isinstance(r, FuncInfo):
                return [(r, 'strong')]
            if isinstance(r, ClassInfo):
                return self._ctor(r)
            return []
        if not isinstance(fn, ast.Attribute):
            return []
        name = fn.attr
        recv = fn.value
        # super(...).m()
        if isinstance(recv, ast.Call) and isinstance(recv.func, ast.Name) \
                and recv.func.id == 'super':
            c = self.static_class(f)
            if recv.args:
                rc = prog.resolve_expr(m, recv.args[0])
                if isinstance(rc, ClassInfo):
                    c0 = rc
                else:
                    c0 = c
            else:
                c0 = c
            if c is not None and c0 is not None:
                mro = prog.mro(c)
                if c0 in mro:
                    for k in mro[mro.index(c0) + 1:]:
                        if isinstance(k, ClassInfo) and name in k.methods:
                            return [(k.methods[name], 'strong')]
            return []
        d = dotted(recv)
        if d is None:
            return self._weak(name)
        # self.m() / cls.m() inside a method
        c = self.static_class(f)
        if d in ('self', 'cls') and c is not None and \
                (f.params()[:1] == [d] or self._outer_has_param(f, d)):
            # private name mangling
            if name.startswith('__') and not name.endswith('__'):
                mangled = name
                t = self._class_targets(c, mangled, with_overrides=False)
            else:
                t = self._class_targets(c, name)
            if t:
                return [(x, 'strong') for x in t]
            # self.attr holding a function: handler slots etc.
            return []
        # explicit Class.method or module.function
        r = prog.resolve_in_module(m, d + '.' + name)
        if isinstance(r, FuncInfo):
            return [(r, 'strong')]
        if isinstance(r, ClassInfo):
            return self._ctor(r)
        rc = prog.resolve_in_module(m, d)
        if isinstance(rc, ClassInfo):
            t = self._class_targets(rc, name, with_overrides=False)
            return [(x, 'strong') for x in t]
        if isinstance(rc, Module):
            return []
        # receiver roles
        for pred, roots in ROLE_TABLE:
            try:
                ok = pred(d)
            except Exception:
                ok = False
            if ok:
                for root in roots:
                    rc = prog.cls(root, required=False)
                    if rc is None:
                        continue
                    t = self._class_targets(rc, name)
                    out.extend((x, 'strong') for x in t)
                if out:
                    return out
        return self._weak(name)

    def _outer_has_param(self, f, name):
        g = f.outer
        while g is not None:
            if name in g.params():
                return True
            g = g.outer
        return False

    def _ctor(self, c):
        out = []
        for nm in ('__init__', '__new__'):
            mm = self.prog.find_method(c, nm)
            if mm is not None:
                out.append((mm, 'strong'))
        return out

    def _weak(self, name):
        if name in COMMON_NAMES:
            return []
        return [(x, 'weak') for x in self.methods_named(name)]

    # ------------------------------------------------------------------
    def edges(self, f):
        if f in self._edges:
            return self._edges[f]
        out = []
        for call in calls_in(f.node):
            for g, strength in self.resolve(f, call):
                out.append((call, g, strength))
        # property stores: ctx.descriptor = x is a call of the setter -- skip
        self._edges[f] = out
        return out

    def reachable(self, roots, strong_only=True, extra_edges=None,
                  stop=None):
        """Functions reachable from roots -> {FuncInfo: (pred FuncInfo, Call)}
        (first-found path)."""
        seen = {}
        todo = []
        for r in roots:
            if r is not None and r not in seen:
                seen[r] = (None, None)
                todo.append(r)
        while todo:
            f = todo.pop(0)
            if stop is not None and stop(f):
                continue
            es = list(self.edges(f))
            if extra_edges:
                es.extend(extra_edges(f))
            for call, g, strength in es:
                if strong_only and strength != 'strong':
                    continue
                if g not in seen:
                    seen[g] = (f, call)
                    todo.append(g)
        return seen

    def path_to(self, seen, f):
        out = []
        while f is not None:
            out.append(f.qualname)
            f = seen.get(f, (None, None))[0]
        return ' <- '.join(out)

    def callers(self, target, strong_only=True):
        """[(caller FuncInfo, Call)] over the whole program."""
        out = []
        for f in self.prog.all_functions():
            for call, g, strength in self.edges(f):
                if g is target and (strength == 'strong' or not strong_only):
                    out.append((f, call))
        return out
