"""Program model for the static checkers: loader, symbols, class hierarchy.

Pure stdlib.  Nothing under /repo is imported or executed: every module is
parsed with ``ast`` and indexed.  An *overlay* {relative path: source text} lets
a mutated variant of a module be analysed without touching the disk.
"""
import ast
import os
import sys
import warnings

warnings.filterwarnings('ignore', category=SyntaxWarning)

REPO = os.environ.get('SPYNE_REPO', '/repo')
PKG = 'spyne'

EXCLUDE_DIRS = ('spyne/test',)
EXCLUDE_FILES = ('spyne/util/six.py',)


class AnalysisError(Exception):
    """The analysis itself cannot run (vanished anchor, parse failure, instance
    floor not met).  Exit code 2, never a VIOLATION."""

    def __init__(self, anchor, why=''):
        Exception.__init__(self, '%s %s' % (anchor, why))
        self.anchor = anchor
        self.why = why


def set_parents(tree):
    for node in ast.walk(tree):
        for child in ast.iter_child_nodes(node):
            child._parent = node
    tree._parent = None
    return tree


def parent(node):
    return getattr(node, '_parent', None)


def ancestors(node):
    node = parent(node)
    while node is not None:
        yield node
        node = parent(node)


def unparse(node):
    try:
        return ast.unparse(node)
    except Exception:  # pragma: no cover
        return '<%s>' % type(node).__name__


def dotted(node):
    """a.b.c for Name/Attribute chains, else None."""
    parts = []
    while isinstance(node, ast.Attribute):
        parts.append(node.attr)
        node = node.value
    if isinstance(node, ast.Name):
        parts.append(node.id)
        return '.'.join(reversed(parts))
    return None


def call_name(call):
    """Last identifier of the callee: f(...) -> 'f', a.b.f(...) -> 'f'."""
    f = call.func
    if isinstance(f, ast.Name):
        return f.id
    if isinstance(f, ast.Attribute):
        return f.attr
    return None


def calls_in(node, include_nested_defs=False):
    """Call nodes under ``node`` in source order (approximately evaluation
    order: ordered by position, inner-most first for nested calls)."""
    out = []

    def visit(n):
        for child in ast.iter_child_nodes(n):
            if not include_nested_defs and isinstance(child, (
                    ast.FunctionDef, ast.AsyncFunctionDef, ast.Lambda,
                    ast.ClassDef)):
                continue
            visit(child)
        if isinstance(n, ast.Call):
            out.append(n)

    visit(node)
    return out


def walk_no_defs(node):
    """ast.walk that does not descend into nested function/class/lambda
    bodies (the node itself is always yielded)."""
    todo = [node]
    first = True
    while todo:
        n = todo.pop()
        yield n
        for child in ast.iter_child_nodes(n):
            if isinstance(child, (ast.FunctionDef, ast.AsyncFunctionDef,
                                  ast.Lambda, ast.ClassDef)):
                continue
            todo.append(child)


class FuncInfo(object):
    def __init__(self, module, qualname, node, cls, outer):
        self.module = module
        self.qualname = qualname
        self.node = node
        self.cls = cls          # ClassInfo the function is a method of
        self.outer = outer      # enclosing FuncInfo (closures, class factories)
        self.name = node.name

    @property
    def fq(self):
        return self.module.name + ':' + self.qualname

    @property
    def where(self):
        return '%s:%d' % (self.module.relpath, self.node.lineno)

    def params(self):
        a = self.node.args
        return [x.arg for x in a.posonlyargs + a.args]

    def decorators(self):
        return [dotted(d) or (dotted(d.func) if isinstance(d, ast.Call)
                              else None) for d in self.node.decorator_list]

    def __repr__(self):
        return '<Func %s>' % self.fq


class ClassInfo(object):
    def __init__(self, module, qualname, node, outer_cls, outer_func):
        self.module = module
        self.qualname = qualname
        self.node = node
        self.name = node.name
        self.outer_cls = outer_cls
        self.outer_func = outer_func
        self.methods = {}       # name -> FuncInfo
        self.attrs = {}         # name -> value expr (class-level assignments)
        self.aliases = {}       # name -> other name (m2 = m1 at class level)
        self.nested = {}        # name -> ClassInfo

    @property
    def fq(self):
        return self.module.name + ':' + self.qualname

    @property
    def where(self):
        return '%s:%d' % (self.module.relpath, self.node.lineno)

    def __repr__(self):
        return '<Class %s>' % self.fq


_RAW_SIG_CACHE = {}


def _effective_signatures(sources):
    """Recorded signatures that the current tree still has."""
    from . import alpha, tablenorm
    rec = alpha.table().get('__signatures__') or {}
    if not rec or os.environ.get('VERIF_NO_ALPHA'):
        return {}
    trees = []
    for name, rel, src in sources:
        k = (rel, hash(src), len(src))
        t = _RAW_SIG_CACHE.get(k)
        if t is None:
            try:
                t = ast.parse(src, filename=rel)
            except SyntaxError as e:
                raise AnalysisError('parse:' + rel, str(e))
            # keep only what signature_table reads
            _RAW_SIG_CACHE[k] = t
        trees.append(t)
    cur = tablenorm.signature_table(trees)
    return {k: v for k, v in rec.items() if cur.get(k) == v}


class Module(object):
    def __init__(self, name, relpath, source, sigs=None):
        self.name = name
        self.relpath = relpath
        self.source = source
        self.is_pkg = relpath.endswith('__init__.py')
        try:
            tree = ast.parse(source, filename=relpath)
        except SyntaxError as e:
            raise AnalysisError('parse:' + relpath, str(e))
        # locals are identified by role, not by name (sa/alpha.py)
        from . import alpha, inline, tablenorm
        rec = alpha.table().get(relpath, {})
        known = rec.get('__functions__')
        self.inlined_helpers = 0
        if not os.environ.get('VERIF_NO_ALPHA'):
            alpha.restore_renamed_functions(tree, rec)
            self.inlined_helpers = inline.inline_new_helpers(
                tree, known, rec.get('__calls__'))
            # table-driven rewrites are spelled out again (sa/tablenorm.py)
            tablenorm.inline_new_consts(tree, rec.get('__consts__'))
            tablenorm.kw_to_positional(
                tree, sigs if sigs is not None
                else alpha.table().get('__signatures__'))
        self.renamed_locals = alpha.normalise(tree, relpath)
        if not os.environ.get('VERIF_NO_ALPHA'):
            tablenorm.unroll(tree, relpath)
        if not os.environ.get('VERIF_NO_NNF'):
            from . import nnf
            nnf.normalise(tree)
        self.tree = set_parents(tree)
        self.imports = {}    # local alias -> fully qualified dotted target
        self.functions = {}  # qualname -> FuncInfo
        self.classes = {}    # qualname -> ClassInfo
        self.consts = {}     # top-level NAME -> value expr
        self._index()

    # -- indexing ---------------------------------------------------------
    def _pkg_of(self):
        if self.is_pkg:
            return self.name
        return self.name.rpartition('.')[0]

    def _index(self):
        for node in ast.walk(self.tree):
            if isinstance(node, ast.Import):
                for a in node.names:
                    if a.asname:
                        self.imports[a.asname] = a.name
                    else:
                        top = a.name.split('.')[0]
                        self.imports.setdefault(top, top)
            elif isinstance(node, ast.ImportFrom):
                base = node.module or ''
                if node.level:
                    pkg = self._pkg_of().split('.')
                    if node.level > 1:
                        pkg = pkg[:-(node.level - 1)]
                    base = '.'.join(pkg + ([base] if base else []))
                for a in node.names:
                    if a.name == '*':
                        self.imports.setdefault('*', [])
                        self.imports['*'].append(base)
                    else:
                        self.imports[a.asname or a.name] = base + '.' + a.name
        self._index_body(self.tree.body, '', None, None)
        for node in self.tree.body:
            if isinstance(node, ast.Assign):
                for t in node.targets:
                    if isinstance(t, ast.Name):
                        self.consts[t.id] = node.value
                    elif isinstance(t, ast.Tuple) and isinstance(
                            node.value, ast.Tuple) and \
                            len(t.elts) == len(node.value.elts):
                        for tt, vv in zip(t.elts, node.value.elts):
                            if isinstance(tt, ast.Name):
                                self.consts[tt.id] = vv

    def _index_body(self, body, prefix, cls, func):
        for node in body:
            if isinstance(node, (ast.FunctionDef, ast.AsyncFunctionDef)):
                qn = prefix + node.name
                fi = FuncInfo(self, qn, node, cls, func)
                # later definitions win, like at run time
                self.functions[qn] = fi
                if cls is not None:
                    cls.methods[node.name] = fi
                self._index_func_body(node, qn + '.', fi)
            elif isinstance(node, ast.ClassDef):
                qn = prefix + node.name
                ci = ClassInfo(self, qn, node, cls, func)
                self.classes[qn] = ci
                if cls is not None:
                    cls.nested[node.name] = ci
                self._index_body(node.body, qn + '.', ci, func)
            elif isinstance(node, ast.Assign) and cls is not None:
                for t in node.targets:
                    if isinstance(t, ast.Name):
                        cls.attrs[t.id] = node.value
                        if isinstance(node.value, ast.Name):
                            cls.aliases[t.id] = node.value.id
                        # m = staticmethod(_module_function): the function is
                        # the method (a body moved to module level verbatim)
                        v = node.value
                        wrap = None
                        if isinstance(v, ast.Call) and isinstance(
                                v.func, ast.Name) and v.func.id in (
                                    'staticmethod', 'classmethod') and \
                                len(v.args) == 1 and isinstance(
                                    v.args[0], ast.Name):
                            wrap, v = v.func.id, v.args[0]
                        if wrap and isinstance(v, ast.Name) and \
                                v.id in self.functions and \
                                self.functions[v.id].cls is None:
                            import copy as _copy
                            src = self.functions[v.id].node
                            twin = _copy.copy(src)
                            twin.decorator_list = list(src.decorator_list) + [
                                ast.copy_location(ast.Name(
                                    id=wrap, ctx=ast.Load()), src)]
                            twin.name = t.id
                            twin._parent = getattr(src, '_parent', None)
                            fi = FuncInfo(self, prefix + t.id, twin, cls,
                                          func)
                            self.functions[prefix + t.id] = fi
                            cls.methods[t.id] = fi
            elif isinstance(node, ast.AnnAssign) and cls is not None and \
                    isinstance(node.target, ast.Name) and node.value:
                cls.attrs[node.target.id] = node.value
            elif isinstance(node, (ast.If, ast.Try, ast.With)):
                # conditional definitions at module / class level
                for fld in ('body', 'orelse', 'finalbody'):
                    self._index_body(getattr(node, fld, []) or [], prefix,
                                     cls, func)
                for h in getattr(node, 'handlers', []) or []:
                    self._index_body(h.body, prefix, cls, func)

    def _index_func_body(self, fnode, prefix, fi):
        # nested defs and classes anywhere inside the function body
        def visit(stmts):
            for node in stmts:
                if isinstance(node, (ast.FunctionDef, ast.AsyncFunctionDef)):
                    qn = prefix + node.name
                    sub = FuncInfo(self, qn, node, None, fi)
                    self.functions[qn] = sub
                    self._index_func_body(node, qn + '.', sub)
                elif isinstance(node, ast.ClassDef):
                    qn = prefix + node.name
                    ci = ClassInfo(self, qn, node, None, fi)
                    self.classes[qn] = ci
                    self._index_body(node.body, qn + '.', ci, fi)
                else:
                    for fld in ('body', 'orelse', 'finalbody'):
                        sub = getattr(node, fld, None)
                        if isinstance(sub, list):
                            visit(sub)
                    for h in getattr(node, 'handlers', []) or []:
                        visit(h.body)
        visit(fnode.body)


_PARSE_CACHE = {}


class Program(object):
    """All non-test modules of the package, indexed."""

    def __init__(self, repo=None, overlay=None):
        self.repo = repo or REPO
        self.overlay = dict(overlay or {})
        self.modules = {}       # dotted name -> Module
        self.by_path = {}       # relpath -> Module
        self._mro = {}
        self._subs = None
        self._bases = {}        # ClassInfo -> [ClassInfo | str (external)]
        self._load()
        self._resolve_bases()

    def _load(self):
        root = os.path.join(self.repo, PKG)
        if not os.path.isdir(root):
            raise AnalysisError('repo', '%s not found' % root)
        sources = []
        for dirpath, dirnames, filenames in os.walk(root):
            rel_dir = os.path.relpath(dirpath, self.repo)
            if any(rel_dir == d or rel_dir.startswith(d + os.sep)
                   for d in EXCLUDE_DIRS):
                dirnames[:] = []
                continue
            dirnames.sort()
            for fn in sorted(filenames):
                if not fn.endswith('.py'):
                    continue
                rel = os.path.join(rel_dir, fn)
                if rel in EXCLUDE_FILES:
                    continue
                if rel in self.overlay:
                    src = self.overlay[rel]
                else:
                    with open(os.path.join(self.repo, rel), 'rb') as f:
                        src = f.read().decode('utf-8', 'replace')
                name = rel[:-3].replace(os.sep, '.')
                if name.endswith('.__init__'):
                    name = name[:-9]
                sources.append((name, rel, src))
        # keyword arguments are made positional only for callees whose
        # signature is still the recorded one (sa/tablenorm.py)
        sigs = _effective_signatures(sources)
        sig_key = hash(tuple(sorted((k, tuple(v)) for k, v in sigs.items())))
        # private names used by more than one module: a new helper with such
        # a name stays defined after its uses in its own module are expanded
        import re as _re
        seen_in = {}
        for name, rel, src in sources:
            for nm in set(_re.findall(r'\b_[A-Za-z][A-Za-z0-9_]*\b', src)):
                seen_in[nm] = seen_in.get(nm, 0) + 1
        shared = {nm for nm, k in seen_in.items() if k >= 2}
        from . import inline as _inline
        _inline.KEEP_NAMES = shared
        for name, rel, src in sources:
            keep_key = hash(tuple(sorted(
                nm for nm in shared if ('def ' + nm + '(') in src)))
            key = (rel, hash(src), len(src), sig_key, keep_key)
            m = _PARSE_CACHE.get(key)
            if m is None:
                m = _PARSE_CACHE[key] = Module(name, rel, src, sigs)
            self.modules[name] = m
            self.by_path[rel] = m

    # -- name resolution --------------------------------------------------
    def resolve_fq(self, fq, _depth=0):
        """Resolve a dotted fully-qualified name to Module/ClassInfo/FuncInfo/
        ('const', Module, name) or None.  Follows re-exports."""
        if _depth > 8 or not fq:
            return None
        if fq in self.modules:
            return self.modules[fq]
        parts = fq.split('.')
        for i in range(len(parts) - 1, 0, -1):
            mname = '.'.join(parts[:i])
            m = self.modules.get(mname)
            if m is None:
                continue
            rest = parts[i:]
            obj = self._lookup_in_module(m, rest, _depth)
            if obj is not None:
                return obj
            return None
        return None

    def _lookup_in_module(self, m, rest, _depth):
        head = rest[0]
        qn = '.'.join(rest)
        if qn in m.classes:
            return m.classes[qn]
        if qn in m.functions:
            return m.functions[qn]
        if head in m.classes or head in m.functions:
            if len(rest) == 1:
                return m.classes.get(head) or m.functions.get(head)
            c = m.classes.get(head)
            if c is not None:
                return self._lookup_in_class(c, rest[1:])
            return None
        if head in m.imports and head != '*':
            target = m.imports[head] + ('.' + '.'.join(rest[1:])
                                        if len(rest) > 1 else '')
            return self.resolve_fq(target, _depth + 1)
        if head in m.consts and len(rest) == 1:
            v = m.consts[head]
            # NAME = other_name alias
            d = dotted(v)
            if d is not None:
                r = self.resolve_in_module(m, d, _depth + 1)
                if r is not None:
                    return r
            return ('const', m, head)
        for star in m.imports.get('*', []):
            r = self.resolve_fq(star + '.' + qn, _depth + 1)
            if r is not None:
                return r
        return None

    def _lookup_in_class(self, c, rest):
        name = rest[0]
        if len(rest) == 1:
            if name in c.methods:
                return c.methods[name]
            if name in c.nested:
                return c.nested[name]
            return None
        if name in c.nested:
            return self._lookup_in_class(c.nested[name], rest[1:])
        return None

    def resolve_in_module(self, m, dotted_name, _depth=0):
        """Resolve a dotted name as written inside module ``m``."""
        if dotted_name is None:
            return None
        rest = dotted_name.split('.')
        return self._lookup_in_module(m, rest, _depth)

    def resolve_expr(self, m, expr):
        return self.resolve_in_module(m, dotted(expr))

    # -- hierarchy --------------------------------------------------------
    def _resolve_bases(self):
        for m in self.modules.values():
            for c in m.classes.values():
                bases = self._bases[c] = []
                for b in c.node.bases:
                    d = dotted(b)
                    r = None
                    if d is not None:
                        # a base named inside a class factory may be a local
                        # or an outer-scope class
                        r = self._resolve_scoped(c, d)
                    if isinstance(r, ClassInfo):
                        bases.append(r)
                    else:
                        bases.append(d or unparse(b))

    def _resolve_scoped(self, c, d):
        m = c.module
        head = d.split('.')[0]
        # enclosing function locals (class factories)
        f = c.outer_func
        while f is not None:
            qn = f.qualname + '.' + d
            if qn in m.classes:
                return m.classes[qn]
            f = f.outer
        # enclosing class nested names e.g. Attributes(ModelBase.Attributes)
        oc = c.outer_cls
        if oc is not None and head in oc.nested and oc.nested[head] is not c:
            r = self._lookup_in_class(oc, d.split('.'))
            if r is not None:
                return r
        r = self.resolve_in_module(m, d)
        if r is None and '.' in d:
            # X.Attributes where X resolves to a class: search X's MRO
            base, _, last = d.rpartition('.')
            rb = self._resolve_scoped(c, base)
            if isinstance(rb, ClassInfo):
                for k in self.mro(rb):
                    if isinstance(k, ClassInfo) and last in k.nested:
                        return k.nested[last]
        return r

    def bases(self, c):
        return self._bases.get(c, [])

    def mro(self, c):
        """C3-ish linearisation; unknown bases appear as strings."""
        if c in self._mro:
            return self._mro[c]
        self._mro[c] = [c]  # cycle guard
        seqs = []
        for b in self.bases(c):
            if isinstance(b, ClassInfo):
                seqs.append(list(self.mro(b)))
            else:
                seqs.append([b])
        seqs.append(list(self.bases(c)))
        res = [c]
        while True:
            seqs = [s for s in seqs if s]
            if not seqs:
                break
            for s in seqs:
                cand = s[0]
                if not any(cand in t[1:] for t in seqs):
                    break
            else:
                cand = seqs[0][0]  # inconsistent: give up on order
            res.append(cand)
            for s in seqs:
                if s and s[0] == cand:
                    del s[0]
        self._mro[c] = res
        return res

    def is_subclass(self, c, base):
        """base: ClassInfo or simple class name."""
        for k in self.mro(c):
            if k is base:
                return True
            if isinstance(base, str):
                if isinstance(k, ClassInfo) and k.name == base:
                    return True
                if isinstance(k, str) and k.split('.')[-1] == base:
                    return True
        return False

    def subclasses(self, c, strict=False):
        if self._subs is None:
            self._subs = {}
            for k in self.all_classes():
                for b in self.mro(k):
                    if isinstance(b, ClassInfo):
                        self._subs.setdefault(b, []).append(k)
        out = self._subs.get(c, [])
        return [k for k in out if not (strict and k is c)]

    def find_method(self, c, name, _depth=0):
        """First definition of ``name`` along the MRO (FuncInfo) or None.
        Class-level aliases ``a = b`` are followed."""
        if _depth > 5:
            return None
        for k in self.mro(c):
            if not isinstance(k, ClassInfo):
                continue
            if name in k.methods:
                return k.methods[name]
            if name in k.aliases and k.aliases[name] != name:
                r = self.find_method(k, k.aliases[name], _depth + 1)
                if r is not None:
                    return r
            if name in k.attrs:
                v = k.attrs[name]
                # name = OtherClass.method
                r = self.resolve_expr(k.module, v)
                if isinstance(r, FuncInfo):
                    return r
        return None

    def find_attr(self, c, name):
        """(owner ClassInfo, value expr) of a class-level attribute."""
        for k in self.mro(c):
            if isinstance(k, ClassInfo) and name in k.attrs:
                return k, k.attrs[name]
        return None, None

    # -- enumeration ------------------------------------------------------
    def all_classes(self):
        for m in self.modules.values():
            for c in m.classes.values():
                yield c

    def all_functions(self):
        for m in self.modules.values():
            for f in m.functions.values():
                yield f

    def cls(self, fq, required=True):
        """'spyne.server.wsgi:WsgiApplication'"""
        mname, _, qn = fq.partition(':')
        m = self.modules.get(mname)
        c = m.classes.get(qn) if m is not None else None
        if c is None and required:
            raise AnalysisError('class ' + fq, 'not found')
        return c

    def func(self, fq, required=True):
        mname, _, qn = fq.partition(':')
        m = self.modules.get(mname)
        f = m.functions.get(qn) if m is not None else None
        if f is None and required:
            raise AnalysisError('function ' + fq, 'not found')
        return f

    def method(self, cls_fq, name, required=True):
        c = self.cls(cls_fq, required)
        f = self.find_method(c, name) if c is not None else None
        if f is None and required:
            raise AnalysisError('method %s.%s' % (cls_fq, name), 'not found')
        return f

    def module(self, name, required=True):
        m = self.modules.get(name)
        if m is None and required:
            raise AnalysisError('module ' + name, 'not found')
        return m

    def stats(self):
        return {
            'modules': len(self.modules),
            'functions': sum(len(m.functions) for m in self.modules.values()),
            'classes': sum(len(m.classes) for m in self.modules.values()),
        }


def enclosing_function(node):
    for a in ancestors(node):
        if isinstance(a, (ast.FunctionDef, ast.AsyncFunctionDef, ast.Lambda)):
            return a
    return None
