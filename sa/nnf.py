"""Negation normal form of boolean expressions.

``not`` is pushed inwards (De Morgan), double negations vanish and negated
single-operator comparisons become the complementary comparison, so that
``not (a is None)``, ``not a is None`` and ``a is not None`` - or
``not (A and B)`` and ``not A or not B`` - are one and the same text for every
rule.  Ordering comparisons are complemented too (``not a < b`` -> ``a >= b``):
that is exact for the totally ordered values the analysed conditions compare
(lengths, counters, bounds) and is only used to *read* conditions, never to
rewrite the program.
"""
import ast

COMPLEMENT = {ast.Is: ast.IsNot, ast.IsNot: ast.Is, ast.Eq: ast.NotEq,
              ast.NotEq: ast.Eq, ast.In: ast.NotIn, ast.NotIn: ast.In,
              ast.Lt: ast.GtE, ast.GtE: ast.Lt, ast.Gt: ast.LtE,
              ast.LtE: ast.Gt}


def negate(e):
    """Expression equivalent to ``not e`` with the negation pushed inwards."""
    if isinstance(e, ast.UnaryOp) and isinstance(e.op, ast.Not):
        return push(e.operand)
    if isinstance(e, ast.BoolOp):
        op = ast.Or() if isinstance(e.op, ast.And) else ast.And()
        return ast.copy_location(
            ast.BoolOp(op=op, values=[negate(v) for v in e.values]), e)
    if isinstance(e, ast.Compare) and len(e.ops) == 1 and \
            type(e.ops[0]) in COMPLEMENT:
        return ast.copy_location(ast.Compare(
            left=push(e.left), ops=[COMPLEMENT[type(e.ops[0])]()],
            comparators=[push(c) for c in e.comparators]), e)
    if isinstance(e, ast.Constant) and isinstance(e.value, bool):
        return ast.copy_location(ast.Constant(value=not e.value), e)
    return ast.copy_location(ast.UnaryOp(op=ast.Not(), operand=push(e)), e)


def push(e):
    """NNF of e (a copy where needed; sub-expressions are shared)."""
    if isinstance(e, ast.UnaryOp) and isinstance(e.op, ast.Not):
        return negate(e.operand)
    if isinstance(e, ast.BoolOp):
        vals = []
        for v in e.values:
            v = push(v)
            # flatten nested operators of the same kind
            if isinstance(v, ast.BoolOp) and type(v.op) is type(e.op):
                vals.extend(v.values)
            else:
                vals.append(v)
        e.values = vals
        return e
    return e


class _NNF(ast.NodeTransformer):
    def visit_UnaryOp(self, node):
        self.generic_visit(node)
        if isinstance(node.op, ast.Not):
            return negate(node.operand)
        return node

    def visit_BoolOp(self, node):
        self.generic_visit(node)
        return push(node)


MIRROR = {ast.Lt: ast.Gt, ast.Gt: ast.Lt, ast.LtE: ast.GtE, ast.GtE: ast.LtE,
          ast.Eq: ast.Eq, ast.NotEq: ast.NotEq, ast.Is: ast.Is,
          ast.IsNot: ast.IsNot}


def _is_const(e):
    return isinstance(e, ast.Constant) or (
        isinstance(e, ast.UnaryOp) and isinstance(e.operand, ast.Constant)) \
        or (isinstance(e, ast.Name) and e.id in ('None', 'True', 'False'))


class _ConstRight(ast.NodeTransformer):
    """``0 < len(x)`` is ``len(x) > 0``; ``None is x`` is ``x is None``."""

    def visit_Compare(self, node):
        self.generic_visit(node)
        if len(node.ops) == 1 and type(node.ops[0]) in MIRROR and \
                _is_const(node.left) and not _is_const(node.comparators[0]):
            node.left, node.comparators[0] = node.comparators[0], node.left
            node.ops = [MIRROR[type(node.ops[0])]()]
        return node


class _MergeIfs(ast.NodeTransformer):
    """``if A: if B: S`` (no else on either, nothing else in the outer body)
    is ``if A and B: S``."""

    def visit_If(self, node):
        self.generic_visit(node)
        while (not node.orelse and len(node.body) == 1 and
               isinstance(node.body[0], ast.If) and not node.body[0].orelse):
            inner = node.body[0]
            vals = []
            for t in (node.test, inner.test):
                if isinstance(t, ast.BoolOp) and isinstance(t.op, ast.And):
                    vals.extend(t.values)
                else:
                    vals.append(t)
            node.test = ast.copy_location(
                ast.BoolOp(op=ast.And(), values=vals), node.test)
            node.body = inner.body
        return node


def _sink_returns(fn):
    """``if a: r = X  elif b: r = Y  else: r = Z;  return r``  is
    ``if a: return X  elif b: return Y  else: return Z`` when r is only
    assigned at the tails of that chain."""
    body = fn.body
    if len(body) < 2 or not isinstance(body[-1], ast.Return) or \
            not isinstance(body[-1].value, ast.Name) or \
            not isinstance(body[-2], ast.If):
        return False
    var = body[-1].value.id
    chain = body[-2]
    tails = []

    def collect(node):
        # every branch must end in ``var = E`` (or in a nested chain that
        # does); an absent else means a path without assignment
        for blk in (node.body, node.orelse):
            if not blk:
                return False
            last = blk[-1]
            if isinstance(last, ast.Assign) and len(last.targets) == 1 and \
                    isinstance(last.targets[0], ast.Name) and \
                    last.targets[0].id == var:
                tails.append((blk, last))
            elif isinstance(last, ast.If) and len(blk) == 1:
                if not collect(last):
                    return False
            elif isinstance(last, (ast.Raise, ast.Return)):
                continue
            else:
                return False
        return True
    if not collect(chain):
        return False
    assigned = {id(t) for _, t in tails}
    for n in ast.walk(chain):
        if isinstance(n, ast.Name) and n.id == var:
            p_ok = False
            for _, t in tails:
                if n is t.targets[0]:
                    p_ok = True
            if not p_ok:
                return False
    # nothing else in the function touches var
    for st in body[:-2]:
        for n in ast.walk(st):
            if isinstance(n, ast.Name) and n.id == var:
                return False
    for blk, t in tails:
        blk[-1] = ast.copy_location(ast.Return(value=t.value), t)
    body.pop()
    return True


def _simple(e):
    """Evaluating e has no effect and cannot depend on when it happens
    relative to a condition: names, attribute chains, constants."""
    if isinstance(e, (ast.Name, ast.Constant)):
        return True
    if isinstance(e, ast.Attribute):
        return _simple(e.value)
    return False


class _IfExpToIf(ast.NodeTransformer):
    """``x = A if c else B`` / ``return A if c else B`` / ``f(A if c else B)``
    as statements are the two-branch ``if`` they abbreviate."""

    def _split(self, stmt, holder_get, holder_set):
        v = holder_get(stmt)
        if not isinstance(v, ast.IfExp):
            return None
        import copy
        a, b = copy.deepcopy(stmt), copy.deepcopy(stmt)
        holder_set(a, v.body)
        holder_set(b, v.orelse)
        return ast.copy_location(ast.If(test=v.test, body=[a], orelse=[b]),
                                 stmt)

    def visit_Assign(self, node):
        self.generic_visit(node)
        r = self._split(node, lambda s: s.value,
                        lambda s, x: setattr(s, 'value', x))
        return r or node

    def visit_Return(self, node):
        self.generic_visit(node)
        if node.value is None:
            return node
        r = self._split(node, lambda s: s.value,
                        lambda s, x: setattr(s, 'value', x))
        return r or node

    def visit_Expr(self, node):
        self.generic_visit(node)
        c = node.value
        if not isinstance(c, ast.Call) or not _simple(c.func):
            return node
        idx = [i for i, a in enumerate(c.args) if isinstance(a, ast.IfExp)]
        if len(idx) != 1 or not all(
                _simple(a) for i, a in enumerate(c.args) if i != idx[0]) or \
                not all(_simple(k.value) for k in c.keywords):
            return node
        i = idx[0]

        def get(s):
            return s.value.args[i]

        def set_(s, x):
            s.value.args[i] = x
        r = self._split(node, get, set_)
        return r or node


def _format_to_percent(fmt, nargs):
    """'{0}:{1}' / '{}:{}' -> ('%s:%s', [0, 1]) or None when the format string
    uses anything but plain positional fields."""
    import string
    out = []
    order = []
    auto = 0
    try:
        parts = list(string.Formatter().parse(fmt))
    except ValueError:
        return None
    for lit, field, spec, conv in parts:
        out.append(lit.replace('%', '%%'))
        if field is None:
            continue
        if spec or conv:
            return None
        if field == '':
            idx = auto
            auto += 1
        elif field.isdigit():
            idx = int(field)
        else:
            return None
        if idx >= nargs:
            return None
        order.append(idx)
        out.append('%s')
    return ''.join(out), order


class _FormatToPercent(ast.NodeTransformer):
    """``'{}:{}'.format(a, b)`` and ``f'{a}:{b}'`` are ``'%s:%s' % (a, b)``."""

    def visit_Call(self, node):
        self.generic_visit(node)
        if isinstance(node.func, ast.Attribute) and \
                node.func.attr == 'format' and isinstance(
                node.func.value, ast.Constant) and isinstance(
                node.func.value.value, str) and not node.keywords and \
                not any(isinstance(a, ast.Starred) for a in node.args):
            r = _format_to_percent(node.func.value.value, len(node.args))
            if r is not None:
                fmt, order = r
                args = [node.args[i] for i in order]
                right = ast.Tuple(elts=args, ctx=ast.Load())
                return ast.copy_location(ast.BinOp(
                    left=ast.copy_location(ast.Constant(value=fmt),
                                           node.func.value),
                    op=ast.Mod(), right=ast.copy_location(right, node)), node)
        return node

    def visit_JoinedStr(self, node):
        self.generic_visit(node)
        fmt = []
        args = []
        for v in node.values:
            if isinstance(v, ast.Constant) and isinstance(v.value, str):
                fmt.append(v.value.replace('%', '%%'))
            elif isinstance(v, ast.FormattedValue) and v.conversion == -1 \
                    and v.format_spec is None:
                fmt.append('%s')
                args.append(v.value)
            elif isinstance(v, ast.FormattedValue) and v.conversion == 114 \
                    and v.format_spec is None:
                fmt.append('%r')
                args.append(v.value)
            else:
                return node
        if not args:
            return node
        return ast.copy_location(ast.BinOp(
            left=ast.copy_location(ast.Constant(value=''.join(fmt)), node),
            op=ast.Mod(), right=ast.copy_location(
                ast.Tuple(elts=args, ctx=ast.Load()), node)), node)


class _PercentTuple(ast.NodeTransformer):
    """``'...%s' % x`` with a single placeholder and a non-tuple operand that
    is syntactically not a tuple/dict stays as it is (the runtime meaning
    depends on the operand); ``'...' % (x,)`` is the canonical one-field
    form."""

    def visit_BinOp(self, node):
        self.generic_visit(node)
        return node


def _and_returns(tree):
    """``if A: return B`` directly followed by ``return False`` (B an
    expression that is not a constant) is ``return A and B`` - the form a
    two-sided test is usually written in."""
    for node in ast.walk(tree):
        for fld in ('body', 'orelse', 'finalbody'):
            blk = getattr(node, fld, None)
            if not (isinstance(blk, list) and blk and
                    isinstance(blk[0], ast.stmt)):
                continue
            i = 0
            while i + 1 < len(blk):
                a, b = blk[i], blk[i + 1]
                if isinstance(a, ast.If) and not a.orelse and \
                        len(a.body) == 1 and isinstance(
                            a.body[0], ast.Return) and \
                        a.body[0].value is not None and not isinstance(
                            a.body[0].value, ast.Constant) and \
                        isinstance(b, ast.Return) and isinstance(
                            b.value, ast.Constant) and b.value.value is False:
                    new = ast.copy_location(ast.Return(value=ast.BoolOp(
                        op=ast.And(), values=[a.test, a.body[0].value])), a)
                    blk[i:i + 2] = [new]
                    continue
                i += 1


def _flag_tests(tree):
    """``f = False`` / ``if C: f = True`` / ``if f: ...`` in a row, f used
    nowhere else: the third statement tests C."""
    for fn in ast.walk(tree):
        if not isinstance(fn, (ast.FunctionDef, ast.AsyncFunctionDef)):
            continue
        uses = {}
        for n in ast.walk(fn):
            if isinstance(n, ast.Name):
                uses[n.id] = uses.get(n.id, 0) + 1
        for node in ast.walk(fn):
            for fld in ('body', 'orelse', 'finalbody'):
                blk = getattr(node, fld, None)
                if not (isinstance(blk, list) and blk and
                        isinstance(blk[0], ast.stmt)):
                    continue
                i = 0
                while i + 2 < len(blk):
                    a, b, c = blk[i:i + 3]
                    ok = isinstance(a, ast.Assign) and len(a.targets) == 1 \
                        and isinstance(a.targets[0], ast.Name) and \
                        isinstance(a.value, ast.Constant) and \
                        a.value.value is False
                    f = a.targets[0].id if ok else None
                    ok = ok and isinstance(b, ast.If) and not b.orelse and \
                        len(b.body) == 1 and isinstance(
                            b.body[0], ast.Assign) and \
                        len(b.body[0].targets) == 1 and isinstance(
                            b.body[0].targets[0], ast.Name) and \
                        b.body[0].targets[0].id == f and isinstance(
                            b.body[0].value, ast.Constant) and \
                        b.body[0].value.value is True and not any(
                            isinstance(x, ast.Name) and x.id == f
                            for x in ast.walk(b.test))
                    neg = False
                    if ok and isinstance(c, ast.If):
                        t = c.test
                        if isinstance(t, ast.UnaryOp) and isinstance(
                                t.op, ast.Not):
                            neg, t = True, t.operand
                        ok = isinstance(t, ast.Name) and t.id == f and \
                            uses.get(f, 0) == 3
                    else:
                        ok = False
                    if ok:
                        c.test = ast.UnaryOp(op=ast.Not(), operand=b.test) \
                            if neg else b.test
                        ast.copy_location(c.test, c)
                        blk[i:i + 3] = [c]
                        continue
                    i += 1


def normalise(tree):
    _FormatToPercent().visit(tree)
    _IfExpToIf().visit(tree)
    _and_returns(tree)
    _ConstRight().visit(tree)
    _NNF().visit(tree)
    _MergeIfs().visit(tree)
    _flag_tests(tree)
    _NNF().visit(tree)
    for n in ast.walk(tree):
        if isinstance(n, (ast.FunctionDef, ast.AsyncFunctionDef)):
            _sink_returns(n)
    ast.fix_missing_locations(tree)
    return tree
