"""Negation normal form of boolean expressions.

``not`` is pushed inwards (De Morgan), double negations vanish and negated
single-operator comparisons become the complementary comparison, so that
``not (a is None)``, ``not a is None`` and ``a is not None`` - or
``not (A and B)`` and ``not A or not B`` - are one and the same text for every
rule.  Ordering comparisons are complemented too (``not a < b`` -> ``a >= b``):
that is exact for the totally ordered values the analysed conditions compare
(lengths, counters, bounds) and is only used to *read* conditions, never to
rewrite the program.
"""
import ast

COMPLEMENT = {ast.Is: ast.IsNot, ast.IsNot: ast.Is, ast.Eq: ast.NotEq,
              ast.NotEq: ast.Eq, ast.In: ast.NotIn, ast.NotIn: ast.In,
              ast.Lt: ast.GtE, ast.GtE: ast.Lt, ast.Gt: ast.LtE,
              ast.LtE: ast.Gt}


def negate(e):
    """Expression equivalent to ``not e`` with the negation pushed inwards."""
    if isinstance(e, ast.UnaryOp) and isinstance(e.op, ast.Not):
        return push(e.operand)
    if isinstance(e, ast.BoolOp):
        op = ast.Or() if isinstance(e.op, ast.And) else ast.And()
        return ast.copy_location(
            ast.BoolOp(op=op, values=[negate(v) for v in e.values]), e)
    if isinstance(e, ast.Compare) and len(e.ops) == 1 and \
            type(e.ops[0]) in COMPLEMENT:
        return ast.copy_location(ast.Compare(
            left=push(e.left), ops=[COMPLEMENT[type(e.ops[0])]()],
            comparators=[push(c) for c in e.comparators]), e)
    if isinstance(e, ast.Constant) and isinstance(e.value, bool):
        return ast.copy_location(ast.Constant(value=not e.value), e)
    return ast.copy_location(ast.UnaryOp(op=ast.Not(), operand=push(e)), e)


def push(e):
    """NNF of e (a copy where needed; sub-expressions are shared)."""
    if isinstance(e, ast.UnaryOp) and isinstance(e.op, ast.Not):
        return negate(e.operand)
    if isinstance(e, ast.BoolOp):
        vals = []
        for v in e.values:
            v = push(v)
            # flatten nested operators of the same kind
            if isinstance(v, ast.BoolOp) and type(v.op) is type(e.op):
                vals.extend(v.values)
            else:
                vals.append(v)
        e.values = vals
        return e
    return e


class _NNF(ast.NodeTransformer):
    def visit_UnaryOp(self, node):
        self.generic_visit(node)
        if isinstance(node.op, ast.Not):
            return negate(node.operand)
        return node

    def visit_BoolOp(self, node):
        self.generic_visit(node)
        return push(node)


def normalise(tree):
    _NNF().visit(tree)
    ast.fix_missing_locations(tree)
    return tree
