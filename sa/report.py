"""Obligations, findings, known-findings file, evidence writer."""
import json
import os
import re
import time

VERIF = os.path.dirname(os.path.dirname(os.path.abspath(__file__)))
KNOWN_FILE = os.path.join(VERIF, 'KNOWN_FINDINGS.txt')
EVIDENCE_DIR = os.path.join(VERIF, 'evidence')
REPLAY_DIR = os.path.join(EVIDENCE_DIR, 'replay')


def norm(text):
    return re.sub(r'\s+', ' ', text or '').strip()


class Finding(object):
    def __init__(self, prop, rule, key, where, message):
        self.prop = prop
        self.rule = rule
        self.key = norm(key)
        self.where = where
        self.message = norm(message)

    @property
    def ident(self):
        return '%s|%s' % (self.rule, self.key)

    def as_dict(self):
        return {'property': self.prop, 'rule': self.rule, 'key': self.key,
                'where': self.where, 'message': self.message}

    def __repr__(self):
        return '<Finding %s %s @%s>' % (self.prop, self.ident, self.where)


class Result(object):
    """What one run of a property's rules covered and found."""

    def __init__(self, prop):
        self.prop = prop
        self.obligations = []   # (rule, where, instance, verdict)
        self.findings = []
        self.info = []          # INFO lines (observations outside the claim)
        self.unclassified = []
        self.counts = {}
        self.rules = {}         # rule id -> one-line description
        self.errors = []        # analysis errors (anchor lost, floor unmet)

    def run_rule(self, fn, *args):
        """Run one rule; an AnalysisError in it is recorded and the other
        rules still run (a violation found elsewhere takes priority over an
        analysis error when the exit code is chosen)."""
        from .core import AnalysisError
        try:
            fn(*args)
        except AnalysisError as e:
            self.errors.append('%s: %s %s' % (fn.__name__, e.anchor, e.why))
        except Exception as e:      # a bug in one rule must not hide others
            import traceback
            tb = traceback.extract_tb(e.__traceback__)[-1]
            self.errors.append('%s: internal %s: %s (%s:%d)' % (
                fn.__name__, type(e).__name__, e,
                os.path.basename(tb.filename), tb.lineno))

    def rule(self, rid, text):
        self.rules[rid] = text

    def ob(self, rule, where, instance, verdict='ok', nontrivial=True):
        self.obligations.append((rule, where, norm(instance), verdict,
                                 nontrivial))

    def finding(self, rule, key, where, message):
        f = Finding(self.prop, rule, key, where, message)
        if f.ident not in [x.ident for x in self.findings]:
            self.findings.append(f)
        return f

    def note(self, text):
        self.info.append(norm(text))

    def unclass(self, rule, where, what):
        self.unclassified.append('%s %s %s' % (rule, where, norm(what)))

    def count(self, name, n=1):
        self.counts[name] = self.counts.get(name, 0) + n

    def share(self, rule_id, text, other_prop, fn, *args):
        """Run a rule of another property and report its obligations and
        findings under ``rule_id`` of this property (one mechanism, several
        properties depend on it)."""
        self.rule(rule_id, text)
        tmp = Result(other_prop)
        tmp.run_rule(fn, *[tmp if a is Result else a for a in args])
        for (r, w, i, v, nt) in tmp.obligations:
            self.ob(rule_id, w, i, v, nt)
        for f in tmp.findings:
            self.finding(rule_id, f.key, f.where, f.message)
        self.errors.extend(tmp.errors)
        self.unclassified.extend(tmp.unclassified)
        self.info.extend(tmp.info)

    def floor(self, rule, what, got, need):
        """Instance floor: fewer matches than confirmed by hand means the
        rule would pass vacuously -> analysis error."""
        self.counts['floor:%s:%s' % (rule, what)] = got
        if got < need:
            self.errors.append('%s %s: instance floor not met: %d < %d' % (
                rule, what, got, need))


def load_known():
    """-> (findings {(prop, ident): text}, fixed [(prop, text)])"""
    known, fixed = {}, []
    if not os.path.exists(KNOWN_FILE):
        return known, fixed
    for line in open(KNOWN_FILE, encoding='utf-8'):
        line = line.strip()
        if not line or line.startswith('#'):
            continue
        m = re.match(r'finding:\s+property=(\S+)\s+rule=(\S+)\s+key=(.*?)\s+::'
                     r'\s+(.*)$', line)
        if m:
            known[(m.group(1), '%s|%s' % (m.group(2), norm(m.group(3))))] = \
                m.group(4)
            continue
        m = re.match(r'fixed:\s+property=(\S+)\s+(.*)$', line)
        if m:
            fixed.append((m.group(1), m.group(2)))
    return known, fixed


def write_evidence(prop, tier, seed, result, wall, explanation, assumptions,
                   extra=None, violations=0, exhaustive=False):
    os.makedirs(EVIDENCE_DIR, exist_ok=True)
    obs = result.obligations
    distinct = len({(r, i) for (r, w, i, v, nt) in obs if nt})
    samples = []
    seen_rules = {}
    for (r, w, i, v, nt) in obs:
        if seen_rules.get(r, 0) < 3 and len(samples) < 40:
            seen_rules[r] = seen_rules.get(r, 0) + 1
            samples.append('%s %s %s -> %s' % (r, w, i, v))
    cov = {
        'explanation': explanation,
        'rules': result.rules,
        'evaluations': len(obs),
        'distinct_nontrivial': distinct,
        'rule': 'one evaluation = one obligation (a call site, path set, '
                'table entry or folded constant examined by a rule); '
                'non-trivial = the rule had to inspect at least one construct '
                'to reach its verdict; distinct by (rule, instance text)',
        'obligations': len(obs),
        'discharged': len([o for o in obs if o[3] in ('ok', 'known')]),
        'samples': samples or ['(no obligations)'],
        'exhaustive': bool(exhaustive),
        'unclassified': result.unclassified[:50],
        'unclassified_count': len(result.unclassified),
        'info': result.info[:50],
        'counts': result.counts,
        'findings': [f.as_dict() for f in result.findings],
    }
    if extra:
        cov.update(extra)
    doc = {
        'property_id': prop,
        'tier': tier,
        'seed': seed,
        'level': 'other',
        'coverage': cov,
        'assumptions': assumptions,
        'wall_s': round(wall, 3),
        'violations': violations,
    }
    path = os.path.join(EVIDENCE_DIR, '%s.json' % prop)
    tmp = path + '.tmp'
    with open(tmp, 'w') as f:
        json.dump(doc, f, indent=1, sort_keys=True)
    os.replace(tmp, path)
    return path


def write_replay(finding, n):
    os.makedirs(REPLAY_DIR, exist_ok=True)
    path = os.path.join(REPLAY_DIR, '%s-%02d.json' % (finding.prop, n))
    with open(path, 'w') as f:
        json.dump(finding.as_dict(), f, indent=1, sort_keys=True)
    return path
