#!/venv/bin/python
"""Driver: ``check.py <ID> --tier quick|thorough`` / ``check.py --replay f``.

Exit codes: 0 = every obligation discharged (known findings allowed);
1 = at least one finding not in KNOWN_FINDINGS.txt (a VIOLATION line each);
2 = ANALYSIS-ERROR (vanished anchor, instance floor, parse failure, internal
error).  Nothing under /repo is imported or executed.
"""
import argparse
import importlib
import json
import os
import sys
import time
import traceback

sys.dont_write_bytecode = True
HERE = os.environ.get('VERIF_SA_DIR') or os.path.dirname(os.path.abspath(__file__))
sys.path.insert(0, os.path.dirname(HERE))

from sa.core import Program, AnalysisError, REPO   # noqa: E402
from sa import report                               # noqa: E402
from sa.mutate import NotApplicable                 # noqa: E402

ALL_IDS = ['C%02d' % i for i in range(1, 19)]


def load_rule(prop):
    return importlib.import_module('sa.rules.%s' % prop.lower())


def analyse(prop, tier, overlay=None):
    mod = load_rule(prop)
    prog = Program(overlay=overlay)
    res = report.Result(prop)
    mod.run(prog, res, tier)
    return prog, res


def _run_mutant(args):
    prop, tier, idx, base_idents = args
    mod = load_rule(prop)
    m = mod.MUTANTS[idx]
    try:
        ov = m.overlay()
    except NotApplicable as e:
        return idx, 'inapplicable', str(e), []
    try:
        prog, res = analyse(prop, tier, ov)
    except AnalysisError as e:
        # a mutant that removes an anchor is "detected" as analysis-broken
        return idx, 'anchor-lost', str(e), []
    except Exception as e:  # pragma: no cover
        return idx, 'crash', '%s: %s' % (type(e).__name__, e), []
    if res.errors and not res.findings:
        return idx, 'anchor-lost', '; '.join(res.errors), []
    new = [f.ident for f in res.findings if f.ident not in base_idents]
    gone = [i for i in base_idents if i not in
            [f.ident for f in res.findings]]
    if m.kind == 'fire':
        hit = [i for i in new if i.startswith(m.rule + '|') and
               (m.expect in i)]
        if hit:
            return idx, 'fired', hit[0], new
        return idx, 'MISSED', 'new=%r' % (new,), new
    else:
        if new or gone:
            return idx, 'FALSE-ALARM', 'new=%r gone=%r' % (new, gone), new
        return idx, 'silent', '', new


def run_mutants(prop, tier, base, seed, jobs):
    mod = load_rule(prop)
    muts = getattr(mod, 'MUTANTS', [])
    if not muts:
        return {'mutants_total': 0}
    idxs = list(range(len(muts)))
    if tier == 'quick':
        # one firing control per rule, rotated by the seed, plus two twins
        byrule = {}
        for i, m in enumerate(muts):
            byrule.setdefault((m.rule, m.kind), []).append(i)
        idxs = []
        for (rule, kind), lst in sorted(byrule.items()):
            idxs.append(lst[seed % len(lst)])
        idxs = sorted(idxs)
    base_idents = [f.ident for f in base.findings]
    work = [(prop, tier, i, base_idents) for i in idxs]
    results = []
    if jobs > 1 and len(work) > 2:
        import multiprocessing as mp
        ctx = mp.get_context('fork')
        with ctx.Pool(min(jobs, len(work))) as pool:
            results = pool.map(_run_mutant, work, chunksize=1)
    else:
        results = [_run_mutant(w) for w in work]
    out = {'mutants_total': len(muts), 'mutants_run': len(work),
           'mutants_fired': 0, 'mutants_expected': 0, 'twins_silent': 0,
           'twins_total': 0, 'mutants_inapplicable': 0, 'selftest_problems': [],
           'mutant_results': []}
    for idx, status, detail, new in results:
        m = muts[idx]
        out['mutant_results'].append('%s [%s/%s] %s %s' % (
            m.name, m.rule, m.kind, status, detail if status not in
            ('silent',) else ''))
        if status == 'inapplicable':
            out['mutants_inapplicable'] += 1
            continue
        if m.kind == 'fire':
            out['mutants_expected'] += 1
            if status in ('fired', 'anchor-lost'):
                out['mutants_fired'] += 1
            else:
                out['selftest_problems'].append('%s: %s %s' % (
                    m.name, status, detail))
        else:
            out['twins_total'] += 1
            if status == 'silent':
                out['twins_silent'] += 1
            else:
                out['selftest_problems'].append('%s: %s %s' % (
                    m.name, status, detail))
    return out


def check(prop, tier, seed, jobs, mutants=True, quiet=False, evidence=True):
    t0 = time.time()
    mod = load_rule(prop)
    prog, res = analyse(prop, tier)
    known, fixed = report.load_known()
    violations = []
    known_hits = []
    for f in res.findings:
        k = (prop, f.ident)
        if k in known:
            known_hits.append((f, known[k]))
        else:
            violations.append(f)
    mut = {}
    if mutants:
        try:
            mut = run_mutants(prop, tier, res, seed, jobs)
        except Exception as e:  # self-test trouble never changes the verdict
            mut = {'selftest_problems': ['mutant driver: %r' % (e,)]}
    stats = prog.stats()
    extra = dict(stats)
    extra.update(mut)
    extra['known_findings_matched'] = [f.ident for f, _ in known_hits]
    extra['repo'] = REPO
    extra['analysis_errors'] = list(res.errors)
    # obligations whose verdict is a finding are not discharged
    wall = time.time() - t0
    path = '(not written)'
    if evidence:
      path = report.write_evidence(
        prop, tier, seed, res, wall, mod.EXPLANATION,
        getattr(mod, 'ASSUMPTIONS', []) + [
            'the ast of the working tree is what the interpreter runs '
            '(no import hooks, no exec of generated code on these paths)',
            'call resolution is repository-specific and over-approximate; '
            'unresolved constructs are recorded as unclassified, not alarmed'],
        extra=extra, violations=len(violations),
        exhaustive=getattr(mod, 'EXHAUSTIVE', False))
    if not quiet:
        print('%s tier=%s analysed: %d modules, %d functions, %d classes; '
              '%d obligations, %d findings (%d known), %d unclassified'
              % (prop, tier, stats['modules'], stats['functions'],
                 stats['classes'], len(res.obligations), len(res.findings),
                 len(known_hits), len(res.unclassified)))
        for rid in sorted(res.rules):
            n = len([o for o in res.obligations if o[0] == rid])
            print('  rule %s (%d obligations): %s' % (rid, n, res.rules[rid]))
        for line in res.info:
            print('INFO: ' + line)
        if mut.get('mutants_total'):
            print('  self-test: %d/%d firing mutants detected, %d/%d twins '
                  'silent, %d inapplicable (of %d run, %d in corpus)' % (
                      mut.get('mutants_fired', 0),
                      mut.get('mutants_expected', 0),
                      mut.get('twins_silent', 0), mut.get('twins_total', 0),
                      mut.get('mutants_inapplicable', 0),
                      mut.get('mutants_run', 0), mut.get('mutants_total', 0)))
        for p in mut.get('selftest_problems', []):
            print('SELFTEST-WARN: ' + p)
        for f, text in known_hits:
            print('KNOWN-FINDING: property=%s %s [%s @ %s]' % (
                prop, text, f.ident, f.where))
    for n, f in enumerate(violations):
        rp = report.write_replay(f, n) if evidence else '-'
        print('FINDING %s %s at %s: %s' % (prop, f.ident, f.where, f.message))
        print('VIOLATION property=%s replay=%s' % (prop, rp))
    for e in res.errors:
        print('ANALYSIS-ERROR property=%s %s' % (prop, e))
    if not quiet:
        print('evidence: %s (%.2fs)' % (path, wall))
    return (1 if violations else (2 if res.errors else 0)), res, mut


def replay(path):
    doc = json.load(open(path))
    prop = doc['property']
    ident = '%s|%s' % (doc['rule'], doc['key'])
    prog, res = analyse(prop, 'thorough')
    for f in res.findings:
        if f.ident == ident:
            print('FINDING %s %s at %s: %s' % (prop, f.ident, f.where,
                                               f.message))
            print('VIOLATION property=%s replay=%s' % (prop, path))
            return 1
    print('replay: finding %s no longer present' % ident)
    return 0


def main(argv=None):
    ap = argparse.ArgumentParser()
    ap.add_argument('prop', nargs='?')
    ap.add_argument('--tier', default=os.environ.get('VERIF_TIER', 'quick'),
                    choices=['quick', 'thorough'])
    ap.add_argument('--replay')
    ap.add_argument('--no-mutants', action='store_true')
    ap.add_argument('--no-evidence', action='store_true',
                    help='do not (re)write the evidence/replay files '
                         '(used when analysing scratch trees)')
    ap.add_argument('--jobs', type=int, default=0)
    args = ap.parse_args(argv)
    try:
        seed = int(os.environ.get('VERIF_SEED', '0'))
    except ValueError:
        seed = 0
    jobs = args.jobs or (16 if args.tier == 'thorough' else 4)
    try:
        if args.replay:
            return replay(args.replay)
        if not args.prop:
            ap.error('property id required')
        if ',' in args.prop:
            # batch mode (scratch-tree matrices): one process, one parse
            worst = 0
            for prop in args.prop.upper().split(','):
                try:
                    code, res, mut = check(prop, args.tier, seed, jobs,
                                           mutants=not args.no_mutants,
                                           evidence=not args.no_evidence)
                except AnalysisError as e:
                    print('ANALYSIS-ERROR property=%s anchor=%s %s' % (
                        prop, e.anchor, e.why))
                    code = 2
                except Exception:
                    print('ANALYSIS-ERROR property=%s internal' % prop)
                    traceback.print_exc()
                    code = 2
                print('== %s exit=%d' % (prop, code))
                worst = max(worst, code)
            return worst
        prop = args.prop.upper()
        code, res, mut = check(prop, args.tier, seed, jobs,
                               mutants=not args.no_mutants,
                               evidence=not args.no_evidence)
        return code
    except AnalysisError as e:
        print('ANALYSIS-ERROR property=%s anchor=%s %s' % (
            args.prop, e.anchor, e.why))
        return 2
    except Exception:
        print('ANALYSIS-ERROR property=%s internal' % args.prop)
        traceback.print_exc()
        return 2


if __name__ == '__main__':
    sys.exit(main())
