"""Exception-escape analysis (text domain).

Esc(f) = the exception classes that may leave function f when it is handed a
lexically malformed string: raise sites are explicit ``raise X``, calls of the
frozen RAISERS primitives, and calls of resolved spyne functions (their Esc).
A class is removed when an enclosing ``try`` (of the body, not of a handler)
has a handler for it or a superclass.  Every Fault subclass is the abstract
class 'Fault'.
"""
import ast
import re

from .core import (dotted, unparse, call_name, calls_in, walk_no_defs, parent,
                   ClassInfo, FuncInfo, ancestors)
from .flow import handler_names
from .constfold import try_fold

# exception class -> ancestors (nearest first)
HIER = {
    'ValueError': ['Exception'],
    'TypeError': ['Exception'],
    'AttributeError': ['Exception'],
    'LookupError': ['Exception'],
    'KeyError': ['LookupError', 'Exception'],
    'IndexError': ['LookupError', 'Exception'],
    'StopIteration': ['Exception'],
    'ArithmeticError': ['Exception'],
    'OverflowError': ['ArithmeticError', 'Exception'],
    'InvalidOperation': ['ArithmeticError', 'Exception'],
    'UnicodeError': ['ValueError', 'Exception'],
    'UnicodeDecodeError': ['UnicodeError', 'ValueError', 'Exception'],
    'UnicodeEncodeError': ['UnicodeError', 'ValueError', 'Exception'],
    'binascii.Error': ['ValueError', 'Exception'],
    'XMLSyntaxError': ['ParseError', 'LxmlSyntaxError', 'LxmlError',
                       'SyntaxError', 'Error', 'Exception'],
    'ParserError': ['LxmlError', 'Error', 'Exception'],
    'XMLSchemaValidateError': ['XMLSchemaError', 'LxmlError', 'Error',
                               'Exception'],
    'JSONDecodeError': ['ValueError', 'Exception'],
    'YAMLError': ['Exception'],
    'MarkedYAMLError': ['YAMLError', 'Exception'],
    'ScannerError': ['MarkedYAMLError', 'YAMLError', 'Exception'],
    'ReaderError': ['YAMLError', 'Exception'],
    'UnpackException': ['Exception'],
    'NotImplementedError': ['RuntimeError', 'Exception'],
    'RuntimeError': ['Exception'],
    'RecursionError': ['RuntimeError', 'Exception'],
    'AssertionError': ['Exception'],
    'OSError': ['Exception'],
    'Fault': ['Exception'],
    'Exception': [],
    'Break': ['Exception'],
}


def catches(handler_name, exc):
    h = handler_name.split('.')[-1]
    e = exc
    if h in ('Exception', 'BaseException'):
        return True
    if h == e or h == e.split('.')[-1]:
        return True
    if e == 'binascii.Error' and h == 'Error' and 'binascii' in handler_name:
        return True
    return h in HIER.get(e, [])


def _fallback_alias(mod, name):
    """``name = <builtin exception>`` assigned in a module-level ``except
    ImportError`` arm: the class the name denotes when the optional
    dependency is absent (the stdlib configuration)."""
    cache = getattr(mod, '_fallback_aliases', None)
    if cache is None:
        cache = {}
        for st in mod.tree.body:
            if not isinstance(st, ast.Try):
                continue
            for h in st.handlers:
                for x in h.body:
                    if isinstance(x, ast.Assign) and isinstance(
                            x.value, ast.Name) and x.value.id in HIER:
                        for t in x.targets:
                            if isinstance(t, ast.Name):
                                cache[t.id] = x.value.id
        try:
            mod._fallback_aliases = cache
        except AttributeError:
            pass
    return cache.get(name)


class _Handlers(list):
    module = None


class Raise(object):
    __slots__ = ('exc', 'func', 'node', 'why', 'via')

    def __init__(self, exc, func, node, why, via=None):
        self.exc = exc
        self.func = func
        self.node = node
        self.why = why
        self.via = via or []

    @property
    def where(self):
        return '%s:%d' % (self.func.module.relpath, self.node.lineno)


# --- regex group knowledge ---------------------------------------------------

INT_GROUP = re.compile(r'^(\[\+-\]|-\??|\[-\+\])?(\\d|\[0-9\])'
                       r'(\{\d+(,\d*)?\}|\+)?$')
FLOAT_GROUP_EXTRA = [
    r'\.\d+', r'\d+(\.\d+)?',
    r'-?[0-9]+\.?[0-9]*(e-?[0-9]+)?',
]


def named_groups(pattern):
    """{name: source text of the group body} by scanning the pattern."""
    out = {}
    i = 0
    while True:
        j = pattern.find('(?P<', i)
        if j < 0:
            break
        k = pattern.index('>', j)
        name = pattern[j + 4:k]
        depth = 1
        p = k + 1
        while p < len(pattern) and depth:
            ch = pattern[p]
            if ch == '\\':
                p += 2
                continue
            if ch == '[':
                q = pattern.find(']', p + 1)
                p = q + 1 if q > 0 else p + 1
                continue
            if ch == '(':
                depth += 1
            elif ch == ')':
                depth -= 1
            p += 1
        out[name] = pattern[k + 1:p - 1]
        i = k + 1
    return out


def _digits_in_base(pattern, base):
    """The pattern is made of punctuation literals and of character classes
    (possibly repeated) that admit digits of ``base`` only, at least one."""
    try:
        import re._parser as sre_parse
    except ImportError:                                  # pragma: no cover
        import sre_parse
    try:
        items = list(sre_parse.parse(pattern))
    except Exception:
        return False
    allowed = set('0123456789abcdefghijklmnopqrstuvwxyz'[:base])
    allowed |= {c.upper() for c in allowed}
    seen = [False]

    def cls_ok(members):
        for op, av in members:
            name = str(op)
            if name == 'LITERAL':
                if chr(av) not in allowed:
                    return False
            elif name == 'RANGE':
                if any(chr(c) not in allowed for c in range(av[0], av[1] + 1)):
                    return False
            elif name == 'CATEGORY':
                if not (str(av) == 'CATEGORY_DIGIT' and base >= 10):
                    return False
            else:
                return False
        return True

    def walk(its):
        for op, av in its:
            name = str(op)
            if name == 'LITERAL':
                if chr(av).isalnum():
                    if chr(av) not in allowed:
                        return False
                    seen[0] = True
            elif name == 'IN':
                if not cls_ok(av):
                    return False
                seen[0] = True
            elif name in ('MAX_REPEAT', 'MIN_REPEAT'):
                if not walk(list(av[2])):
                    return False
            elif name == 'SUBPATTERN':
                if not walk(list(av[-1])):
                    return False
            else:
                return False
        return True
    return walk(items) and seen[0]


def _digits_only(items, first=True):
    """Does the parsed regex (re._parser items) match only strings int()
    accepts: an optional leading sign followed by at least one digit?"""
    import re._constants as C
    import re._parser as P
    seen_digit = [False]

    def digit_item(op, av):
        if op is C.LITERAL:
            return chr(av).isdigit()
        if op is C.IN:
            for o, a in av:
                if o is C.LITERAL and chr(a).isdigit():
                    continue
                if o is C.RANGE and chr(a[0]).isdigit() and \
                        chr(a[1]).isdigit():
                    continue
                if o is C.CATEGORY and a is C.CATEGORY_DIGIT:
                    continue
                return False
            return True
        return False

    def walk(seq, allow_sign):
        for i, (op, av) in enumerate(seq):
            if allow_sign and i == 0:
                # [+-] or -? in front
                if op is C.IN and all(o is C.LITERAL and chr(a) in '+-'
                                      for o, a in av):
                    continue
                if op is C.MAX_REPEAT and av[0] == 0 and av[1] == 1 and \
                        len(av[2]) == 1 and (
                        (av[2][0][0] is C.LITERAL and chr(
                            av[2][0][1]) in '+-') or
                        (av[2][0][0] is C.IN and all(
                            o is C.LITERAL and chr(a) in '+-'
                            for o, a in av[2][0][1]))):
                    continue
                if op is C.LITERAL and chr(av) in '+-':
                    continue
            if digit_item(op, av):
                seen_digit[0] = True
                continue
            if op in (C.MAX_REPEAT, C.MIN_REPEAT):
                lo, hi, sub = av
                if not walk(list(sub), False):
                    return False
                continue
            if op is C.SUBPATTERN:
                if not walk(list(av[3]), False):
                    return False
                continue
            if op is C.BRANCH:
                for alt in av[1]:
                    if not walk(list(alt), False):
                        return False
                continue
            return False
        return True
    return walk(list(items), first) and seen_digit[0]


def group_is_int(body):
    if INT_GROUP.match(body):
        return True
    try:
        import re._parser as P
        return _digits_only(P.parse(body))
    except Exception:
        return False


def group_is_float(body):
    return group_is_int(body) or body in FLOAT_GROUP_EXTRA


def group_can_be_none(pattern, name):
    """The named group sits under an optional construct (``(...)?``, ``*``,
    an alternative of a branch): match.group(name) may be None."""
    try:
        import re._parser as P
        tree = P.parse(pattern)
        idx = tree.state.groupdict.get(name)
    except Exception:
        return False
    if idx is None:
        return False
    found = [False]

    def walk(its, optional):
        for op, av in its:
            nm = str(op)
            if nm in ('MAX_REPEAT', 'MIN_REPEAT', 'POSSESSIVE_REPEAT'):
                lo, hi, sub = av
                walk(list(sub), optional or lo == 0)
            elif nm == 'SUBPATTERN':
                if av[0] == idx and optional:
                    found[0] = True
                walk(list(av[-1]), optional)
            elif nm == 'BRANCH':
                for alt in av[1]:
                    walk(list(alt), True)
            elif nm in ('ASSERT', 'ASSERT_NOT'):
                walk(list(av[1]), optional)
    walk(list(tree), False)
    return found[0]


def group_is_bounded(body, limit=4300):
    """Every repetition of the group has a finite maximum whose product
    stays under CPython's limit for int(<text>) (4300 digits since 3.11):
    int() of a longer digit string raises ValueError."""
    try:
        import re._parser as P
        items = P.parse(body)
    except Exception:
        return False

    def width(its):
        total = 0
        for op, av in its:
            name = str(op)
            if name in ('MAX_REPEAT', 'MIN_REPEAT', 'POSSESSIVE_REPEAT'):
                lo, hi, sub = av
                if str(hi) == 'MAXREPEAT' or hi > limit:
                    return None
                w = width(list(sub))
                if w is None:
                    return None
                total += hi * w
            elif name == 'SUBPATTERN':
                w = width(list(av[-1]))
                if w is None:
                    return None
                total += w
            elif name == 'BRANCH':
                ws = [width(list(alt)) for alt in av[1]]
                if any(w is None for w in ws):
                    return None
                total += max(ws or [0])
            else:
                total += 1
        return total
    w = width(list(items))
    return w is not None and w <= limit


class ExcFlow(object):
    def __init__(self, prog, cg, res=None):
        self.prog = prog
        self.cg = cg
        self._memo = {}
        self._stack = []
        self.unclassified = []
        self._patterns = {}
        self.stats = {'functions': 0, 'raise_sites': 0, 'primitive_sites': 0,
                      'dropped_by_regex': 0}

    def _group_read_without_default(self, f, expr):
        """The conversion's argument is match.group(name) (None for a group
        that did not take part) rather than an entry of groupdict(default)."""
        for y in ast.walk(expr):
            if isinstance(y, ast.Call) and call_name(y) == 'group':
                return True
        return False

    # -- patterns -----------------------------------------------------------
    def patterns_of(self, f, expr, depth=0):
        """Folded regex sources the compiled-pattern expression may denote."""
        prog = self.prog
        if isinstance(expr, ast.Name):
            v = f.module.consts.get(expr.id)
            if v is None:
                r = prog.resolve_in_module(f.module, expr.id)
                if isinstance(r, tuple) and r[0] == 'const':
                    v = r[1].consts[r[2]]
                    return self._compiled(r[1], v)
                return []
            return self._compiled(f.module, v)
        if isinstance(expr, ast.Attribute) and isinstance(expr.value,
                                                          ast.Name):
            # cls._offset_re -> union over model classes defining it
            out = []
            for c in prog.all_classes():
                if expr.attr in c.attrs:
                    out.extend(self._compiled(c.module, c.attrs[expr.attr]))
            return out
        return []

    def _compiled(self, module, v):
        if isinstance(v, ast.Call) and call_name(v) == 'compile' and v.args:
            ok, s = try_fold(self.prog, module, v.args[0])
            if ok and isinstance(s, str):
                return [s]
        return []

    def match_patterns(self, f, name, depth=0):
        """Patterns for a local variable holding a match object or its
        groupdict."""
        pats = []
        for n in walk_no_defs(f.node):
            if isinstance(n, ast.Assign) and any(
                    isinstance(t, ast.Name) and t.id == name
                    for t in n.targets):
                v = n.value
                if isinstance(v, ast.Call) and isinstance(
                        v.func, ast.Attribute):
                    if v.func.attr in ('match', 'search', 'fullmatch'):
                        pats.extend(self.patterns_of(f, v.func.value))
                    elif v.func.attr == 'groupdict' and isinstance(
                            v.func.value, ast.Name):
                        pats.extend(self.match_patterns(f, v.func.value.id,
                                                        depth + 1))
        if not pats and name in f.params() and depth < 2:
            idx = f.params().index(name)
            for cf, call in self.cg.callers(f):
                j = idx
                if f.cls is not None and f.params()[:1] in (['self'],
                                                            ['cls']):
                    j = idx - 1
                if 0 <= j < len(call.args) and isinstance(call.args[j],
                                                          ast.Name):
                    pats.extend(self.match_patterns(cf, call.args[j].id,
                                                    depth + 1))
        return pats

    def group_source(self, f, arg, loopvars=None):
        """(patterns, [group names]) when ``arg`` reads named regex groups:
        m.group('x'), d['x'], d.get('x'), or those with a comprehension
        variable ranging over literal names."""
        names = None
        var = None
        loopvars = loopvars or {}
        if isinstance(arg, ast.Call) and isinstance(arg.func, ast.Attribute) \
                and arg.func.attr in ('group', 'get') and arg.args and \
                isinstance(arg.func.value, ast.Name):
            var = arg.func.value.id
            k = arg.args[0]
        elif isinstance(arg, ast.Subscript) and isinstance(arg.value,
                                                           ast.Name):
            var = arg.value.id
            k = arg.slice
        else:
            return None
        if isinstance(k, ast.Constant) and isinstance(k.value, str):
            names = [k.value]
        elif isinstance(k, ast.Name) and k.id in loopvars:
            names = loopvars[k.id]
        if names is None:
            return None
        pats = self.match_patterns(f, var)
        if not pats:
            return None
        return pats, names

    # -- primitives -----------------------------------------------------------
    def primitive(self, f, call, loopvars=None):
        """Exception classes raised by a call of a known primitive."""
        nm = call_name(call)
        d = dotted(call.func) or ''
        mod = f.module
        target = ''
        if isinstance(call.func, ast.Name):
            target = mod.imports.get(call.func.id, '')
        elif d:
            head = d.split('.')[0]
            target = mod.imports.get(head, '')
        if nm == 'len' and isinstance(call.func, ast.Name) and \
                len(call.args) == 1:
            a = call.args[0]
            t = unparse(a)
            docval = False
            if isinstance(a, ast.Name):
                if a.id == 'doc' and 'doc' in f.params():
                    docval = True
                for d in walk_no_defs(f.node):
                    if isinstance(d, ast.Assign) and any(
                            isinstance(x, ast.Name) and x.id == a.id
                            for x in d.targets) and unparse(d.value).split(
                            '.')[-1] in ('in_document', 'in_body_doc',
                                         'in_header_doc'):
                        docval = True
            if docval:
                # a parsed document value may be a scalar (42, true, null)
                from .flow import guards_at, flatten_guards
                for e, pol in flatten_guards(guards_at(call, stop=f.node)):
                    if pol and isinstance(e, ast.Call) and call_name(e) == \
                            'isinstance' and e.args and unparse(
                            e.args[0]) == t:
                        return []
                return ['TypeError']
            return []
        if nm == 'join' and isinstance(call.func, ast.Attribute) and \
                isinstance(call.func.value, ast.Constant) and isinstance(
                    call.func.value.value, str) and len(call.args) == 1 and \
                isinstance(call.args[0], ast.Attribute) and \
                call.args[0].attr == 'args' and isinstance(
                    call.args[0].value, ast.Name):
            # ' '.join(e.args): the args of an exception are whatever its
            # raiser passed (msgpack.ExtraData: (object, bytes))
            exc = call.args[0].value.id
            p = parent(call)
            while p is not None and p is not f.node:
                if isinstance(p, ast.ExceptHandler) and p.name == exc:
                    return ['TypeError']
                p = parent(p)
            return []
        if nm == 'int' and isinstance(call.func, ast.Name) and \
                len(call.args) == 2 and isinstance(
                    call.args[1], ast.Constant) and isinstance(
                    call.args[1].value, int) and not isinstance(
                    call.args[0], ast.Constant):
            # int(text, base): fine when the text was cut out by one of the
            # module's compiled patterns that admits digits of that base only
            base = call.args[1].value
            pats = []
            for x in ast.walk(f.node):
                if isinstance(x, ast.Name) and x.id in f.module.consts:
                    v = f.module.consts[x.id]
                    if isinstance(v, ast.Call) and call_name(v) == 'compile' \
                            and v.args and isinstance(v.args[0], ast.Constant) \
                            and isinstance(v.args[0].value, str):
                        pats.append(v.args[0].value)
            if any(_digits_in_base(ptn, base) for ptn in pats):
                self.stats['dropped_by_regex'] += 1
                return []
            return ['ValueError']
        if nm in ('int', 'float') and isinstance(call.func, ast.Name) and \
                len(call.args) == 1:
            a = call.args[0]
            if isinstance(a, (ast.BinOp, ast.Constant)):
                return []
            if isinstance(a, ast.Call) and call_name(a) in (
                    'round', 'len', 'mktime', 'int', 'float', 'abs', 'min',
                    'max', 'total_seconds', 'time'):
                return []
            if isinstance(a, ast.Name) and f.name == 'validate_native':
                # validate_native receives a native number, not text; int()
                # of a number fails for NaN/infinity only, and those are
                # refused by the parent's range test that precedes in the
                # same conjunction (it answers False for unordered and
                # unbounded values before int() is evaluated).
                p, child = parent(call), call
                while p is not None and p is not f.node:
                    if isinstance(p, ast.BoolOp) and isinstance(
                            p.op, ast.And):
                        idx = next((i for i, v in enumerate(p.values)
                                    if v is child), None)
                        if idx and any(
                                isinstance(c, ast.Call) and
                                call_name(c) == 'validate_native'
                                for v in p.values[:idx]
                                for c in ast.walk(v)):
                            return []
                    p, child = parent(p), p
            if isinstance(a, ast.Name):
                # guarded by a membership test in a tuple of constants
                from .flow import guards_at, flatten_guards
                for e, pol in flatten_guards(guards_at(call, stop=f.node)):
                    if pol and isinstance(e, ast.Compare) and len(
                            e.ops) == 1 and isinstance(e.ops[0], ast.In) and \
                            isinstance(e.left, ast.Name) and \
                            e.left.id == a.id and isinstance(
                            e.comparators[0], (ast.Tuple, ast.List)) and all(
                            isinstance(x, ast.Constant)
                            for x in e.comparators[0].elts):
                        return []
                    # isinstance(x, bool/int/float): a number, not text
                    if pol and isinstance(e, ast.Call) and call_name(e) == \
                            'isinstance' and len(e.args) == 2 and \
                            isinstance(e.args[0], ast.Name) and \
                            e.args[0].id == a.id and all(
                            (dotted(t) or '').split('.')[-1] in (
                                'bool', 'int', 'float', 'long', 'Decimal',
                                'D', 'integer_types')
                            for t in (e.args[1].elts if isinstance(
                                e.args[1], ast.Tuple) else [e.args[1]])):
                        return []
                defs = [n for n in walk_no_defs(f.node)
                        if isinstance(n, ast.Assign) and any(
                            isinstance(t, ast.Name) and t.id == a.id
                            for t in n.targets)]
                srcs = [n.value for n in defs
                        if not (isinstance(n.value, ast.Constant))
                        and not (isinstance(n.value, ast.Call) and call_name(
                            n.value) in ('min', 'max', 'int', 'float',
                                         'round'))]
                if len(srcs) == 1 and a.id not in f.params():
                    a = srcs[0]
            if self._from_digit_findall(f, a):
                self.stats['dropped_by_regex'] += 1
                return []
            gs = self.group_source(f, a, loopvars)
            if gs is not None:
                pats, names = gs
                test = group_is_int if nm == 'int' else group_is_float
                ok = True
                for g in names:
                    # a candidate pattern without the group cannot be the one
                    # matched when the code reads that group
                    cands = [named_groups(ptn) for ptn in pats]
                    cands = [c for c in cands if g in c]
                    if not cands or not all(test(c[g]) for c in cands):
                        ok = False
                    elif nm == 'int' and not all(
                            group_is_bounded(c[g]) for c in cands):
                        # \d+ admits more digits than int() converts
                        ok = False
                    withg = [ptn for ptn in pats if g in named_groups(ptn)]
                    # (cls._x_re is resolved over every class that has one:
                    # the group must be optional in all of them)
                    if withg and all(group_can_be_none(ptn, g)
                                     for ptn in withg) and \
                            self._group_read_without_default(f, a):
                        # int(None) / float(None)
                        self.stats['primitive_sites'] += 1
                        return ['TypeError']
                if ok:
                    self.stats['dropped_by_regex'] += 1
                    return []
            return ['ValueError']
        if nm in ('D', 'Decimal') and (target.startswith('decimal') or
                                       nm == 'Decimal'):
            return ['InvalidOperation']
        if nm in ('date', 'time', 'datetime') and isinstance(
                call.func, ast.Name) and target.startswith('datetime'):
            return ['ValueError']
        if nm == 'strptime':
            return ['ValueError']
        if nm == 'timedelta' and target.startswith('datetime'):
            return ['OverflowError']
        if nm == 'FixedOffset':
            return ['ValueError']
        if nm == 'UUID':
            return ['ValueError']      # text domain: malformed hex string
        if nm in ('b64decode', 'urlsafe_b64decode', 'standard_b64decode',
                  'unhexlify', 'a2b_hex', 'a2b_base64'):
            # text domain: bad alphabet/padding -> binascii.Error; a str
            # argument with non-ASCII characters -> plain ValueError
            if call.args and self._bytes_typed(f, call.args[0]):
                return ['binascii.Error']
            return ['binascii.Error', 'ValueError']
        if nm in ('text_type', 'str', 'unicode') and (
                len(call.args) >= 2 or any(
                    k.arg in ('encoding', 'errors') for k in call.keywords)):
            # str(bytes, encoding[, errors]) decodes
            return ['UnicodeDecodeError']
        if nm == 'encode' and isinstance(call.func, ast.Attribute) and \
                isinstance(call.func.value, ast.Name) and \
                call.args and isinstance(call.args[0], ast.Constant) and \
                str(call.args[0].value).lower().replace('-', '') in (
                    'ascii', 'latin1', 'iso88591', 'usascii') and not any(
                    k.arg == 'errors' for k in call.keywords) and \
                len(call.args) == 1:
            return ['UnicodeEncodeError']
        if nm == 'decode' and isinstance(call.func, ast.Attribute) and \
                not isinstance(call.func.value, ast.Constant):
            recv = call.func.value
            if isinstance(recv, ast.Name):
                defs = [n.value for n in walk_no_defs(f.node)
                        if isinstance(n, ast.Assign) and any(
                            isinstance(t, ast.Name) and t.id == recv.id
                            for t in n.targets)]
                # the type name of a model class is not request data
                base = [d for d in defs if not (isinstance(d, ast.Call) and
                                                call_name(d) == 'decode')]
                if base and all(isinstance(d, ast.Call) and call_name(d) in (
                        'get_type_name', 'get_class_name', 'get_namespace')
                        for d in base):
                    return []
            out = ['UnicodeDecodeError']
            # a codec name that is a local/parameter may come from the
            # request (Content-Type charset): unknown codec -> LookupError
            if call.args and isinstance(call.args[0], ast.Name):
                out.append('LookupError')
            return out
        if nm == 'next' and isinstance(call.func, ast.Name) and \
                len(call.args) == 1:
            return ['StopIteration']
        if nm == 'getattr' and isinstance(call.func, ast.Name) and \
                len(call.args) == 2 and (
                    isinstance(call.args[1], ast.Name) and
                    call.args[1].id in f.params() or
                    isinstance(call.args[1], ast.Attribute) and
                    call.args[1].attr in ('text', 'tag', 'tail') and
                    isinstance(call.args[1].value, ast.Name) and
                    call.args[1].value.id in f.params()):
            # attribute named by a value handed in (request data: a parameter
            # or the text of a document node), unless a membership test of
            # that name dominates the call
            from .flow import guards_at, flatten_guards
            nm2 = ast.unparse(call.args[1])
            for e, pol in flatten_guards(guards_at(call, stop=f.node)):
                if isinstance(e, ast.Compare) and len(e.ops) == 1 and \
                        ast.unparse(e.left) == nm2:
                    if (isinstance(e.ops[0], ast.In) and pol) or (
                            isinstance(e.ops[0], ast.NotIn) and not pol):
                        return []
            return ['AttributeError']
        if nm in ('fromstring', 'XML', 'XMLID', 'parse') and (
                d.startswith('etree.') or target.startswith('lxml')):
            if d.startswith('html.'):
                return ['ParserError']
            out = ['XMLSyntaxError']
            # text (str) input with an encoding declaration -> ValueError
            a0 = call.args[0] if call.args else None
            if not self._bytes_typed(f, a0):
                out.append('ValueError')
            return out
        if nm == 'validate' and isinstance(call.func, ast.Attribute) and \
                'validation_schema' in unparse(call.func.value):
            # libxml2's validator gives up on nodes it does not know
            # (entity references): an exception instead of a False verdict
            return ['XMLSchemaValidateError']
        if nm == 'loads' and (d.startswith('json.') or
                              target.startswith('json') or
                              target.startswith('simplejson')):
            # not only syntax errors: int literals over the digit limit are
            # a plain ValueError, deep nesting is a RecursionError
            return ['JSONDecodeError', 'ValueError', 'RecursionError']
        if nm in ('load', 'safe_load') and (d.startswith('yaml.') or
                                            target.startswith('yaml')):
            # constructors of resolved scalars raise plain ValueError
            # (a timestamp such as 2001-13-45)
            return ['YAMLError', 'UnicodeDecodeError', 'ValueError']
        if nm in ('unpackb',) and (d.startswith('msgpack.') or
                                   target.startswith('msgpack')):
            return ['ValueError']
        return None

    def _from_digit_findall(self, f, a):
        """int(E) where E takes an element out of PATTERN.findall(...) (also
        through deque(...)) and the pattern's only group admits digits only."""
        base = None
        if isinstance(a, ast.Call) and isinstance(a.func, ast.Attribute) and \
                a.func.attr in ('popleft', 'pop') and isinstance(
                a.func.value, ast.Name):
            base = a.func.value.id
        elif isinstance(a, ast.Subscript) and isinstance(a.value, ast.Name):
            base = a.value.id
        if base is None:
            return False
        defs = [n.value for n in walk_no_defs(f.node)
                if isinstance(n, ast.Assign) and any(
                    isinstance(t, ast.Name) and t.id == base
                    for t in n.targets)]
        if not defs:
            return False
        for d in defs:
            inner = d
            if isinstance(inner, ast.Call) and call_name(inner) in (
                    'deque', 'list', 'tuple') and inner.args:
                inner = inner.args[0]
            if not (isinstance(inner, ast.Call) and isinstance(
                    inner.func, ast.Attribute) and
                    inner.func.attr == 'findall'):
                return False
            pats = self.patterns_of(f, inner.func.value)
            if not pats:
                return False
            for ptn in pats:
                groups = re.findall(r'\((?!\?)([^()]*)\)', ptn)
                if len(groups) != 1 or not re.match(
                        r'^(\\d|\[0-9\])(\+|\{\d+(,\d*)?\})$', groups[0]):
                    return False
        return True

    def _bytes_typed(self, f, a):
        if a is None:
            return False
        if isinstance(a, ast.Constant):
            return isinstance(a.value, bytes)
        if isinstance(a, ast.Call) and call_name(a) in ('encode', 'tostring',
                                                         'bytes'):
            return True
        if isinstance(a, ast.Call) and call_name(a) == 'join' and isinstance(
                a.func.value, ast.Constant) and isinstance(a.func.value.value,
                                                           bytes):
            return True
        if isinstance(a, ast.Name):
            defs = [n.value for n in walk_no_defs(f.node)
                    if isinstance(n, ast.Assign) and any(
                        isinstance(t, ast.Name) and t.id == a.id
                        for t in n.targets)]
            return bool(defs) and a.id not in f.params() and all(
                self._bytes_typed(f, d) for d in defs)
        return False

    # -- function summaries ---------------------------------------------------
    def fault_name(self, f, expr):
        """Name of the raised class; Fault subclasses collapse to 'Fault'."""
        e = expr.func if isinstance(expr, ast.Call) else expr
        r = self.prog.resolve_expr(f.module, e)
        if isinstance(r, ClassInfo):
            if self.prog.is_subclass(r, 'Fault'):
                return 'Fault'
            return r.name
        d = dotted(e)
        if d is None:
            return 'Exception'
        last = d.split('.')[-1]
        if last in ('ValidationError', 'Fault', 'ResourceNotFoundError',
                    'RequestNotAllowed', 'InternalError', 'ArgumentError',
                    'MissingFieldError', 'InvalidInputError',
                    'RequestTooLongError', 'InvalidCredentialsError',
                    'SchemaValidationError'):
            return 'Fault'
        return last

    def escapes(self, f, depth=0):
        """-> list of Raise that leave f."""
        if f in self._memo:
            return self._memo[f]
        if f in self._stack or depth > 6:
            return []
        self._stack.append(f)
        self.stats['functions'] += 1
        out = []
        try:
            self._block(f, f.node.body, [], out, depth, {})
        finally:
            self._stack.pop()
        # de-duplicate by (exc, node)
        seen = set()
        uniq = []
        for r in out:
            k = (r.exc, id(r.node))
            if k not in seen:
                seen.add(k)
                uniq.append(r)
        self._memo[f] = uniq
        return uniq

    def _caught(self, exc, stack):
        for handlers in reversed(stack):
            for h in handlers:
                names = handler_names(h)
                if not names:
                    return True
                full = []
                t = h.type
                elts = t.elts if isinstance(t, ast.Tuple) else [t]
                mod = getattr(handlers, 'module', None)
                for e in elts:
                    nm = dotted(e) or unparse(e)
                    # an import alias (from binascii import Error as X)
                    if mod is not None and isinstance(e, ast.Name):
                        nm = {'binascii.Error': 'binascii.Error'}.get(
                            mod.imports.get(e.id, ''), nm)
                        # a compatibility alias bound in an import fallback
                        # (``except ImportError: JSONDecodeError = ValueError``)
                        nm = _fallback_alias(mod, e.id) or nm
                    full.append(nm)
                for n in full:
                    if catches(n, exc):
                        return True
        return False

    def _emit(self, r, stack, out):
        if not self._caught(r.exc, stack):
            out.append(r)

    def _block(self, f, stmts, stack, out, depth, loopvars):
        for s in stmts:
            self._stmt(f, s, stack, out, depth, loopvars)

    def _stmt(self, f, s, stack, out, depth, loopvars):
        if isinstance(s, (ast.FunctionDef, ast.AsyncFunctionDef,
                          ast.ClassDef)):
            return
        if isinstance(s, ast.Try):
            hl = _Handlers(s.handlers)
            hl.module = f.module
            self._block(f, s.body, stack + [hl], out, depth, loopvars)
            # what the try body can raise at all (per the table), to skip
            # handlers that are unreachable in this domain
            inner = []
            self._block(f, s.body + s.orelse, [], inner, depth, loopvars)
            raised = {r.exc for r in inner}
            body_has_unknown_calls = False
            for h in s.handlers:
                names = []
                if h.type is not None:
                    t = h.type
                    for e in (t.elts if isinstance(t, ast.Tuple) else [t]):
                        names.append(dotted(e) or unparse(e))
                specific = names and all(
                    n.split('.')[-1] in HIER and n.split('.')[-1] not in (
                        'Exception', 'Fault') for n in names)
                if specific and not any(catches(n, exc) for n in names
                                        for exc in raised):
                    continue
                # bare ``raise`` re-raises what the handler caught
                self._block(f, h.body, stack, out, depth, loopvars)
                for n in h.body:
                    for x in walk_no_defs(n):
                        if isinstance(x, ast.Raise) and x.exc is None:
                            for nm in handler_names(h) or ['Exception']:
                                self._emit(Raise(nm, f, x, 're-raise'), stack,
                                           out)
            self._block(f, s.orelse, stack, out, depth, loopvars)
            self._block(f, s.finalbody, stack, out, depth, loopvars)
            return
        if isinstance(s, ast.Raise):
            if s.exc is not None:
                self._exprs(f, s.exc, stack, out, depth, loopvars)
                nm = self.fault_name(f, s.exc)
                self.stats['raise_sites'] += 1
                self._emit(Raise(nm, f, s, 'raise ' + unparse(s.exc)[:50]),
                           stack, out)
            return
        if isinstance(s, (ast.If, ast.While)):
            self._exprs(f, s.test, stack, out, depth, loopvars)
            self._block(f, s.body, stack, out, depth, loopvars)
            self._block(f, s.orelse, stack, out, depth, loopvars)
            return
        if isinstance(s, (ast.For, ast.AsyncFor)):
            self._exprs(f, s.iter, stack, out, depth, loopvars)
            self._block(f, s.body, stack, out, depth, loopvars)
            self._block(f, s.orelse, stack, out, depth, loopvars)
            return
        if isinstance(s, (ast.With, ast.AsyncWith)):
            for it in s.items:
                self._exprs(f, it.context_expr, stack, out, depth, loopvars)
            self._block(f, s.body, stack, out, depth, loopvars)
            return
        self._exprs(f, s, stack, out, depth, loopvars)
        self._unpack(f, s, stack, out)

    def _unpack(self, f, s, stack, out):
        """a, b = text.split(sep[, maxsplit]): the number of pieces is
        decided by the request unless maxsplit pins it and the separator is
        known to be present."""
        if not (isinstance(s, ast.Assign) and len(s.targets) == 1 and
                isinstance(s.targets[0], (ast.Tuple, ast.List)) and
                isinstance(s.value, ast.Call) and isinstance(
                s.value.func, ast.Attribute) and s.value.func.attr in (
                'split', 'rsplit')):
            return
        call = s.value
        if isinstance(call.func.value, ast.Constant):
            return
        n = len(s.targets[0].elts)
        if any(isinstance(e, ast.Starred) for e in s.targets[0].elts):
            return
        ms = None
        if len(call.args) >= 2:
            ms = call.args[1]
        for k in call.keywords:
            if k.arg == 'maxsplit':
                ms = k.value
        pinned = isinstance(ms, ast.Constant) and ms.value == n - 1
        from .flow import guards_at, flatten_guards
        present = False
        recv = unparse(call.func.value)
        sep = unparse(call.args[0]) if call.args else None
        for e, pol in flatten_guards(guards_at(s, stop=f.node)):
            if pol and isinstance(e, ast.Compare) and len(e.ops) == 1 and \
                    isinstance(e.ops[0], ast.In) and unparse(
                    e.comparators[0]) == recv and (
                    sep is None or unparse(e.left).strip('bu') ==
                    sep.strip('bu')):
                present = True
        if pinned and present:
            return
        self.stats['primitive_sites'] += 1
        why = '%s = %s' % (unparse(s.targets[0]), unparse(call)[:40])
        self._emit(Raise('ValueError', f, s, why + (
            ' (too many pieces: no maxsplit=%d)' % (n - 1) if not pinned
            else ' (separator may be absent)')), stack, out)

    def _exprs(self, f, node, stack, out, depth, loopvars):
        # comprehension variables ranging over literal string tuples
        lv = dict(loopvars)
        for n in ast.walk(node):
            if isinstance(n, ast.comprehension) and isinstance(
                    n.target, ast.Name) and isinstance(
                    n.iter, (ast.Tuple, ast.List)) and all(
                    isinstance(e, ast.Constant) for e in n.iter.elts):
                lv[n.target.id] = [e.value for e in n.iter.elts]
        # arithmetic on a timedelta built from request numbers: the result
        # may leave the representable range (-P999999999DT1S negated)
        ar = [x for x in ast.walk(node) if isinstance(x, (ast.AugAssign,
                                                          ast.BinOp))
              and isinstance(x.op, (ast.Mult, ast.Add, ast.Sub))]
        if ar:
            tds = {t.id for a in walk_no_defs(f.node)
                   if isinstance(a, ast.Assign) and isinstance(
                       a.value, ast.Call) and call_name(a.value) ==
                   'timedelta' and (a.value.args or a.value.keywords)
                   for t in a.targets if isinstance(t, ast.Name)}
            for x in ar:
                ops_ = [x.target, x.value] if isinstance(
                    x, ast.AugAssign) else [x.left, x.right]
                if any(isinstance(o, ast.Name) and o.id in tds
                       for o in ops_):
                    self.stats['primitive_sites'] += 1
                    self._emit(Raise('OverflowError', f, x,
                                     unparse(x)[:60]), stack, out)
        for call in self._calls(node):
            prim = self.primitive(f, call, lv)
            if prim is not None:
                if prim:
                    self.stats['primitive_sites'] += 1
                for exc in prim:
                    self._emit(Raise(exc, f, call, unparse(call)[:60]), stack,
                               out)
                continue
            for g, strength in self.resolve(f, call):
                if strength != 'strong':
                    continue
                for r in self.escapes(g, depth + 1):
                    if r.exc == 'Fault':
                        continue
                    self._emit(Raise(r.exc, r.func, r.node, r.why,
                                     [f.qualname] + r.via), stack, out)

    def _calls(self, node):
        out = []

        def visit(n):
            for child in ast.iter_child_nodes(n):
                if isinstance(child, (ast.FunctionDef, ast.AsyncFunctionDef,
                                      ast.ClassDef)):
                    continue
                visit(child)
            if isinstance(n, ast.Call):
                out.append(n)
        visit(node)
        return out

    def resolve(self, f, call):
        """Call targets: the call graph plus module-level dispatch tables
        (dict of lambdas / methods indexed at the call site)."""
        out = list(self.cg.resolve(f, call))
        fn = call.func
        if isinstance(fn, ast.Subscript):
            tbl = dotted(fn.value)
            if tbl:
                r = self.prog.resolve_in_module(f.module, tbl)
                if isinstance(r, tuple) and r[0] == 'const':
                    v = r[1].consts[r[2]]
                    if isinstance(v, ast.Dict):
                        for val in v.values:
                            t = self.prog.resolve_expr(r[1], val)
                            if isinstance(t, FuncInfo):
                                out.append((t, 'strong'))
                            elif isinstance(val, ast.Lambda):
                                out.append((LambdaFunc(r[1], val, tbl),
                                            'strong'))
        return out


class LambdaFunc(object):
    """Minimal FuncInfo look-alike for lambdas stored in dispatch tables."""

    def __init__(self, module, node, table):
        self.module = module
        self.qualname = '%s[<lambda>@%d]' % (table, node.lineno)
        self.name = '<lambda>'
        self.cls = None
        self.outer = None
        body = ast.Expr(value=node.body)
        ast.copy_location(body, node)
        self.node = ast.FunctionDef(name='<lambda>', args=node.args,
                                    body=[body], decorator_list=[])
        ast.copy_location(self.node, node)
        self.node.lineno = node.lineno
        self.node.end_lineno = getattr(node, 'end_lineno', node.lineno)

    def params(self):
        return [a.arg for a in self.node.args.args]

    @property
    def where(self):
        return '%s:%d' % (self.module.relpath, self.node.lineno)

    def __hash__(self):
        return id(self.node)

    def __eq__(self, other):
        return isinstance(other, LambdaFunc) and other.node is self.node
