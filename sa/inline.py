"""Helper transparency: a block that was moved verbatim into a *new* private
helper must be analysed as if it were still in place.

Before a module is indexed, every call of a private function/method that
  * is defined in the same module (same class for ``self._x`` / ``cls._x``),
  * did not exist in the tree the rules were written against (its qualified
    name is absent from ``local_names.json['__functions__']``), and
  * has a shape the transformation can reproduce faithfully (no generators,
    no ``*args``/``**kwargs``, no ``return`` inside one of its own loops)
is replaced by the helper's body with parameters bound to the arguments.
``return`` statements become assignments to the call's target followed by a
``break`` out of a single-pass loop (marked ``_once``; the flow analyses run its
body exactly once).  Line numbers of everything below the call are shifted so
that source order is still the order of line numbers.

On the unchanged tree there are no new helpers and this pass does nothing.
"""
import ast
import copy

FUNC = (ast.FunctionDef, ast.AsyncFunctionDef)
MAX_DEPTH = 3


KEEP_NAMES = set()     # set by core.Program._load


def _index(tree):
    """-> {qualname: (FunctionDef, class qualname or None)} of outer defs."""
    out = {}

    def walk(body, prefix, cls):
        for n in body:
            if isinstance(n, FUNC):
                out.setdefault(prefix + n.name, (n, cls))
            elif isinstance(n, ast.ClassDef):
                walk(n.body, prefix + n.name + '.', prefix + n.name)
    walk(tree.body, '', None)
    return out


def _is_static(fn):
    return any((isinstance(d, ast.Name) and d.id == 'staticmethod')
               for d in fn.decorator_list)


def _has_decorators_other_than_static(fn):
    for d in fn.decorator_list:
        nm = d.id if isinstance(d, ast.Name) else getattr(d, 'attr', None)
        if nm not in ('staticmethod', 'classmethod'):
            return True
    return False


def _inlinable(fn):
    a = fn.args
    if a.kwarg or getattr(a, 'posonlyargs', None):
        return False
    if a.vararg:
        # only when the extra arguments are just passed on: f(x, *args)
        va = a.vararg.arg
        starred = {id(x.value) for x in ast.walk(fn)
                   if isinstance(x, ast.Starred)}
        for n in ast.walk(fn):
            if isinstance(n, ast.Name) and n.id == va and \
                    id(n) not in starred:
                return False
        for c in ast.walk(fn):
            if isinstance(c, ast.Starred) and not (
                    isinstance(c.value, ast.Name) and c.value.id == va):
                return False
    if _has_decorators_other_than_static(fn):
        return False
    for n in ast.walk(fn):
        if isinstance(n, (ast.Yield, ast.YieldFrom, ast.Await)):
            return False
        if isinstance(n, (ast.Global, ast.Nonlocal)):
            return False
    return True


def _returns(body):
    out = []

    def walk(node):
        for ch in ast.iter_child_nodes(node):
            if isinstance(ch, FUNC + (ast.Lambda, ast.ClassDef)):
                continue
            if isinstance(ch, ast.Return):
                out.append(ch)
            walk(ch)
    for s in body:
        if isinstance(s, ast.Return):
            out.append(s)
        elif not isinstance(s, FUNC + (ast.ClassDef,)):
            walk(s)
    return out


def _strip_doc(body):
    if body and isinstance(body[0], ast.Expr) and isinstance(
            body[0].value, ast.Constant) and isinstance(
            body[0].value.value, str):
        return body[1:]
    return body


class _Inliner(object):
    def __init__(self, tree, known):
        self.tree = tree
        self.known = known
        self.defs = _index(tree)
        self.count = 0
        self.tmp = 0
        self.expanded = {}
        self.calls = None
        self.cur = None
        self.cur_names = None

    # -- resolution -----------------------------------------------------
    def resolve(self, call, cls):
        """-> (FunctionDef, skip_first) or None"""
        f = call.func
        q = None
        bound = False
        if isinstance(f, ast.Name):
            q = f.id
        elif isinstance(f, ast.Attribute) and isinstance(f.value, ast.Name):
            if f.value.id in ('self', 'cls') and cls:
                q = cls + '.' + f.attr
                bound = True
            elif f.value.id in self.defs_classes():
                q = f.value.id + '.' + f.attr
        if q is None or q not in self.defs:
            return None
        name = q.rsplit('.', 1)[-1]
        if not name.startswith('_') or (name.startswith('__') and
                                        name.endswith('__')):
            return None
        if q in self.known:
            # a call the recorded tree does not have, from a function it has:
            # a block was replaced by a call of an existing helper
            if self.calls is None or self.cur is None or \
                    self.cur not in self.calls or \
                    name in self.calls[self.cur]:
                return None
        fn, fcls = self.defs[q]
        if not _inlinable(fn):
            return None
        static = _is_static(fn)
        skip = 1 if (fcls is not None and not static) else 0
        if skip and not bound:
            # ClassName._m(self, ...) unbound style: arguments include self
            skip = 0
        return fn, skip

    def defs_classes(self):
        return {q.split('.')[0] for q, (f, c) in self.defs.items() if c}

    # -- transformation ---------------------------------------------------
    def bind(self, fn, call, skip):
        params = [a.arg for a in fn.args.args][skip:]
        defaults = list(fn.args.defaults)
        dmap = {}
        allp = [a.arg for a in fn.args.args]
        for p, d in zip(allp[len(allp) - len(defaults):], defaults):
            dmap[p] = d
        for a, d in zip(fn.args.kwonlyargs, fn.args.kw_defaults):
            params.append(a.arg)
            if d is not None:
                dmap[a.arg] = d
        vals = {}
        if any(isinstance(a, ast.Starred) for a in call.args) or any(
                k.arg is None for k in call.keywords):
            return None
        self.extra = None
        if len(call.args) > len(params):
            if fn.args.vararg is None or fn.args.kwonlyargs:
                return None
            self.extra = (fn.args.vararg.arg,
                          [copy.deepcopy(a) for a in call.args[len(params):]])
        elif fn.args.vararg is not None:
            self.extra = (fn.args.vararg.arg, [])
        for p, a in zip(params, call.args):
            vals[p] = a
        for k in call.keywords:
            if k.arg not in params or k.arg in vals:
                return None
            vals[k.arg] = k.value
        out = []
        renames = {}
        for p in params:
            if p not in vals:
                if p not in dmap:
                    return None
                vals[p] = dmap[p]
            v = vals[p]
            if isinstance(v, ast.Name) and v.id == p:
                continue
            # the parameter becomes a fresh local of the caller so that it
            # cannot capture a caller variable of the same name
            self.tmp += 1
            fresh = '%s__p%d' % (p, self.tmp)
            renames[p] = fresh
            out.append(ast.Assign(
                targets=[ast.Name(id=fresh, ctx=ast.Store())],
                value=copy.deepcopy(v)))
        return out, renames

    def expand(self, stmt, call, cls, depth):
        """-> list of statements replacing ``stmt`` (which contains ``call``
        of an inlinable helper) or None."""
        r = self.resolve(call, cls)
        if r is None:
            return None
        fn, skip = r
        bound = self.bind(fn, call, skip)
        if bound is None:
            return None
        binds, renames = bound
        body = copy.deepcopy(_strip_doc(fn.body))
        if self.extra is not None:
            va, extra = self.extra
            for st in body:
                for c in ast.walk(st):
                    if isinstance(c, ast.Call):
                        newargs = []
                        for a in c.args:
                            if isinstance(a, ast.Starred) and isinstance(
                                    a.value, ast.Name) and a.value.id == va:
                                newargs.extend(copy.deepcopy(e)
                                               for e in extra)
                            else:
                                newargs.append(a)
                        c.args = newargs
        # the helper's own locals become fresh locals of the caller: two
        # expansions of one helper (or a caller local of the same name) must
        # not share them
        params_all = {a.arg for a in fn.args.args} | {
            a.arg for a in fn.args.kwonlyargs}
        declared = set()
        stored = []
        for st in body:
            for n in ast.walk(st):
                if isinstance(n, (ast.Global, ast.Nonlocal)):
                    declared |= set(n.names)
                elif isinstance(n, ast.Name) and isinstance(
                        n.ctx, (ast.Store, ast.Del)) and \
                        n.id not in stored:
                    stored.append(n.id)
                elif isinstance(n, ast.ExceptHandler) and n.name and \
                        n.name not in stored:
                    stored.append(n.name)
        nested_defs = any(isinstance(n, (ast.FunctionDef, ast.Lambda,
                                         ast.ClassDef, ast.AsyncFunctionDef))
                          for st in body for n in ast.walk(st))
        if not nested_defs:
            taken = self.cur_names if self.cur_names is not None else None
            for nm in stored:
                if nm in params_all or nm in declared or nm in renames:
                    continue
                if taken is not None and nm not in taken:
                    # no variable of that name in the caller: the local keeps
                    # its name (and is the caller's from here on)
                    taken.add(nm)
                    continue
                self.tmp += 1
                renames[nm] = '%s__l%d' % (nm, self.tmp)
        if renames:
            holder = ast.Module(body=body, type_ignores=[])
            _RenameNames(renames).visit(holder)
            body = holder.body
        self.expanded.setdefault(fn.name, 0)
        self.expanded[fn.name] += 1
        rets = _returns(body)
        exact = (isinstance(stmt, (ast.Expr, ast.Return)) and
                 stmt.value is call) or (isinstance(stmt, ast.Assign) and
                                         stmt.value is call)
        pre = []
        if not exact:
            # hoist the nested call into a temporary
            self.tmp += 1
            tname = '__inl%d' % self.tmp
            _Replace(call, ast.Name(id=tname, ctx=ast.Load())).visit(stmt)
            target_stmt = ast.Assign(
                targets=[ast.Name(id=tname, ctx=ast.Store())], value=call)
            rest = [stmt]
        else:
            target_stmt = stmt
            rest = []
        if isinstance(target_stmt, ast.Return):
            new = binds + body
            if not _always_exits(body):
                new.append(ast.Return(value=ast.Constant(value=None)))
        elif isinstance(target_stmt, ast.Expr):
            if not rets:
                new = binds + body
            else:
                new = binds + _aslist(self.once(body, None))
        else:   # Assign
            tg = target_stmt.targets
            if len(rets) == 1 and body and body[-1] is rets[0] and \
                    rets[0].value is not None:
                rv = rets[0].value
                tname = tg[0].id if len(tg) == 1 and isinstance(
                    tg[0], ast.Name) else None
                used = {n.id for st in binds + body[:-1]
                        for n in ast.walk(st) if isinstance(n, ast.Name)}
                if tname is not None and isinstance(rv, ast.Name) and \
                        rv.id in renames.values() and \
                        rv.id.rpartition('__l')[0] == tname and \
                        tname not in used:
                    # ``T = helper(...)`` whose helper builds its result in a
                    # local called T as well: the local is the caller's T
                    holder = ast.Module(body=body[:-1], type_ignores=[])
                    _RenameNames({rv.id: tname}).visit(holder)
                    new = binds + holder.body
                elif len(tg) == 1 and isinstance(tg[0], ast.Tuple) and \
                        isinstance(rv, ast.Tuple) and \
                        len(tg[0].elts) == len(rv.elts) and all(
                            isinstance(t_, ast.Name) for t_ in tg[0].elts) \
                        and all(isinstance(v_, ast.Name) for v_ in rv.elts):
                    # ``a, b = helper()`` with ``return a_, b_`` inside:
                    # one assignment per name, result locals that have the
                    # target's name are the target
                    pre_ = body[:-1]
                    tail = []
                    tnames = [t_.id for t_ in tg[0].elts]
                    for t_, v_ in zip(tg[0].elts, rv.elts):
                        others = {n.id for st in binds + pre_
                                  for n in ast.walk(st)
                                  if isinstance(n, ast.Name)}
                        if v_.id in renames.values() and \
                                v_.id.rpartition('__l')[0] == t_.id and \
                                t_.id not in others and \
                                [x.id for x in rv.elts].count(v_.id) == 1:
                            holder = ast.Module(body=pre_, type_ignores=[])
                            _RenameNames({v_.id: t_.id}).visit(holder)
                            pre_ = holder.body
                        else:
                            tail.append(ast.Assign(
                                targets=[copy.deepcopy(t_)],
                                value=copy.deepcopy(v_)))
                    new = binds + pre_ + tail
                elif not exact and isinstance(rv, ast.Name) and (
                        rv.id in stored or rv.id in renames.values()) and \
                        rv.id not in params_all:
                    # a hoisted call whose helper returns one of its locals:
                    # the statement reads that local, no temporary
                    _RenameNames({tname: rv.id}).visit(rest[0])
                    new = binds + body[:-1]
                else:
                    new = binds + body[:-1] + [ast.Assign(
                        targets=copy.deepcopy(tg), value=rv)]
            else:
                new = binds + _aslist(self.once(body, tg))
        self.count += 1
        out = pre + new + rest
        # helpers calling new helpers
        if depth < MAX_DEPTH:
            out = self.block(out, cls, depth + 1)
        return out

    def once(self, body, targets):
        """Single-pass loop: ``return X`` -> ``targets = X; break``.  A return
        inside a loop of the helper additionally sets a flag that is tested
        right after that loop (``if flag: break``), so control leaves every
        enclosing loop of the helper as the return did."""
        self.tmp += 1
        flag = '__ret%d' % self.tmp
        used_flag = [False]

        def ret_stmts(n, in_loop):
            out = []
            if targets is not None:
                out.append(ast.Assign(
                    targets=copy.deepcopy(targets),
                    value=n.value if n.value is not None
                    else ast.Constant(value=None)))
            elif n.value is not None:
                out.append(ast.Expr(value=n.value))
            if in_loop:
                used_flag[0] = True
                out.append(ast.Assign(
                    targets=[ast.Name(id=flag, ctx=ast.Store())],
                    value=ast.Constant(value=True)))
            out.append(ast.Break())
            return out

        def has_return(node):
            for ch in ast.walk(node):
                if isinstance(ch, ast.Return):
                    return True
            return False

        def block(stmts, in_loop):
            out = []
            for st in stmts:
                if isinstance(st, FUNC + (ast.ClassDef,)):
                    out.append(st)
                    continue
                if isinstance(st, ast.Return):
                    out.extend(ret_stmts(st, in_loop))
                    continue
                is_loop = isinstance(st, (ast.For, ast.While, ast.AsyncFor))
                contains = is_loop and has_return(st)
                for fld in ('body', 'orelse', 'finalbody'):
                    b = getattr(st, fld, None)
                    if isinstance(b, list) and b and isinstance(
                            b[0], ast.stmt):
                        setattr(st, fld, block(
                            b, in_loop or (is_loop and fld == 'body')))
                for h in getattr(st, 'handlers', []) or []:
                    h.body = block(h.body, in_loop)
                out.append(st)
                if contains:
                    out.append(ast.If(
                        test=ast.Name(id=flag, ctx=ast.Load()),
                        body=[ast.Break()], orelse=[]))
            return out
        body = block(body, False)
        if targets is not None and not _always_exits_or_breaks(body):
            body.append(ast.Assign(targets=copy.deepcopy(targets),
                                   value=ast.Constant(value=None)))
        loop = ast.For(target=ast.Name(id='__once', ctx=ast.Store()),
                       iter=ast.Tuple(elts=[ast.Constant(value=None)],
                                      ctx=ast.Load()),
                       body=body or [ast.Pass()], orelse=[])
        loop._once = True
        if used_flag[0]:
            init = ast.Assign(targets=[ast.Name(id=flag, ctx=ast.Store())],
                              value=ast.Constant(value=False))
            return [init, loop]
        return loop

    def first_call(self, stmt, cls):
        """The first call (evaluation order approximated by position) of a new
        helper inside a simple statement."""
        best = None
        # calls inside a comprehension or lambda depend on its variables and
        # may run many times: they cannot be hoisted in front of the statement
        scoped = set()
        for n in ast.walk(stmt):
            if isinstance(n, (ast.ListComp, ast.SetComp, ast.DictComp,
                              ast.GeneratorExp, ast.Lambda)):
                for y in ast.walk(n):
                    if y is not n:
                        scoped.add(id(y))
        for n in ast.walk(stmt):
            if isinstance(n, FUNC + (ast.Lambda,)):
                continue
            if id(n) in scoped:
                continue
            if isinstance(n, ast.Call) and self.resolve(n, cls) is not None:
                k = (getattr(n, 'lineno', 0), getattr(n, 'col_offset', 0))
                if best is None or k < best[0]:
                    best = (k, n)
        return best[1] if best else None

    def block(self, stmts, cls, depth=0):
        out = []
        for s in stmts:
            if isinstance(s, FUNC + (ast.ClassDef,)):
                out.append(s)
                continue
            if isinstance(s, (ast.Expr, ast.Assign, ast.Return)):
                call = self.first_call(s, cls)
                if call is not None:
                    new = self.expand(s, call, cls, depth)
                    if new is not None:
                        span = _renumber(self.tree, s, new)
                        out.extend(new)
                        continue
                out.append(s)
                continue
            if isinstance(s, ast.If):
                # ``if helper(...):`` / ``if not helper(...):`` - the call is
                # the first thing the test evaluates, so it can be computed
                # into a temporary right before the statement
                t = s.test
                inner = t.operand if isinstance(t, ast.UnaryOp) and \
                    isinstance(t.op, ast.Not) else t
                if isinstance(inner, ast.Call) and \
                        self.resolve(inner, cls) is not None:
                    self.tmp += 1
                    tname = '__inl%d' % self.tmp
                    asg = ast.copy_location(ast.Assign(
                        targets=[ast.Name(id=tname, ctx=ast.Store())],
                        value=inner), s)
                    ast.fix_missing_locations(asg)
                    new = self.expand(asg, inner, cls, depth)
                    if new is not None:
                        nm = ast.copy_location(
                            ast.Name(id=tname, ctx=ast.Load()), inner)
                        if inner is t:
                            s.test = nm
                        else:
                            t.operand = nm
                        _renumber(self.tree, s, new + [s])
                        for fld in ('body', 'orelse'):
                            b = getattr(s, fld, None)
                            if isinstance(b, list) and b:
                                setattr(s, fld, self.block(b, cls, depth))
                        out.extend(new)
                        out.append(s)
                        continue
            for fld in ('body', 'orelse', 'finalbody'):
                b = getattr(s, fld, None)
                if isinstance(b, list) and b and isinstance(b[0], ast.stmt):
                    setattr(s, fld, self.block(b, cls, depth))
            for h in getattr(s, 'handlers', []) or []:
                h.body = self.block(h.body, cls, depth)
            out.append(s)
        return out

    def inline_predicates(self, fnode, cls):
        """Expression-level inlining of new helpers whose body is a single
        ``return <expr>`` when every argument is a plain name, attribute chain
        or constant (so evaluating it where the parameter stood changes
        nothing): ``if self._is_x(a, b):`` reads like the condition itself."""
        changed = True
        rounds = 0
        while changed and rounds < 4:
            changed = False
            rounds += 1
            for n in list(ast.walk(fnode)):
                if isinstance(n, FUNC + (ast.Lambda,)) and n is not fnode:
                    continue
                for fld, val in ast.iter_fields(n):
                    items = val if isinstance(val, list) else [val]
                    for idx, c in enumerate(items):
                        if not isinstance(c, ast.Call):
                            continue
                        r = self.resolve(c, cls)
                        if r is None:
                            continue
                        fn, skip = r
                        body = _strip_doc(fn.body)
                        if len(body) != 1 or not isinstance(
                                body[0], ast.Return) or body[0].value is None:
                            continue
                        if not all(isinstance(a, (ast.Name, ast.Constant)) or
                                   (isinstance(a, ast.Attribute) and
                                    _attr_chain(a)) for a in c.args) or \
                                c.keywords:
                            continue
                        params = [a.arg for a in fn.args.args][skip:]
                        if len(params) != len(c.args) or fn.args.kwonlyargs:
                            continue
                        expr = copy.deepcopy(body[0].value)
                        holder = ast.Expression(body=expr)
                        m = dict(zip(params, c.args))

                        class _S(ast.NodeTransformer):
                            def visit_Name(self_, nn):
                                if nn.id in m and isinstance(nn.ctx,
                                                             ast.Load):
                                    return ast.copy_location(
                                        copy.deepcopy(m[nn.id]), nn)
                                return nn
                        _S().visit(holder)
                        new = ast.copy_location(holder.body, c)
                        for x in ast.walk(new):
                            if not hasattr(x, 'lineno'):
                                ast.copy_location(x, c)
                        if isinstance(val, list):
                            val[idx] = new
                        else:
                            setattr(n, fld, new)
                        self.count += 1
                        self.expanded.setdefault(fn.name, 0)
                        self.expanded[fn.name] += 1
                        changed = True

    def run(self):
        def walk(body, cls):
            for n in body:
                if isinstance(n, FUNC):
                    self.cur = (cls + '.' if cls else '') + n.name
                    self.cur_names = {x.id for x in ast.walk(n)
                                      if isinstance(x, ast.Name)} | {
                        a.arg for x in ast.walk(n)
                        if isinstance(x, ast.arguments)
                        for a in x.args + x.kwonlyargs + [
                            y for y in (x.vararg, x.kwarg) if y]} | {
                        h.name for h in ast.walk(n)
                        if isinstance(h, ast.ExceptHandler) and h.name}
                    self.inline_predicates(n, cls)
                    n.body = self.block(n.body, cls)
                    self.cur = None
                    self.cur_names = None
                elif isinstance(n, ast.ClassDef):
                    walk(n.body, (cls + '.' if cls else '') + n.name)
        walk(self.tree.body, None)
        if self.count:
            self.drop_dead_helpers()
            ast.fix_missing_locations(self.tree)
        return self.count

    def drop_dead_helpers(self):
        """A new helper all of whose uses in the module were expanded is dead
        for the analysis: remove its definition (it would otherwise be
        analysed out of the context it runs in)."""
        remaining = {}
        for n in ast.walk(self.tree):
            if isinstance(n, ast.Attribute):
                remaining[n.attr] = remaining.get(n.attr, 0) + 1
            elif isinstance(n, ast.Name):
                remaining[n.id] = remaining.get(n.id, 0) + 1
        dead = set()
        for q, (fn, cls) in self.defs.items():
            if fn.name in self.expanded and q not in self.known:
                # references left inside the helper's own body do not count
                own = sum(1 for x in ast.walk(fn) if (
                    isinstance(x, ast.Attribute) and x.attr == fn.name) or (
                    isinstance(x, ast.Name) and x.id == fn.name))
                if remaining.get(fn.name, 0) - own <= 0 and \
                        fn.name not in KEEP_NAMES:
                    dead.add(id(fn))
        if not dead:
            return

        def prune(body):
            out = []
            for n in body:
                if id(n) in dead:
                    continue
                if isinstance(n, ast.ClassDef):
                    n.body = prune(n.body) or [ast.Pass()]
                out.append(n)
            return out
        self.tree.body = prune(self.tree.body)


class _RenameNames(ast.NodeTransformer):
    def __init__(self, m):
        self.m = m

    def visit_Name(self, n):
        if n.id in self.m:
            n.id = self.m[n.id]
        return n


class _Replace(ast.NodeTransformer):
    def __init__(self, old, new):
        self.old, self.new = old, new

    def visit(self, node):
        if node is self.old:
            return ast.copy_location(self.new, node)
        return self.generic_visit(node)


def _attr_chain(a):
    while isinstance(a, ast.Attribute):
        a = a.value
    return isinstance(a, ast.Name)


def _aslist(x):
    return x if isinstance(x, list) else [x]


def _always_exits(body):
    if not body:
        return False
    s = body[-1]
    if isinstance(s, (ast.Return, ast.Raise)):
        return True
    if isinstance(s, ast.If):
        return _always_exits(s.body) and _always_exits(s.orelse)
    if isinstance(s, ast.Try):
        if s.finalbody and _always_exits(s.finalbody):
            return True
        return _always_exits(s.body + s.orelse) and all(
            _always_exits(h.body) for h in s.handlers)
    return False


def _always_exits_or_breaks(body):
    if not body:
        return False
    s = body[-1]
    if isinstance(s, (ast.Return, ast.Raise, ast.Break)):
        return True
    if isinstance(s, ast.If):
        return _always_exits_or_breaks(s.body) and \
            _always_exits_or_breaks(s.orelse)
    if isinstance(s, ast.Try):
        return _always_exits_or_breaks(s.body + s.orelse) and all(
            _always_exits_or_breaks(h.body) for h in s.handlers)
    return False


def _renumber(tree, stmt, new):
    """Give the replacement statements consecutive lines starting at the line
    of the replaced statement and shift everything below it, so that source
    order stays the order of line numbers."""
    start = getattr(stmt, 'lineno', 1)
    base_end = getattr(stmt, 'end_lineno', None) or start
    inl = {id(n) for s in new for n in ast.walk(s)}
    cursor = start
    for s in new:
        nodes = [n for n in ast.walk(s)]
        lines = [n.lineno for n in nodes if getattr(n, 'lineno', None)
                 is not None]
        if lines:
            first = min(lines)
            last = max([getattr(n, 'end_lineno', None) or n.lineno
                        for n in nodes if getattr(n, 'lineno', None)
                        is not None])
        else:
            first = last = cursor
        delta = cursor - first
        for n in nodes:
            if getattr(n, 'lineno', None) is not None:
                n.lineno += delta
                if getattr(n, 'end_lineno', None) is not None:
                    n.end_lineno += delta
            elif isinstance(n, (ast.stmt, ast.expr, ast.ExceptHandler)):
                n.lineno = cursor
                n.end_lineno = cursor
                n.col_offset = 0
                n.end_col_offset = 0
        cursor += (last - first) + 1
    span = cursor - 1 - base_end
    if span > 0:
        for n in ast.walk(tree):
            if id(n) in inl:
                continue
            ln = getattr(n, 'lineno', None)
            if ln is not None and ln > base_end:
                n.lineno = ln + span
                if getattr(n, 'end_lineno', None) is not None:
                    n.end_lineno += span
    return span


def inline_new_helpers(tree, known_functions, known_calls=None):
    """Inline calls of private helpers that are not in ``known_functions``
    (set of qualified names), and *new* calls of known private helpers from
    known functions (``known_calls``: caller qualname -> callee names the
    recorded tree has).  Returns the number of call sites expanded."""
    if known_functions is None:
        return 0
    inl = _Inliner(tree, set(known_functions))
    inl.calls = known_calls
    return inl.run()
