"""Handler tables built in protocol constructors:
    self.T = cdict({Model: self.handler, ...}) / cdict(localdict) / {...}
    self.T[Model] = self.handler
read along the MRO (base first) so that subclass overrides win."""
import ast

from .core import ClassInfo, FuncInfo, dotted, unparse, call_name, walk_no_defs


class Entry(object):
    def __init__(self, table, key, value, owner, node, target):
        self.table = table
        self.key = key          # model class name as written (last component)
        self.value = value      # expr
        self.owner = owner      # ClassInfo whose __init__ made the entry
        self.node = node
        self.target = target    # FuncInfo | ('lambda', Lambda) | None

    def __repr__(self):
        return '<Entry %s[%s] = %s (%s)>' % (self.table, self.key,
                                             unparse(self.value)[:30],
                                             self.owner.name)


def _key_name(k):
    d = dotted(k)
    return d.split('.')[-1] if d else unparse(k)


def tables_of(prog, cls):
    """{table: {key: Entry}} for the concrete class ``cls``."""
    out = {}
    mro = [k for k in prog.mro(cls) if isinstance(k, ClassInfo)]
    for k in reversed(mro):
        init = k.methods.get('__init__')
        if init is None:
            continue
        local_dicts = {}
        for n in init.node.body if False else walk_no_defs(init.node):
            if isinstance(n, ast.Assign) and len(n.targets) == 1:
                t = n.targets[0]
                v = n.value
                if isinstance(t, ast.Name) and isinstance(v, ast.Dict):
                    local_dicts[t.id] = v
        stmts = sorted([n for n in walk_no_defs(init.node)
                        if isinstance(n, ast.Assign)],
                       key=lambda n: (n.lineno, n.col_offset))
        for n in stmts:
            for t in n.targets:
                v = n.value
                if isinstance(t, ast.Attribute) and dotted(t.value) == 'self':
                    d = None
                    if isinstance(v, ast.Call) and call_name(v) in (
                            'cdict', 'dict', 'odict') and v.args:
                        a = v.args[0]
                        if isinstance(a, ast.Dict):
                            d = a
                        elif isinstance(a, ast.Name) and a.id in local_dicts:
                            d = local_dicts[a.id]
                    elif isinstance(v, ast.Dict):
                        d = v
                    if d is None:
                        continue
                    tbl = out[t.attr] = {}
                    for kk, vv in zip(d.keys, d.values):
                        if kk is None:
                            continue
                        tbl[_key_name(kk)] = Entry(
                            t.attr, _key_name(kk), vv, k, n,
                            _target(prog, cls, vv))
                elif isinstance(t, ast.Subscript) and isinstance(
                        t.value, ast.Attribute) and dotted(
                        t.value.value) == 'self':
                    tbl = out.setdefault(t.value.attr, {})
                    tbl[_key_name(t.slice)] = Entry(
                        t.value.attr, _key_name(t.slice), v, k, n,
                        _target(prog, cls, v))
    return out


def _target(prog, cls, v):
    if isinstance(v, ast.Attribute) and dotted(v.value) == 'self':
        return prog.find_method(cls, v.attr)
    if isinstance(v, ast.Lambda):
        return ('lambda', v)
    return None


MODEL_PARENTS = None


def model_class(prog, name):
    """ClassInfo of a model class by simple name (first found under
    spyne.model)."""
    for m in sorted(prog.modules):
        if not m.startswith('spyne.model'):
            continue
        c = prog.modules[m].classes.get(name)
        if c is not None:
            return c
    return None


def cdict_lookup(prog, table, model):
    """cdict semantics: exact key, else the nearest base (reversed(__bases__)
    depth-first)."""
    if model.name in table:
        return table[model.name]
    for b in reversed(prog.bases(model)):
        if isinstance(b, ClassInfo):
            r = cdict_lookup(prog, table, b)
            if r is not None:
                return r
        elif isinstance(b, str) and b.split('.')[-1] in table:
            return table[b.split('.')[-1]]
    return None
