"""Constant folding from the source.  Anything that cannot be folded raises
Unknown - never guessed."""
import ast
import math

from .core import dotted, Module, FuncInfo, ClassInfo


class Unknown(Exception):
    pass


_BIN = {
    ast.Add: lambda a, b: a + b, ast.Sub: lambda a, b: a - b,
    ast.Mult: lambda a, b: a * b, ast.Pow: lambda a, b: a ** b,
    ast.FloorDiv: lambda a, b: a // b, ast.Mod: lambda a, b: a % b,
    ast.LShift: lambda a, b: a << b, ast.RShift: lambda a, b: a >> b,
    ast.Div: lambda a, b: a / b, ast.BitOr: lambda a, b: a | b,
    ast.BitAnd: lambda a, b: a & b,
}


def fold(prog, module, expr, env=None, depth=0):
    """Value of ``expr`` evaluated in ``module`` with local bindings ``env``
    (name -> python value or ast expr)."""
    if depth > 12:
        raise Unknown('depth')
    env = env or {}
    if isinstance(expr, ast.Constant):
        return expr.value
    if isinstance(expr, ast.Name):
        if expr.id in env:
            v = env[expr.id]
            if isinstance(v, ast.AST):
                return fold(prog, module, v, env, depth + 1)
            return v
        if expr.id in ('True', 'False', 'None'):
            return {'True': True, 'False': False, 'None': None}[expr.id]
        return _fold_name(prog, module, expr.id, depth)
    if isinstance(expr, ast.Attribute):
        d = dotted(expr)
        if d is None:
            raise Unknown(ast.dump(expr)[:40])
        return _fold_name(prog, module, d, depth)
    if isinstance(expr, ast.UnaryOp):
        v = fold(prog, module, expr.operand, env, depth + 1)
        if isinstance(expr.op, ast.USub):
            return -v
        if isinstance(expr.op, ast.UAdd):
            return +v
        if isinstance(expr.op, ast.Not):
            return not v
        raise Unknown('unary')
    if isinstance(expr, ast.BinOp):
        op = _BIN.get(type(expr.op))
        if op is None:
            raise Unknown('binop')
        a = fold(prog, module, expr.left, env, depth + 1)
        b = fold(prog, module, expr.right, env, depth + 1)
        try:
            return op(a, b)
        except Exception as e:
            raise Unknown(str(e))
    if isinstance(expr, ast.BoolOp):
        vals = [fold(prog, module, v, env, depth + 1) for v in expr.values]
        out = vals[0]
        for v in vals[1:]:
            out = (out and v) if isinstance(expr.op, ast.And) else (out or v)
        return out
    if isinstance(expr, ast.Compare):
        cmpf = {ast.Eq: lambda a, b: a == b, ast.NotEq: lambda a, b: a != b,
                ast.In: lambda a, b: a in b, ast.NotIn: lambda a, b: a not in b,
                ast.Lt: lambda a, b: a < b, ast.LtE: lambda a, b: a <= b,
                ast.Gt: lambda a, b: a > b, ast.GtE: lambda a, b: a >= b}
        left = fold(prog, module, expr.left, env, depth + 1)
        for op, right in zip(expr.ops, expr.comparators):
            if type(op) not in cmpf:
                raise Unknown('compare')
            r = fold(prog, module, right, env, depth + 1)
            try:
                if not cmpf[type(op)](left, r):
                    return False
            except Exception as e:
                raise Unknown(str(e))
            left = r
        return True
    if isinstance(expr, (ast.Tuple, ast.List)):
        vals = [fold(prog, module, e, env, depth + 1) for e in expr.elts]
        return tuple(vals) if isinstance(expr, ast.Tuple) else vals
    if isinstance(expr, ast.Set):
        return {fold(prog, module, e, env, depth + 1) for e in expr.elts}
    if isinstance(expr, ast.Dict):
        return {fold(prog, module, k, env, depth + 1):
                fold(prog, module, v, env, depth + 1)
                for k, v in zip(expr.keys, expr.values) if k is not None}
    if isinstance(expr, ast.JoinedStr):
        out = ''
        for v in expr.values:
            if isinstance(v, ast.Constant):
                out += str(v.value)
            elif isinstance(v, ast.FormattedValue) and v.format_spec is None \
                    and v.conversion == -1:
                out += str(fold(prog, module, v.value, env, depth + 1))
            else:
                raise Unknown('fstring')
        return out
    if isinstance(expr, ast.Call):
        d = dotted(expr.func)
        args = None
        if d in ('len', 'str', 'int', 'float', 'min', 'max', 'abs', 'round',
                 'math.ceil', 'math.log', 'math.floor', 'ceil', 'log',
                 'frozenset', 'set', 'tuple', 'list', 'bool'):
            args = [fold(prog, module, a, env, depth + 1) for a in expr.args]
            fn = {'len': len, 'str': str, 'int': int, 'float': float,
                  'min': min, 'max': max, 'abs': abs, 'round': round,
                  'math.ceil': math.ceil, 'math.log': math.log,
                  'math.floor': math.floor, 'ceil': math.ceil,
                  'log': math.log, 'frozenset': frozenset, 'set': set,
                  'tuple': tuple, 'list': list, 'bool': bool}[d]
            try:
                return fn(*args)
            except Exception as e:
                raise Unknown(str(e))
        if isinstance(expr.func, ast.Attribute) and expr.func.attr in (
                'encode', 'lower', 'upper', 'strip', 'join', 'format',
                'replace', 'startswith', 'endswith') and not expr.keywords:
            base = fold(prog, module, expr.func.value, env, depth + 1)
            args = [fold(prog, module, a, env, depth + 1) for a in expr.args]
            try:
                return getattr(base, expr.func.attr)(*args)
            except Exception as e:
                raise Unknown(str(e))
        # a pure module-level helper: ``def f(a, b='x'): return <expr>``
        if isinstance(expr.func, ast.Name) and \
                expr.func.id in getattr(module, 'functions', {}):
            fn = module.functions[expr.func.id].node
            body = [st for st in fn.body if not (
                isinstance(st, ast.Expr) and isinstance(
                    st.value, ast.Constant) and isinstance(
                    st.value.value, str))]
            a_ = fn.args
            if len(body) == 1 and isinstance(body[0], ast.Return) and \
                    body[0].value is not None and not a_.vararg and \
                    not a_.kwarg and not any(
                        isinstance(x, ast.Starred) for x in expr.args) and \
                    all(k.arg is not None for k in expr.keywords):
                names = [p.arg for p in a_.args]
                newenv = {}
                defaults = dict(zip(names[len(names) - len(a_.defaults):],
                                    a_.defaults))
                for nm, dv in defaults.items():
                    newenv[nm] = fold(prog, module, dv, None, depth + 1)
                if len(expr.args) > len(names):
                    raise Unknown('arity')
                for nm, av in zip(names, expr.args):
                    newenv[nm] = fold(prog, module, av, env, depth + 1)
                for k in expr.keywords:
                    if k.arg not in names:
                        raise Unknown('keyword')
                    newenv[k.arg] = fold(prog, module, k.value, env,
                                         depth + 1)
                if set(names) - set(newenv):
                    raise Unknown('unbound parameter')
                return fold(prog, module, body[0].value, newenv, depth + 1)
        raise Unknown('call ' + str(d))
    raise Unknown(type(expr).__name__)


def _fold_name(prog, module, name, depth):
    parts = name.split('.')
    head = parts[0]
    if len(parts) == 1 and head in module.consts:
        return fold(prog, module, module.consts[head], None, depth + 1)
    r = prog.resolve_in_module(module, name)
    if isinstance(r, tuple) and r[0] == 'const':
        m2, nm = r[1], r[2]
        return fold(prog, m2, m2.consts[nm], None, depth + 1)
    raise Unknown('name ' + name)


def try_fold(prog, module, expr, env=None):
    try:
        return True, fold(prog, module, expr, env)
    except Unknown:
        return False, None
    except RecursionError:
        return False, None
